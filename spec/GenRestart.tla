----------------------------- MODULE GenRestart -----------------------------
(***************************************************************************)
(* X02 (d): the generators handed out by a MultiDomainGrid are restartable *)
(* and independent.                                                        *)
(*                                                                         *)
(* A multi-domain grid over domains with Sizes[j] nodes each (a single     *)
(* grid repeated num_domains times is seen here as num_domains equal       *)
(* domains) enumerates the Cartesian product of the node index ranges in   *)
(* lexicographic order (last domain fastest).  Every access to .points or  *)
(* .weights hands out a NEW handle that starts at the first item; stepping *)
(* one handle never moves another; a handle yields exactly Total items and *)
(* then stops (and keeps stopping); .size is Total; integrating the        *)
(* constant 1 gives the sum of all combined weights and leaves every       *)
(* handle where it was.                                                    *)
(*                                                                         *)
(* Fresh = TRUE is the design the library documents ("returned as a        *)
(* generator").  Fresh = FALSE models a library that caches one iterator   *)
(* per kind and hands it out again: TLC refutes NewGenFresh and            *)
(* StepIndependent on it (the instance only shows that the specification   *)
(* can see such a defect).                                                 *)
(*                                                                         *)
(* Weights are integers (the harness uses integer-valued floats, products  *)
(* are exact); a point is identified by the tuple of node indices.         *)
(***************************************************************************)
EXTENDS Integers, Sequences, FiniteSets, TLC

CONSTANTS Sizes,      \* sequence: number of nodes per domain (initial value of gr_cfg.sizes)
          Wts,        \* sequence (per domain) of sequences of integer weights
          MaxGens,    \* bound on the number of handles of one behaviour
          Fresh       \* BOOLEAN, see above

Kinds == {"p", "w"}

RECURSIVE ProdFrom(_, _)
ProdFrom(sz_, j_) == IF j_ > Len(sz_) THEN 1 ELSE sz_[j_] * ProdFrom(sz_, j_ + 1)
TotalOf(sz_) == ProdFrom(sz_, 1)
\* the algorithm: mixed-radix digits of the running number, last domain fastest (0-based node indices)
ItemOf(sz_, q_) == [j_ \in 1..Len(sz_) |-> (q_ \div ProdFrom(sz_, j_ + 1)) % sz_[j_]]
RECURSIVE WProd(_, _, _)
WProd(ww_, it_, j_) == IF j_ > Len(it_) THEN 1 ELSE ww_[j_][it_[j_] + 1] * WProd(ww_, it_, j_ + 1)
WeightOf(ww_, it_) == WProd(ww_, it_, 1)

\* ---- declarative content -----------------------------------------------------------------
\* all index tuples, and their lexicographic order
RECURSIVE Tuples(_, _)
Tuples(sz_, j_) == IF j_ > Len(sz_) THEN {<<>>}
                   ELSE {<<h_>> \o t_ : h_ \in 0..sz_[j_] - 1, t_ \in Tuples(sz_, j_ + 1)}
RECURSIVE LexLt(_, _, _)
LexLt(x_, y_, j_) == IF j_ > Len(x_) THEN FALSE
                     ELSE x_[j_] < y_[j_] \/ (x_[j_] = y_[j_] /\ LexLt(x_, y_, j_ + 1))
\* number of tuples before it_ in lexicographic order = its position in the enumeration
RankOf(sz_, it_) == Cardinality({t_ \in Tuples(sz_, 1) : LexLt(t_, it_, 1)})
RECURSIVE SumSeq(_, _)
SumSeq(q_, j_) == IF j_ > Len(q_) THEN 0 ELSE q_[j_] + SumSeq(q_, j_ + 1)
RECURSIVE ProdOfSums(_, _)
ProdOfSums(ww_, j_) == IF j_ > Len(ww_) THEN 1 ELSE SumSeq(ww_[j_], 1) * ProdOfSums(ww_, j_ + 1)
RECURSIVE SumOverSet(_, _)
SumOverSet(ww_, ts_) == IF ts_ = {} THEN 0
                        ELSE LET t_ == CHOOSE x_ \in ts_ : TRUE IN WeightOf(ww_, t_) + SumOverSet(ww_, ts_ \ {t_})

\* ---- the state machine -------------------------------------------------------------------
VARIABLES gr_cfg,      \* the grid: [sizes, wts] (never changes; a variable so that recorded traces bring their own)
          gr_gens,     \* sequence of handles [kind, pos, cnt, stopped]
          gr_shared,   \* kind -> position of the shared cursor (used only when ~Fresh)
          gr_obs       \* what the last call answered
grvars == <<gr_cfg, gr_gens, gr_shared, gr_obs>>

CSizes == gr_cfg.sizes
CWts == gr_cfg.wts
Total == TotalOf(CSizes)
IntegralOfOne == ProdOfSums(CWts, 1)

\* static laws of the enumeration (algorithm = definition), checked for the grid of the instance
EnumerationIsLexicographic ==
    /\ Cardinality(Tuples(CSizes, 1)) = Total
    /\ \A q_ \in 0..Total - 1 : /\ ItemOf(CSizes, q_) \in Tuples(CSizes, 1)
                                /\ RankOf(CSizes, ItemOf(CSizes, q_)) = q_
IntegralIsSumOfWeights == SumOverSet(CWts, Tuples(CSizes, 1)) = IntegralOfOne

NoObs == [ev |-> "none", g |-> 0, out |-> "", idx |-> <<>>, val |-> 0]
PosOf(g_) == IF Fresh THEN gr_gens[g_].pos ELSE gr_shared[gr_gens[g_].kind]

GRInit == /\ gr_cfg = [sizes |-> Sizes, wts |-> Wts] /\ gr_gens = <<>> /\ gr_shared = [k_ \in Kinds |-> 0] /\ gr_obs = NoObs

\* grid.points / grid.weights : a new handle
NewGen(kind_) ==
    /\ Len(gr_gens) < MaxGens
    /\ gr_gens' = Append(gr_gens, [kind |-> kind_, pos |-> 0, cnt |-> 0, stopped |-> FALSE])
    /\ gr_obs' = [NoObs EXCEPT !.ev = "new", !.g = Len(gr_gens) + 1, !.out = kind_]
    /\ UNCHANGED <<gr_cfg, gr_shared>>

\* next(handle)
Step(g_) ==
    /\ g_ \in 1..Len(gr_gens)
    /\ UNCHANGED gr_cfg
    /\ LET p_ == PosOf(g_) kd_ == gr_gens[g_].kind IN
       IF p_ < Total
         THEN /\ gr_gens' = [gr_gens EXCEPT ![g_].pos = p_ + 1, ![g_].cnt = @ + 1]
              /\ gr_shared' = IF Fresh THEN gr_shared ELSE [gr_shared EXCEPT ![kd_] = p_ + 1]
              /\ gr_obs' = [ev |-> "step", g |-> g_, out |-> "item", idx |-> ItemOf(CSizes, p_),
                            val |-> IF kd_ = "w" THEN WeightOf(CWts, ItemOf(CSizes, p_)) ELSE 0]
         ELSE /\ gr_gens' = [gr_gens EXCEPT ![g_].stopped = TRUE]
              /\ gr_obs' = [NoObs EXCEPT !.ev = "step", !.g = g_, !.out = "stop"]
              /\ UNCHANGED gr_shared

\* grid.size
Size == /\ gr_obs' = [NoObs EXCEPT !.ev = "size", !.val = Total] /\ UNCHANGED <<gr_cfg, gr_gens, gr_shared>>

\* grid.integrate(lambda *x: 1) through either route: uses private handles only
Integrate(route_) ==
    /\ route_ \in {"vec", "nonvec"}
    /\ gr_obs' = [NoObs EXCEPT !.ev = "integrate", !.out = route_, !.val = IntegralOfOne]
    /\ UNCHANGED <<gr_cfg, gr_gens, gr_shared>>

GRNext == \/ \E kind_ \in Kinds : NewGen(kind_)
          \/ \E g_ \in 1..MaxGens : Step(g_)
          \/ Size
          \/ \E r_ \in {"vec", "nonvec"} : Integrate(r_)
GRSpec == GRInit /\ [][GRNext]_grvars

\* ---- properties --------------------------------------------------------------------------
NewGenFresh == gr_obs.ev = "new" => PosOf(gr_obs.g) = 0
\* exhausting a handle yields exactly Total items, never more
YieldsExactlySize == \A g_ \in 1..Len(gr_gens) :
    /\ gr_gens[g_].cnt <= Total
    /\ (Fresh /\ gr_gens[g_].stopped) => gr_gens[g_].cnt = Total
\* the q-th item of a handle is the q-th tuple in lexicographic order, with the product of its weights
ItemInOrder == (Fresh /\ gr_obs.ev = "step" /\ gr_obs.out = "item") =>
    /\ gr_obs.idx \in Tuples(CSizes, 1)
    /\ RankOf(CSizes, gr_obs.idx) = gr_gens[gr_obs.g].cnt - 1
    /\ gr_gens[gr_obs.g].kind = "w" => gr_obs.val = WeightOf(CWts, gr_obs.idx)
SizeIsTotal == gr_obs.ev = "size" => gr_obs.val = Cardinality(Tuples(CSizes, 1))
StaticLaws == gr_obs.ev = "none" => (EnumerationIsLexicographic /\ IntegralIsSumOfWeights)   \* once, in the initial state
\* a step moves its own handle only; every other call moves none (action property)
StepIndependent ==
    [][\A g_ \in 1..Len(gr_gens) :
          (gr_obs'.ev # "step" \/ gr_obs'.g # g_) =>
              (IF Fresh THEN gr_gens'[g_].pos ELSE gr_shared'[gr_gens'[g_].kind]) = PosOf(g_)]_grvars
\* non-vacuity witnesses (negated in the cfg of the witness run: TLC must reach them)
WitnessExhausted == ~(\E g_ \in 1..Len(gr_gens) : gr_gens[g_].stopped /\ \E h_ \in 1..Len(gr_gens) :
                          h_ # g_ /\ gr_gens[h_].kind = gr_gens[g_].kind /\ gr_gens[h_].pos \in 1..Total - 1)
=============================================================================
