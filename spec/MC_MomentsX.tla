------------------------------ MODULE MC_MomentsX ------------------------------
(***************************************************************************)
(* C14, second model (definitions: MomentsX.tla).  TLC                     *)
(*   - emits (Emit = TRUE) the extended quadrature cases with their        *)
(*     argument forms, the basis trees (Cartesian monomials included) up   *)
(*     to the larger orders, the sessions with the per-step terms computed *)
(*     from the state of the session machine, the order-listing calls and  *)
(*     the extended dipole cases;                                          *)
(*   - checks the laws: scaling law of the Cartesian moments, the stacked  *)
(*     listing of order L is a prefix of that of order L + 1, the session  *)
(*     machine's state is the fold of its steps, the dipole tree is the    *)
(*     first-moment difference for every extended dipole case;             *)
(*   - judges what the harness recorded from the implementation: exact     *)
(*     Cartesian moments of the extended cases, every listing, and every   *)
(*     step of every session (rows, exact Cartesian moments computed from  *)
(*     the machine's current grid state, and the frame condition: no       *)
(*     argument object was modified).                                      *)
(***************************************************************************)
EXTENDS MomentsX, Json, Obs_momentsx      \* XObs, SessObs, ListObs (generated; <<>> when emitting)

CONSTANTS Seed, NX, CartLX, BigL, PureLX, NSess, SessLen, NDipX, MaxOrderX, Emit

Force(f_) == IF f_ = f_ THEN f_ ELSE f_
XCases == Force([k_ \in 1..NX |-> XCaseOf(Seed, k_, CartLX, BigL, PureLX)])
SessObj == Force([k_ \in 1..NSess |-> SessObjects(Seed, k_)])
SessSteps == Force([k_ \in 1..NSess |-> [j_ \in 1..SessLen |-> SessStepOf(Seed, k_, j_, SessObj[k_].dim)]])
DipX == Force([k_ \in 1..NDipX |-> DipoleCaseXOf(Seed, k_)])

ListAll == [x_ \in 1..(5 * 4 * 3 * (MaxOrderX + 1)) |->
               LET i == x_ - 1 IN [form |-> ListForms[1 + (i % 5)], type |-> SessTypes[1 + ((i \div 5) % 4)],
                                   dim |-> 1 + ((i \div 20) % 3), order |-> i \div 60]]
ListWanted(c_) == /\ c_.dim \in ListDims(c_.form, c_.type)
                  /\ ~(c_.type = "pure-radial" /\ c_.order = 0 /\ ~ListDirect(c_.form))      \* documented: n must be positive
ListCalls == Force(SelectSeq(ListAll, ListWanted))

TreeRowsX(type_, ll_, dim_) == [x_ \in 1..Len(AllOrders(type_, ll_, dim_)) |-> BasisTreeX(type_, AllOrders(type_, ll_, dim_)[x_], dim_)]
TermsAll(pts_, wts_, fvals_, cens_) == [c_ \in 1..Len(cens_) |-> MomentTerms(pts_, wts_, fvals_, cens_[c_])]
SessTermsAt(k_, j_) ==
    LET st == SessSteps[k_][j_]
        obj == SessObj[k_]
    IN IF st.op = "moments"
       THEN [nrows |-> RowsCount(st.type, st.order, obj.dim),
             terms |-> TermsAll(SessStateAfter(Seed, k_, j_, obj)[st.g], SessWeights(obj, st.g), obj.fvecs[st.f], obj.csets[st.c])]
       ELSE [nrows |-> 0, terms |-> <<>>]
ASSUME Emit => JsonSerialize("cases_momentsx.json",
    [xcases |-> [k_ \in 1..NX |-> [case |-> XCases[k_], nrows |-> XRowCounts(XCases[k_]),
                                   terms |-> TermsAll(XCases[k_].pts, XCases[k_].wts, XCases[k_].fvals, XCases[k_].centres)]],
     cart |-> [dim_ \in 1..3 |-> TreeRowsX("cartesian", BigL, dim_)],
     radial |-> [dim_ \in 1..3 |-> TreeRowsX("radial", BigL, dim_)],
     pure |-> TreeRowsX("pure", PureLX, 3),
     pure_radial |-> TreeRowsX("pure-radial", PureLX, 3),
     rows |-> [cartesian |-> [dim_ \in 1..3 |-> AllOrders("cartesian", BigL, dim_)],
               radial |-> [dim_ \in 1..3 |-> AllOrders("radial", BigL, dim_)],
               pure |-> AllOrders("pure", PureLX, 3), pure_radial |-> AllOrders("pure-radial", PureLX, 3)],
     sessions |-> [k_ \in 1..NSess |-> [objects |-> SessObj[k_],
                                        steps |-> [j_ \in 1..SessLen |-> [step |-> SessSteps[k_][j_], at |-> SessTermsAt(k_, j_),
                                                                           after |-> SessStateAfter(Seed, k_, j_, SessObj[k_])]]]],
     lists |-> ListCalls,
     dipoles |-> [k_ \in 1..NDipX |-> [case |-> DipX[k_],
                                       trees |-> [r_ \in 1..3 |-> DipoleTree(DipX[k_].mol, DipX[k_].pts, DipX[k_].wts, DipX[k_].rho, r_)]]]])

(***************************************************************************)
(* State machine: a star of one-step excursions (case / listing / dipole / *)
(* order) and the session machine, which walks through the steps of one    *)
(* session and carries the grids' current points.                          *)
(***************************************************************************)
VARIABLES mpc, ma, mb, sgrid
vars == <<mpc, ma, mb, sgrid>>
Init == mpc = "idle" /\ ma = 0 /\ mb = 0 /\ sgrid = <<>>
PickX == /\ mpc = "idle" /\ ~Emit /\ \E k_ \in 1..NX : ma' = k_
         /\ mpc' = "x" /\ UNCHANGED <<mb, sgrid>>
PickList == /\ mpc = "idle" /\ ~Emit /\ \E x_ \in 1..Len(ListObs) : ma' = x_
            /\ mpc' = "list" /\ UNCHANGED <<mb, sgrid>>
PickDip == /\ mpc = "idle" /\ ~Emit /\ \E k_ \in 1..NDipX : ma' = k_
           /\ mpc' = "dipx" /\ UNCHANGED <<mb, sgrid>>
PickOrderX == /\ mpc = "idle" /\ ~Emit /\ \E n_ \in 0..MaxOrderX - 1 : ma' = n_
              /\ mpc' = "orderx" /\ UNCHANGED <<mb, sgrid>>
StartSession == /\ mpc = "idle" /\ ~Emit /\ \E k_ \in 1..NSess : (ma' = k_ /\ sgrid' = SessInit(SessObj[k_]))
                /\ mpc' = "session" /\ mb' = 0
SessionStep == /\ mpc = "session" /\ mb < SessLen
               /\ mb' = mb + 1 /\ sgrid' = SessApply(sgrid, SessSteps[ma][mb + 1])
               /\ UNCHANGED <<mpc, ma>>
Next == PickX \/ PickList \/ PickDip \/ PickOrderX \/ StartSession \/ SessionStep
Spec == Init /\ [][Next]_vars

(***************************************************************************)
(* Laws.                                                                   *)
(***************************************************************************)
XC == XCases[ma]
Two == <<2, 1>>
Half == <<1, 2>>
XScaleLaw ==
    mpc = "x" => \A t_ \in Range(AllOrders("cartesian", Min2(XC.lcart, 3), XC.dim)) : \A c_ \in 1..Len(XC.centres) :
                    /\ CartScaleLaw(t_, XC.pts, XC.wts, XC.fvals, XC.centres[c_], Two)
                    /\ CartScaleLaw(t_, XC.pts, XC.wts, XC.fvals, XC.centres[c_], Half)
XCaseWellFormed ==
    mpc = "x" => /\ XC.lcart <= XC.lbig /\ XC.lbig <= BigL /\ XC.lpure <= PureLX /\ XC.lpr >= 1 /\ XC.lpr <= PureLX
                 /\ Len(XC.wts) = Len(XC.pts) /\ Len(XC.fvals) = Len(XC.pts)
                 /\ XC.gform = "flat" => XC.dim = 1
                 /\ XC.gform = "int" => \A x_ \in 1..Len(XC.pts) : \A r_ \in 1..XC.dim : QIsInt(XC.pts[x_][r_])
                 /\ XC.cform = "i8" => \A c_ \in 1..Len(XC.centres) : \A r_ \in 1..XC.dim : QIsInt(XC.centres[c_][r_])
                 /\ XC.fform \in {"i8", "i4", "bool", "u1"} => \A x_ \in 1..Len(XC.fvals) : QIsInt(XC.fvals[x_])
                 /\ XC.fform \in {"bool", "u1"} => \A x_ \in 1..Len(XC.fvals) : XC.fvals[x_][1] >= 0
                 /\ XC.fform = "bool" => \A x_ \in 1..Len(XC.fvals) : XC.fvals[x_][1] <= 1
                 /\ ~(XC.gform = "f4" /\ XC.cform = "f4")
                 /\ (XC.gform = "int" \/ XC.cform = "i8") => XC.shift = 0
\* the stacked listing of maximal order L is a prefix of the listing of maximal order L + 1 (the harness cuts the
\* emitted tree lists to the row count of the case)
PrefixLaw ==
    mpc = "orderx" => \A td_ \in {<<"cartesian", 1>>, <<"cartesian", 2>>, <<"cartesian", 3>>, <<"radial", 3>>, <<"pure", 3>>, <<"pure-radial", 3>>} :
        (td_[1] = "pure-radial" /\ ma = 0)
        \/ SubSeq(AllOrders(td_[1], ma + 1, td_[2]), 1, Len(AllOrders(td_[1], ma, td_[2]))) = AllOrders(td_[1], ma, td_[2])
DipoleXIsFirstMomentDifference == mpc = "dipx" => DipoleLaw(DipX[ma])
SessionStateIsFold == mpc = "session" => sgrid = SessStateAfter(Seed, ma, mb, SessObj[ma])

(***************************************************************************)
(* Judges.                                                                 *)
(***************************************************************************)
\* XObs[k] = [cart |-> <<row, ...>>, each row <<value per centre as <<n, d>> >>] for the call with maximal order lcart
\* (values already divided by the scaling factor 2^(shift * degree) of the row)
XO == XObs[ma]
JudgeX ==
    mpc = "x" /\ Len(XO.cart) > 0 =>
        LET rows == AllOrders("cartesian", XC.lcart, XC.dim)
        IN /\ Len(XO.cart) = Len(rows) \/ PrintT(<<"MISMATCH", "x-rows", ma, Len(rows), Len(XO.cart)>>)
           /\ \A x_ \in 1..Min2(Len(rows), Len(XO.cart)) : \A c_ \in 1..Len(XC.centres) :
                 LET want == CartMoment(rows[x_], XC.pts, XC.wts, XC.fvals, XC.centres[c_])
                 IN XO.cart[x_][c_] = want \/ PrintT(<<"MISMATCH", "x-cart", ma, <<rows[x_], c_>>, want, XO.cart[x_][c_]>>)
\* ListObs[x] = [rows] for ListCalls[x]
JudgeList ==
    mpc = "list" =>
        LET c == ListCalls[ma]
            want == ListExpected(c.form, c.type, c.order, c.dim)
        IN ListObs[ma].rows = want \/ PrintT(<<"MISMATCH", "list", ma, want, ListObs[ma].rows>>)
\* SessObs[k][j] = [rows (<<>> when the call did not return them), cart (<<>> unless Cartesian), touched (names of the
\* argument objects whose contents differ from what the session's state says), ran]
JudgeSession ==
    mpc = "session" /\ mb >= 1 /\ Len(SessObs) >= ma =>
        LET st == SessSteps[ma][mb]
            ob == SessObs[ma][mb]
            obj == SessObj[ma]
        IN /\ Len(ob.touched) = 0 \/ PrintT(<<"MISMATCH", "sess-touched", <<ma, mb>>, <<>>, ob.touched>>)
           /\ (st.op = "orders" /\ ob.ran) =>
                 (ob.rows = OrdersLoop(st.type, st.order, st.dim)
                  \/ PrintT(<<"MISMATCH", "sess-orders", <<ma, mb>>, OrdersLoop(st.type, st.order, st.dim), ob.rows>>))
           /\ (st.op = "moments" /\ ob.ran) =>
                 LET rows == AllOrders(st.type, st.order, obj.dim)
                 IN /\ st.ret => (ob.rows = rows \/ PrintT(<<"MISMATCH", "sess-rows", <<ma, mb>>, rows, ob.rows>>))
                    /\ st.type = "cartesian" =>
                          /\ Len(ob.cart) = Len(rows) \/ PrintT(<<"MISMATCH", "sess-cart-rows", <<ma, mb>>, Len(rows), Len(ob.cart)>>)
                          /\ \A x_ \in 1..Min2(Len(rows), Len(ob.cart)) : \A c_ \in 1..Len(obj.csets[st.c]) :
                                LET want == CartMoment(rows[x_], sgrid[st.g], SessWeights(obj, st.g), obj.fvecs[st.f], obj.csets[st.c][c_])
                                IN ob.cart[x_][c_] = want
                                   \/ PrintT(<<"MISMATCH", "sess-cart", <<ma, mb>>, <<rows[x_], c_>>, want, ob.cart[x_][c_]>>)
=============================================================================
