SPECIFICATION JSpec
INVARIANT InModel
INVARIANT RaisesIffRejects
INVARIANT ClassAgrees
INVARIANT AtomicFailure
INVARIANT PureWhenAccepted
INVARIANT CacheAgrees
INVARIANT Complete
INVARIANT VerdictWellFormed
INVARIANT DocumentedValidIsAccepted
