\* C03, quick tier: RTransform.tla (exact identities on the lattice) + RTransformAudit.tla (inverse
\* wrapper, audit lattice, argument forms / constructor variants, b-protocol state machine)
SPECIFICATION SpecA
CONSTANT Tier = "quick"
CONSTANT EmitFile = "rtransform_trees.json"
CONSTANT AuditFile = "rtransform_audit.json"
INVARIANT RoundTrip
INVARIANT InverseDeriv1
INVARIANT InverseDeriv2
INVARIANT InverseDeriv3
INVARIANT ForwardFromInverse
INVARIANT DirectionDecided
INVARIANT DerivSign
INVARIANT Monotone
INVARIANT Interior
INVARIANT EndPoints
INVARIANT UseInsideDomain
INVARIANT EmitValues
INVARIANT EmitEnds
INVARIANT InvEndPoints
INVARIANT EmitInvEnds
INVARIANT AuditIdentities
INVARIANT AuditInterior
INVARIANT AuditEnds
INVARIANT EmitAuditValues
INVARIANT EmitAuditEnds
INVARIANT BFromFirstCall
INVARIANT BAdmissible
INVARIANT BScalePoint
INVARIANT EmitBTrace
PROPERTY BFrozen
