SPECIFICATION Spec
INVARIANT AlgoEqualsDefinition
INVARIANT RejectsExactlyOutOfRange
INVARIANT NotBelowRequest
INVARIANT Minimal
INVARIANT MatchingPair
INVARIANT FileExists
INVARIANT BisectInvariant
INVARIANT ObsConforms
