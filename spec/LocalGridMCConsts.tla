-------------------------- MODULE LocalGridMCConsts --------------------------
\* small constants of the exhaustive C10 instances (2-D integer points, 4 points per grid)
EXTENDS Integers, Sequences, LocalGridBase
P1 == << <<0, 0>>, <<1, 0>>, <<0, 2>>, <<2, 2>> >>
P2 == << <<2, 2>>, <<0, 2>>, <<1, 0>>, <<0, 0>> >>
P3 == << <<0, 0>>, <<0, 0>>, <<1, 1>>, <<3, 3>> >>      \* duplicate point
P4 == << <<6, 5>>, <<5, 7>>, <<7, 7>>, <<5, 5>> >>      \* moved far outside the bounding box of P1..P3
W1 == <<1, 2, 3, 4>>
W2 == <<5, 5, 6, 7>>
MC_PSeq == <<P1, P2, P3, P4>>
MC_WSeq == <<W1, W2>>
MC_CSeq == << <<0, 0>>, <<1, 1>>, <<7, 7>> >>
MC_RSeq == <<0, 1, 3, 9, 33, Inf, 2000000000>>   \* last: finite, beyond every distance of the instance
S(kind_, i_, a_, b_, st_, arr_) == [kind |-> kind_, i |-> i_, a |-> a_, b |-> b_, st |-> st_, arr |-> arr_]
MC_SSeq == << S("int", 0, 0, 0, 1, <<>>), S("int", -1, 0, 0, 1, <<>>), S("npint", 2, 0, 0, 1, <<>>),
              S("slice", 0, 1, 3, NoneV, <<>>), S("slice", 0, NoneV, NoneV, 2, <<>>),
              S("slice", 0, NoneV, NoneV, -1, <<>>), S("slice", 0, -3, 10, 1, <<>>),
              S("slice", 0, -2, NoneV, NoneV, <<>>),
              S("array", 0, 0, 0, 1, <<2, 0, 2>>), S("array", 0, 0, 0, 1, <<-1, 1>>),
              S("mask", 0, 0, 0, 1, <<1, 0, 0, 1>>), S("mask", 0, 0, 0, 1, <<0, 1, 1, 0>>) >>
ToSet(q_) == {q_[k_] : k_ \in 1..Len(q_)}
MC_PAlts == ToSet(MC_PSeq)
MC_WAlts == ToSet(MC_WSeq)
MC_Centers == ToSet(MC_CSeq)
MC_Radii == ToSet(MC_RSeq)
MC_Sels == ToSet(MC_SSeq)
GenLen == 3
=============================================================================
