-------------------------------- MODULE OneD --------------------------------
(***************************************************************************)
(* Property C01: catalogue of the one-dimensional quadrature rules of      *)
(* grid.onedgrid with their MATHEMATICAL definitions.                      *)
(*                                                                         *)
(* What is written here                                                    *)
(*  - catalogue: admissible n, parameter kind, declared domain, nominal    *)
(*    degree of exactness;                                                 *)
(*  - node / weight definitions                                            *)
(*      rational rules     exact rationals (RatNode, RatWeight)            *)
(*      Chebyshev-angle    node = cos(AngleFrac * pi); weights as finite   *)
(*        rules            trigonometric series with EXPLICIT summation    *)
(*                         index sets (Series records: lo, hi, coef, freq) *)
(*      substitution rules only the node map x(t); weight DERIVED as       *)
(*                         step * D(x)(t)                                  *)
(*      Trefethen maps     the map g; nodes g(x_i), weights D(g)(x_i)*w_i  *)
(*                         derived (strip map: end-point value of D(g) by  *)
(*                         l'Hopital, again through D)                     *)
(*      Gauss rules        no closed form: characterised by exactness      *)
(*  - orthogonal families by their rational three-term recurrences, norms  *)
(*    and moment functionals (used orthonormalised by the harness);        *)
(*  - the Chebyshev-coefficient-domain evaluation of Q_n[T_m] for the      *)
(*    series rules, built from THE SAME Series records as the emitted      *)
(*    weight trees.                                                        *)
(*                                                                         *)
(* What TLC decides (invariants below): exactness of the rational rules in *)
(* integer arithmetic, Q_n[T_m] = 2/(1-m^2) | 0 for Clenshaw-Curtis,       *)
(* Fejer-1, Fejer-2 for all m < n (verifies the truncation indices),       *)
(* sine-exactness of the sine rectangle rule, Chebyshev-Lobatto exactness, *)
(* tightness of the last series term, well-formedness of the catalogue     *)
(* (count, exact ascending order, domain), orthogonality of the families   *)
(* against their moment functionals, properties of the sausage maps.       *)
(*                                                                         *)
(* Assumed textbook lemma (cross-checked numerically by the harness for    *)
(* every n of the tier): the discrete cosine sums DSum on the three node   *)
(* families.                                                               *)
(*                                                                         *)
(* Naming: operator parameters carry a trailing underscore or are not the  *)
(* name of any VARIABLE (see BUILDING.md, TLC pitfalls).                   *)
(***************************************************************************)
EXTENDS Expr, FiniteSets, TLC, Json

CONSTANTS
    NSeq,        \* sequence of sizes n of the tier (ascending)
    AlphaSeq,    \* sequence of rationals: Laguerre alpha
    StepSeq,     \* sequence of rationals: delta / h of the substitution rules
    DSeq,        \* sequence of integers: degree d of the sausage map
    RhoSeq,      \* sequence of rationals: rho of the strip map
    BaseSeq,     \* sequence of rule names used as base of the *General classes
    MaxExactN,   \* bound of the exact (integer) exactness proofs of the rational rules
    MaxChebN,    \* bound of the coefficient-domain identities
    FamilyDeg,   \* orthogonality of the families is checked for degrees <= FamilyDeg
    OutFile      \* JSON file the catalogue / cases / trees are written to

Force(f_) == IF f_ = f_ THEN f_ ELSE f_
Range(s_) == {s_[i_] : i_ \in DOMAIN s_}
Lcm2(a_, b_) == (a_ \div Gcd(a_, b_)) * b_
RECURSIVE IPow(_, _)
IPow(a_, k_) == IF k_ = 0 THEN 1 ELSE a_ * IPow(a_, k_ - 1)
QHalf == <<1, 2>>
NoPar == <<0, 1>>

(***************************************************************************)
(* 1. Catalogue                                                            *)
(***************************************************************************)
RationalRules == {"Trapezoidal", "MidPoint", "Simpson", "UniformInteger"}
AngleRules    == {"GaussChebyshev", "GaussChebyshevType2", "GaussChebyshevLobatto",
                  "ClenshawCurtis", "FejerFirst", "FejerSecond", "RectangleRuleSineEndPoints"}
SeriesRules   == {"ClenshawCurtis", "FejerFirst", "FejerSecond", "RectangleRuleSineEndPoints"}
SubstRules    == {"TanhSinh", "ExpSinh", "LogExpSinh", "ExpExp", "SingleTanh", "SingleExp",
                  "SingleArcSinhExp"}
GaussRules    == {"GaussLegendre", "GaussLaguerre"}
SausageRules  == {"TrefethenCC", "TrefethenGC2", "TrefethenGeneral"}
StripRules    == {"TrefethenStripCC", "TrefethenStripGC2", "TrefethenStripGeneral"}
MappedRules   == SausageRules \cup StripRules
Rules == RationalRules \cup AngleRules \cup SubstRules \cup GaussRules \cup MappedRules

Kind(r_) == CASE r_ \in RationalRules -> "rational"
              [] r_ \in AngleRules -> "angle"
              [] r_ \in SubstRules -> "subst"
              [] r_ \in GaussRules -> "gauss"
              [] r_ \in MappedRules -> "mapped"

\* which extra parameter a rule takes
ParKind(r_) == CASE r_ = "GaussLaguerre" -> "alpha"
                 [] r_ \in SubstRules -> "step"
                 [] r_ \in SausageRules -> "d"
                 [] r_ \in StripRules -> "rho"
                 [] OTHER -> "none"
TakesBase(r_) == r_ \in {"TrefethenGeneral", "TrefethenStripGeneral"}
FixedBase(r_) == CASE r_ \in {"TrefethenCC", "TrefethenStripCC"} -> "ClenshawCurtis"
                   [] r_ \in {"TrefethenGC2", "TrefethenStripGC2"} -> "GaussChebyshevType2"
                   [] OTHER -> ""

\* admissible sizes
MinN(r_) == CASE r_ \in {"Simpson", "TanhSinh"} -> 3
              [] r_ \in {"GaussChebyshevType2", "TrefethenGC2", "TrefethenStripGC2"} -> 1
              [] r_ \in SubstRules -> 1
              [] OTHER -> 2
OddOnly(r_) == r_ = "Simpson" \/ r_ \in SubstRules
\* sizes beyond which the statement makes no claim (documented accuracy range of the root
\* finders; exp(x_n) of the Laguerre rule must fit a double)
MaxN(r_) == CASE r_ = "GaussLegendre" -> 100 [] r_ = "GaussLaguerre" -> 64 [] OTHER -> 100000
\* substitution rules: largest |t| = step*(n-1)/2 for which node and weight are
\* representable and distinct in IEEE doubles (the statement is "up to rounding")
TMax(r_) == CASE r_ = "TanhSinh" -> <<3, 1>> [] r_ = "ExpSinh" -> <<5, 1>>
              [] r_ = "LogExpSinh" -> <<3, 1>> [] r_ = "ExpExp" -> <<6, 1>>
              [] r_ = "SingleTanh" -> <<15, 1>> [] r_ = "SingleExp" -> <<300, 1>>
              [] r_ = "SingleArcSinhExp" -> <<15, 1>> [] OTHER -> <<0, 1>>

AdmissibleN(r_, n_) == n_ >= MinN(r_) /\ n_ <= MaxN(r_) /\ (OddOnly(r_) => n_ % 2 = 1)
AdmissiblePar(r_, n_, p_) ==
    CASE ParKind(r_) = "alpha" -> QLt(<<-1, 1>>, p_)
      [] ParKind(r_) = "step" -> QLt(QZero, p_) /\ QLe(QMul(p_, <<n_ - 1, 2>>), TMax(r_))
      [] ParKind(r_) = "d" -> p_ \in {<<1, 1>>, <<5, 1>>, <<9, 1>>}
      [] ParKind(r_) = "rho" -> QLt(QOne, p_)
      [] OTHER -> p_ = NoPar

\* declared domain: [lo, hi] or [lo, infinity)
Domain(r_) == IF r_ \in {"GaussLaguerre", "UniformInteger", "ExpSinh", "LogExpSinh", "ExpExp",
                        "SingleExp", "SingleArcSinhExp"}
              THEN [lo |-> <<0, 1>>, hi |-> <<0, 1>>, inf |-> TRUE]
              ELSE [lo |-> <<-1, 1>>, hi |-> <<1, 1>>, inf |-> FALSE]

\* exactness claimed by the statement: test family and highest degree (-1: no claim)
Family(r_) == CASE r_ \in {"GaussLegendre", "Simpson", "Trapezoidal", "MidPoint"} -> "legendre"
                [] r_ \in {"ClenshawCurtis", "FejerFirst", "FejerSecond"} -> "chebT1"
                [] r_ = "GaussChebyshev" -> "chebT"
                [] r_ = "GaussChebyshevType2" -> "chebU"
                [] r_ = "GaussLaguerre" -> "laguerre"
                [] r_ = "RectangleRuleSineEndPoints" -> "sine"
                [] OTHER -> "none"
Degree(r_, n_) == CASE r_ \in {"GaussLegendre", "GaussChebyshev", "GaussChebyshevType2",
                              "GaussLaguerre"} -> 2 * n_ - 1
                    [] r_ \in {"ClenshawCurtis", "FejerFirst", "FejerSecond"} -> n_ - 1
                    [] r_ = "Simpson" -> 3
                    [] r_ \in {"Trapezoidal", "MidPoint"} -> 1
                    [] r_ = "RectangleRuleSineEndPoints" -> n_   \* sin(m pi x), m = 1..n
                    [] OTHER -> -1

(***************************************************************************)
(* 2. Rational rules: exact nodes and weights, textbook index i = 1..n     *)
(***************************************************************************)
RatNode(r_, n_, i_) ==
    CASE r_ \in {"Trapezoidal", "Simpson"} -> Q(2 * i_ - n_ - 1, n_ - 1)   \* -1 + 2(i-1)/(n-1)
      [] r_ = "MidPoint" -> Q(2 * i_ - 1 - n_, n_)                        \* -1 + (2i-1)/n
      [] r_ = "UniformInteger" -> QI(i_ - 1)
RatWeight(r_, n_, i_) ==
    CASE r_ = "Trapezoidal" -> IF i_ \in {1, n_} THEN Q(1, n_ - 1) ELSE Q(2, n_ - 1)
      [] r_ = "MidPoint" -> Q(2, n_)
      [] r_ = "Simpson" ->   \* composite Simpson, panel width 2h, h = 2/(n-1): (h/3)(1,4,2,...,4,1)
            LET c == IF i_ \in {1, n_} THEN 1 ELSE IF i_ % 2 = 0 THEN 4 ELSE 2
            IN Q(2 * c, 3 * (n_ - 1))
      [] r_ = "UniformInteger" -> QOne
RatNodes(r_, n_) == [i_ \in 1..n_ |-> RatNode(r_, n_, i_)]
RatWeights(r_, n_) == [i_ \in 1..n_ |-> RatWeight(r_, n_, i_)]

\* integer form: x_i = X_i / Dx, w_i = W_i / Dw
RECURSIVE LcmDen(_, _)
LcmDen(s_, i_) == IF i_ = 0 THEN 1 ELSE Lcm2(s_[i_][2], LcmDen(s_, i_ - 1))
RECURSIVE IntMoment(_, _, _, _, _, _)
IntMoment(xs_, dx_, ws_, dw_, k_, i_) ==   \* sum_{j<=i} W_j X_j^k
    IF i_ = 0 THEN 0
    ELSE (ws_[i_][1] * (dw_ \div ws_[i_][2])) * IPow(xs_[i_][1] * (dx_ \div xs_[i_][2]), k_)
         + IntMoment(xs_, dx_, ws_, dw_, k_, i_ - 1)
\* sum_i w_i x_i^k = int_{-1}^{1} x^k dx, decided in integers
MomentExact(r_, n_, k_) ==
    LET xs == RatNodes(r_, n_) ws == RatWeights(r_, n_)
        dx == LcmDen(xs, n_) dw == LcmDen(ws, n_)
        lhs == IntMoment(xs, dx, ws, dw, k_, n_) * (k_ + 1)
    IN IF k_ % 2 = 1 THEN lhs = 0 ELSE lhs = 2 * dw * IPow(dx, k_)

(***************************************************************************)
(* 3. Chebyshev-angle rules.  theta_i = AngleFrac * pi, textbook index.    *)
(***************************************************************************)
\* node family of a rule
Grid(r_) == CASE r_ \in {"GaussChebyshev", "FejerFirst"} -> "f1"        \* (2i-1)pi/(2n), i=1..n
              [] r_ \in {"GaussChebyshevType2", "FejerSecond", "RectangleRuleSineEndPoints"} -> "f2"  \* i pi/(n+1), i=1..n
              [] r_ \in {"GaussChebyshevLobatto", "ClenshawCurtis"} -> "cc"   \* (i-1)pi/(n-1), i=1..n
\* tree (rational fragment, variable "i") of theta_i / pi
AngleFracTree(g_, n_) ==
    CASE g_ = "f1" -> Div(Sub(Mul(CI(2), V("i")), CI(1)), CI(2 * n_))
      [] g_ = "f2" -> Div(V("i"), CI(n_ + 1))
      [] g_ = "cc" -> Div(Sub(V("i"), CI(1)), CI(n_ - 1))
ThetaTree(g_, n_) == Mul(AngleFracTree(g_, n_), Pi)
IEnv(i_) == [nm_ \in {"i"} |-> QI(i_)]
JEnv(j_) == [nm_ \in {"j"} |-> QI(j_)]
KEnv(k_) == [nm_ \in {"k"} |-> QI(k_)]
AngleFrac(g_, n_, i_) == EvalQ(AngleFracTree(g_, n_), IEnv(i_))
\* the textbook formulas index the nodes from +1 downwards (theta increasing); the nodes in
\* ASCENDING order are obtained by the substitution i := n+1-i
Asc(e_, n_) == Subst(e_, "i", Sub(CI(n_ + 1), V("i")))
\* the sine rectangle rule is defined on [0,1] with x_i = i/(n+1) = theta_i/pi, ascending in
\* i, and mapped to [-1,1] by q = 2x - 1 (weights doubled)
AngleNodeTree(r_, n_) ==
    IF r_ = "RectangleRuleSineEndPoints"
    THEN Sub(Mul(CI(2), AngleFracTree("f2", n_)), CI(1))
    ELSE Asc(Cos(ThetaTree(Grid(r_), n_)), n_)

\* --- finite trigonometric series -----------------------------------------
\* Series: sum_{j=lo}^{hi} coef(j) * trig(freq(j) * theta); coef and freq are trees of the
\* rational fragment in the variable "j".
Ser(lo_, hi_, coef_, freq_) == [lo |-> lo_, hi |-> hi_, coef |-> coef_, freq |-> freq_]
FourJSqM1 == Sub(Mul(CI(4), Sq(V("j"))), CI(1))        \* 4j^2 - 1
TwoJ == Mul(CI(2), V("j"))
TwoJM1 == Sub(Mul(CI(2), V("j")), CI(1))

\* Weight definitions.  kind "cos":    w = pref * ( c0 + sum_series coef cos(freq theta) )
\*                      kind "sinsin": w = pref * sin(theta) * sum_series coef sin(freq theta)
\*                      kind "sin":    w = pref * (1/pi) * sum_series coef sin(freq theta)
\* endHalf: the weights of the two end nodes carry an additional factor 1/2.
\*
\* Clenshaw-Curtis, N = n-1 panels (interpolatory rule on the Chebyshev extrema):
\*    w_i = (c_i/N) (1 - sum_{j=1}^{floor(N/2)} b_j cos(2 j theta_i)/(4j^2-1)),
\*    b_j = 1 if 2j = N else 2;  c_i = 1 at the two ends, 2 otherwise
\* Fejer 1 (interpolatory on the Chebyshev zeros):
\*    w_i = (2/n) (1 - 2 sum_{j=1}^{floor(n/2)} cos(2 j theta_i)/(4j^2-1))
\* Fejer 2 (interpolatory on the interior Chebyshev extrema, theta_i = i pi/(n+1)):
\*    w_i = (4 sin theta_i/(n+1)) sum_{j=1}^{floor((n+1)/2)} sin((2j-1) theta_i)/(2j-1)
\* Sine rectangle rule (interpolatory in {sin(m pi x), m=1..n} on x_i = i/(n+1), mapped to
\* [-1,1]): w_i = 2 (2/(n+1)) sum_{m=1}^{n} b_m sin(m pi x_i), b_m = int_0^1 sin(m pi x) dx
\*    = 2/(m pi) for odd m and 0 for even m, i.e. m = 2j-1, j = 1..ceil(n/2)
\* Truncation indices: the single place they are written.
CCFullHi(n_) == (n_ - 2) \div 2          \* all j >= 1 with 2j < N = n-1
CCHasHalfTerm(n_) == (n_ - 1) % 2 = 0    \* N even: the term j = N/2 enters with b_j = 1
F1Hi(n_) == n_ \div 2
F2Hi(n_) == (n_ + 1) \div 2
SineHi(n_) == (n_ + 1) \div 2

TrigDef(r_, n_) ==
    CASE r_ = "ClenshawCurtis" ->
            [kind |-> "cos", pref |-> Q(2, n_ - 1), c0 |-> QOne, endHalf |-> TRUE,
             series |-> <<Ser(1, CCFullHi(n_), Div(CI(-2), FourJSqM1), TwoJ)>> \o
                        (IF CCHasHalfTerm(n_)
                         THEN <<Ser((n_ - 1) \div 2, (n_ - 1) \div 2, Div(CI(-1), FourJSqM1), TwoJ)>>
                         ELSE <<>>)]
      [] r_ = "FejerFirst" ->
            [kind |-> "cos", pref |-> Q(2, n_), c0 |-> QOne, endHalf |-> FALSE,
             series |-> <<Ser(1, F1Hi(n_), Div(CI(-2), FourJSqM1), TwoJ)>>]
      [] r_ = "FejerSecond" ->
            [kind |-> "sinsin", pref |-> Q(4, n_ + 1), c0 |-> QZero, endHalf |-> FALSE,
             series |-> <<Ser(1, F2Hi(n_), Div(CI(1), TwoJM1), TwoJM1)>>]
      [] r_ = "RectangleRuleSineEndPoints" ->
            [kind |-> "sin", pref |-> Q(4, n_ + 1), c0 |-> QZero, endHalf |-> FALSE,
             series |-> <<Ser(1, SineHi(n_), Div(CI(2), TwoJM1), TwoJM1)>>]

\* the weight as an expression tree in the (textbook) node index "i"
RECURSIVE SeriesSum(_, _, _, _)
SeriesSum(ss_, th_, sinp_, q_) ==
    IF q_ = 0 THEN CI(0)
    ELSE LET s == ss_[q_]
             arg == Mul(s.freq, th_)
             term == SumE("j", s.lo, s.hi, Mul(s.coef, IF sinp_ THEN Sin(arg) ELSE Cos(arg)))
         IN IF s.hi < s.lo THEN SeriesSum(ss_, th_, sinp_, q_ - 1)
            ELSE Add(SeriesSum(ss_, th_, sinp_, q_ - 1), term)
TrigWeightTree(r_, n_) ==
    LET td == TrigDef(r_, n_)
        th == ThetaTree(Grid(r_), n_)
        ssum == SeriesSum(td.series, th, td.kind # "cos", Len(td.series))
    IN CASE td.kind = "cos" -> Mul(CQ(td.pref), Add(CQ(td.c0), ssum))
         [] td.kind = "sinsin" -> Mul(Mul(CQ(td.pref), Sin(th)), ssum)
         [] td.kind = "sin" -> Mul(Div(CQ(td.pref), Pi), ssum)

\* Gauss-Chebyshev rules, weight-divided form (the rule integrates g over [-1,1]):
\*   type 1:  (pi/n) sqrt(1-x_i^2);  type 2: (pi/(n+1)) sin^2(theta_i)/sqrt(1-x_i^2)
\*   Lobatto: (pi/(n-1)) sqrt(1-x_i^2), the two end weights halved
AngleWeightTree(r_, n_) ==
    LET th == ThetaTree(Grid(r_), n_)
        x == Cos(th)
    IN CASE r_ = "GaussChebyshev" -> Mul(Div(Pi, CI(n_)), Sqrt(Sub(CI(1), Sq(x))))
         [] r_ = "GaussChebyshevType2" ->
                Div(Mul(Div(Pi, CI(n_ + 1)), Sq(Sin(th))), Sqrt(Sub(CI(1), Sq(x))))
         [] r_ = "GaussChebyshevLobatto" -> Mul(Div(Pi, CI(n_ - 1)), Sqrt(Sub(CI(1), Sq(x))))
         [] r_ \in SeriesRules -> TrigWeightTree(r_, n_)
EndHalf(r_, n_) == IF r_ = "GaussChebyshevLobatto" THEN TRUE
                   ELSE IF r_ \in SeriesRules THEN TrigDef(r_, n_).endHalf ELSE FALSE
\* trees in the ASCENDING node index
AngleWeightAsc(r_, n_) == IF r_ = "RectangleRuleSineEndPoints" THEN AngleWeightTree(r_, n_)
                          ELSE Asc(AngleWeightTree(r_, n_), n_)

(***************************************************************************)
(* 4. Coefficient domain: the rule applied to T_m = cos(m theta), decided  *)
(*    exactly.  Assumed lemma (discrete cosine sums on the node families): *)
(*      f1: sum_{i=1}^{n} cos(a theta_i)   = n (-1)^(a/2n) if 2n | a, else 0  *)
(*      f2: sum_{i=1}^{n} cos(a theta_i)   = n if 2(n+1) | a, else -1 (a even) / 0 (a odd) *)
(*      cc: sum''_{i=1}^{n} cos(a theta_i) = n-1 if 2(n-1) | a, else 0 (end terms halved)  *)
(***************************************************************************)
DSum(g_, n_, aa_) ==
    LET a == Abs(aa_) IN
    CASE g_ = "f1" -> IF a % (2 * n_) = 0 THEN (IF (a \div (2 * n_)) % 2 = 0 THEN n_ ELSE -n_) ELSE 0
      [] g_ = "f2" -> IF a % (2 * (n_ + 1)) = 0 THEN n_ ELSE IF a % 2 = 0 THEN -1 ELSE 0
      [] g_ = "cc" -> IF a % (2 * (n_ - 1)) = 0 THEN n_ - 1 ELSE 0

Coef(s_, j_) == EvalQ(s_.coef, JEnv(j_))
Freq(s_, j_) == LET f == EvalQ(s_.freq, JEnv(j_)) IN f[1]     \* integer (checked by FreqIntegral)

\* integer bracket multiplying coef(j): 2*sum_i cos(f th)cos(m th)  resp.
\* 4*sum_i sin(th) sin(f th) cos(m th)  resp.  2*sum_i sin(f th) sin(m th)
Bracket(kind_, g_, n_, f_, m_) ==
    CASE kind_ = "cos" -> DSum(g_, n_, f_ + m_) + DSum(g_, n_, f_ - m_)
      [] kind_ = "sinsin" -> DSum(g_, n_, f_ - 1 + m_) + DSum(g_, n_, f_ - 1 - m_)
                             - DSum(g_, n_, f_ + 1 + m_) - DSum(g_, n_, f_ + 1 - m_)
      [] kind_ = "sin" -> DSum(g_, n_, f_ - m_) - DSum(g_, n_, f_ + m_)
BracketDen(kind_) == IF kind_ = "sinsin" THEN 4 ELSE 2

RECURSIVE SerApply(_, _, _, _, _, _, _)
SerApply(s_, kind_, g_, n_, m_, j_, drop_) ==   \* sum over j = lo..hi-drop
    IF j_ > s_.hi - drop_ THEN QZero
    ELSE LET b == Bracket(kind_, g_, n_, Freq(s_, j_), m_)
             t == IF b = 0 THEN QZero ELSE QMul(Coef(s_, j_), Q(b, BracketDen(kind_)))
         IN QAdd(t, SerApply(s_, kind_, g_, n_, m_, j_ + 1, drop_))
\* the quadrature sum of the test function number m (T_m, or sin(m theta) for kind "sin";
\* for kind "sin" the result is in units of 1/pi).  drop_ = 1 removes the last term of the
\* LAST series (used for the tightness lemmas and the as-shipped variants).
RuleOnTest(r_, n_, m_, drop_) ==
    LET td == TrigDef(r_, n_)
        g == Grid(r_)
        L == Len(td.series)
        RECURSIVE Tot(_)
        Tot(q_) == IF q_ = 0 THEN QZero
                   ELSE QAdd(Tot(q_ - 1),
                             SerApply(td.series[q_], td.kind, g, n_, m_, td.series[q_].lo,
                                      IF q_ = L THEN drop_ ELSE 0))
    IN QMul(td.pref, QAdd(QMul(td.c0, QI(DSum(g, n_, m_))), Tot(L)))

\* exact integrals: int_{-1}^{1} T_m dx ; int_{-1}^{1} sin(m pi (q+1)/2) dq in units of 1/pi
ChebInt(m_) == IF m_ % 2 = 1 THEN QZero ELSE Q(2, 1 - m_ * m_)
SineIntPi(m_) == IF m_ % 2 = 0 THEN QZero ELSE Q(4, m_)
ExpectedOnTest(r_, m_) == IF r_ = "RectangleRuleSineEndPoints" THEN SineIntPi(m_) ELSE ChebInt(m_)
TestRange(r_, n_) == IF r_ = "RectangleRuleSineEndPoints" THEN 1..n_ ELSE 0..(n_ - 1)

SeriesExact(r_, n_) == \A m_ \in TestRange(r_, n_) : RuleOnTest(r_, n_, m_, 0) = ExpectedOnTest(r_, m_)
\* without its last term the rule is no longer exact ...
LastTermNeeded(r_, n_) == \E m_ \in TestRange(r_, n_) : RuleOnTest(r_, n_, m_, 1) # ExpectedOnTest(r_, m_)
\* ... except where the last term vanishes identically on the nodes (Fejer 1, even n:
\* cos(n theta_i) = 0; this is why a test with n = 10 cannot see a dropped term)
LastTermVanishes(r_, n_) == r_ = "FejerFirst" /\ n_ % 2 = 0
\* Clenshaw-Curtis with n = 2 (the trapezoid on two points) has no series term at all
HasSeriesTerm(r_, n_) == LET ss == TrigDef(r_, n_).series IN ss[Len(ss)].lo <= ss[Len(ss)].hi
\* Chebyshev-Lobatto: underlying Gauss-Lobatto-Chebyshev rule (pi/(n-1)) sum'' is exact for
\* T_m / sqrt(1-x^2), m <= 2n-3: (pi/(n-1)) sum'' cos(m theta_i) = pi [m = 0]
LobattoExact(n_) == \A m_ \in 0..(2 * n_ - 3) : DSum("cc", n_, m_) = IF m_ = 0 THEN n_ - 1 ELSE 0
\* Gauss-Chebyshev 1 and 2 in the coefficient domain (nodes and weights are closed forms):
\*   (pi/n) sum_i cos(m theta_i) = pi [m=0],  m <= 2n-1
\*   (pi/(n+1)) sum_i sin(theta_i) sin((m+1) theta_i) = (pi/2) [m=0],  m <= 2n-1   (U_m sin = sin((m+1) theta))
GC1Exact(n_) == \A m_ \in 0..(2 * n_ - 1) : DSum("f1", n_, m_) = IF m_ = 0 THEN n_ ELSE 0
GC2Exact(n_) == \A m_ \in 0..(2 * n_ - 1) :
                    DSum("f2", n_, m_) - DSum("f2", n_, m_ + 2) = IF m_ = 0 THEN n_ + 1 ELSE 0

\* the coefficient and frequency trees are what the coefficient-domain evaluation uses
FreqIntegral(r_, n_) ==
    \A q_ \in 1..Len(TrigDef(r_, n_).series) :
        LET s == TrigDef(r_, n_).series[q_] IN
        \A j_ \in s.lo..s.hi : EvalQ(s.freq, JEnv(j_))[2] = 1 /\ EvalQ(s.freq, JEnv(j_))[1] >= 1

(***************************************************************************)
(* 5. Variable-substitution rules: ONLY the node map x(t) is written.      *)
(*    t_i = (i - (n+1)/2) * step, i = 1..n;  weight = step * dx/dt (t_i).   *)
(***************************************************************************)
VT == V("t")
HalfPi == Div(Pi, CI(2))
NodeMap(r_) ==
    CASE r_ = "TanhSinh" -> Tanh(Mul(HalfPi, Sinh(VT)))
      [] r_ = "ExpSinh" -> Exp(Mul(HalfPi, Sinh(VT)))
      [] r_ = "LogExpSinh" -> Log(Add(Exp(Mul(HalfPi, Sinh(VT))), CI(1)))
      [] r_ = "ExpExp" -> Mul(Exp(VT), Exp(Neg(Exp(Neg(VT)))))
      [] r_ = "SingleTanh" -> Tanh(VT)
      [] r_ = "SingleExp" -> Exp(VT)
      [] r_ = "SingleArcSinhExp" -> Asinh(Exp(VT))
SubstWeight(r_) == Mul(V("h"), D(NodeMap(r_), "t"))       \* change-of-variables law
\* t as a tree in the node index: t = (i - (n+1)/2) h
TOfI(n_) == Mul(Sub(V("i"), C(n_ + 1, 2)), V("h"))
TRat(n_, h_, i_) == QMul(Q(2 * i_ - n_ - 1, 2), h_)

(***************************************************************************)
(* 6. Trefethen maps.                                                      *)
(*    Sausage map of degree d: Taylor polynomial of arcsin of degree d,    *)
(*    normalised to g(1) = 1.  The Taylor coefficients are DEFINED by the  *)
(*    differential equation (1-x^2) y'' = x y', y(0)=0, y'(0)=1, i.e.      *)
(*    c_1 = 1, c_{m+2} = m^2 c_m / ((m+1)(m+2)).                           *)
(***************************************************************************)
RECURSIVE AsinCoef(_)
AsinCoef(m_) == IF m_ % 2 = 0 THEN QZero
                ELSE IF m_ = 1 THEN QOne
                ELSE QMul(AsinCoef(m_ - 2), Q((m_ - 2) * (m_ - 2), (m_ - 1) * m_))
RECURSIVE AsinNorm(_)
AsinNorm(d_) == IF d_ < 1 THEN QZero ELSE QAdd(AsinCoef(d_), AsinNorm(d_ - 2))
VS == V("s")
RECURSIVE SausagePoly(_, _)
SausagePoly(d_, m_) ==    \* sum of the terms of degree <= m
    IF m_ < 1 THEN CI(0)
    ELSE Add(SausagePoly(d_, m_ - 2), Mul(CQ(QDiv(AsinCoef(m_), AsinNorm(d_))), Pow(VS, m_)))
SausageMap(d_) == SausagePoly(d_, d_)

(* Strip map (Hale & Trefethen 2008, as used by the library; its functional form is taken   *)
(* as given, everything else is derived).  With u = asin(s), tau = pi/log(rho),             *)
(*    G(u) = log(1+exp(-tau(pi/2+u))) - log(1+exp(-tau(pi/2-u))) + (1/2 + 1/(exp(tau pi)+1)) tau u *)
(* and g(s) = G(asin s)/G(pi/2)  (normalisation g(1) = 1, g odd).                            *)
(* dg/ds = G'(u)/cos(u)/G(pi/2); at s = +-1 (u = +-pi/2) numerator and denominator vanish    *)
(* and the value is the limit  G''(u)/(-sin u)/G(pi/2)  (l'Hopital).                         *)
VU == V("u")
Tau(rho_) == Div(Pi, Log(CQ(rho_)))
StripG(rho_) ==
    LET tau == Tau(rho_) IN
    Add(Sub(Log(Add(CI(1), Exp(Neg(Mul(tau, Add(HalfPi, VU)))))),
            Log(Add(CI(1), Exp(Neg(Mul(tau, Sub(HalfPi, VU))))))),
        Mul(Mul(Add(C(1, 2), Div(CI(1), Add(Exp(Mul(tau, Pi)), CI(1)))), tau), VU))
StripNorm(rho_) == Subst(StripG(rho_), "u", HalfPi)
StripMap(rho_) == Div(Subst(StripG(rho_), "u", Asin(VS)), StripNorm(rho_))
StripDeriv(rho_) ==      \* interior: G'(u)/cos(u)/G(pi/2), u = asin(s)
    Div(Subst(Div(D(StripG(rho_), "u"), Cos(VU)), "u", Asin(VS)), StripNorm(rho_))
StripDerivEnd(rho_) ==   \* |s| = 1: -G''(u)/sin(u)/G(pi/2) at u = pi/2 (even in u)
    Div(Subst(Neg(Div(D(D(StripG(rho_), "u"), "u"), Sin(VU))), "u", HalfPi), StripNorm(rho_))
\* the same derivative by the chain rule through asin (used by the harness as a cross-check
\* of the u-formulation at interior points)
StripDerivChain(rho_) == D(StripMap(rho_), "s")

(***************************************************************************)
(* 7. Orthogonal families: p_{k+1} = (A_k x + B_k) p_k - C_k p_{k-1},      *)
(*    p_0 = 1, p_{-1} = 0; h_k = int W p_k^2; h_{k+1}/h_k = HRatio(k).      *)
(*    Trees in "k" (and the parameter alpha substituted).                  *)
(*    Mom(m) = int W x^m / int W  (textbook Beta/Gamma integrals, assumed) *)
(***************************************************************************)
VK == V("k")
VX == V("x")
GammaE(a_) == Un("gamma", a_)     \* leaf evaluated by the harness only
Fam(f_, al_) ==
    CASE f_ = "legendre" ->    \* W = 1 on [-1,1]
            [A |-> Div(Add(Mul(CI(2), VK), CI(1)), Add(VK, CI(1))), B |-> CI(0),
             Cc |-> Div(VK, Add(VK, CI(1))),
             hratio |-> Div(Add(Mul(CI(2), VK), CI(1)), Add(Mul(CI(2), VK), CI(3))),
             h0 |-> CI(2), W |-> CI(1), normalise |-> TRUE,
             exp0 |-> Sqrt(CI(2)), expEven |-> CI(0), expOdd |-> CI(0)]
      [] f_ = "chebT1" ->      \* T_k integrated against W = 1 (not orthogonal): 2/(1-k^2), k even
            [A |-> CI(2), B |-> CI(0), Cc |-> CI(1), hratio |-> CI(1),
             h0 |-> CI(1), W |-> CI(1), normalise |-> FALSE,
             exp0 |-> CI(2), expEven |-> Div(CI(2), Sub(CI(1), Sq(VK))), expOdd |-> CI(0)]
      [] f_ = "chebT" ->       \* W = 1/sqrt(1-x^2): h_0 = pi, h_k = pi/2
            [A |-> CI(2), B |-> CI(0), Cc |-> CI(1), hratio |-> CI(1),
             h0 |-> Pi, W |-> Div(CI(1), Sqrt(Sub(CI(1), Sq(VX)))), normalise |-> TRUE,
             exp0 |-> Sqrt(Pi), expEven |-> CI(0), expOdd |-> CI(0)]
      [] f_ = "chebU" ->       \* W = sqrt(1-x^2): h_k = pi/2
            [A |-> CI(2), B |-> CI(0), Cc |-> CI(1), hratio |-> CI(1),
             h0 |-> Div(Pi, CI(2)), W |-> Sqrt(Sub(CI(1), Sq(VX))), normalise |-> TRUE,
             exp0 |-> Sqrt(Div(Pi, CI(2))), expEven |-> CI(0), expOdd |-> CI(0)]
      [] f_ = "laguerre" ->    \* W = x^alpha exp(-x) on [0,inf): h_k = Gamma(k+alpha+1)/k!
            [A |-> Div(CI(-1), Add(VK, CI(1))),
             B |-> Div(Add(Add(Mul(CI(2), VK), CI(1)), CQ(al_)), Add(VK, CI(1))),
             Cc |-> Div(Add(VK, CQ(al_)), Add(VK, CI(1))),
             hratio |-> Div(Add(Add(VK, CQ(al_)), CI(1)), Add(VK, CI(1))),
             h0 |-> GammaE(Add(CQ(al_), CI(1))),
             W |-> Mul(PowR(VX, CQ(al_)), Exp(Neg(VX))), normalise |-> TRUE,
             exp0 |-> Sqrt(GammaE(Add(CQ(al_), CI(1)))), expEven |-> CI(0), expOdd |-> CI(0)]
\* exceptions of the recurrences at k = 0: T_1 = x T_0 (A_0 = 1), h_1/h_0 = 1/2 for T
A0(f_, al_) == IF f_ \in {"chebT1", "chebT"} THEN CI(1) ELSE Fam(f_, al_).A
HRatio0(f_, al_) == IF f_ = "chebT" THEN C(1, 2) ELSE Fam(f_, al_).hratio
FamA(f_, al_, k_) == EvalQ(IF k_ = 0 THEN A0(f_, al_) ELSE Fam(f_, al_).A, KEnv(k_))
FamB(f_, al_, k_) == EvalQ(Fam(f_, al_).B, KEnv(k_))
FamC(f_, al_, k_) == EvalQ(Fam(f_, al_).Cc, KEnv(k_))
FamHR(f_, al_, k_) == EvalQ(IF k_ = 0 THEN HRatio0(f_, al_) ELSE Fam(f_, al_).hratio, KEnv(k_))

\* moments of the weight function relative to the zeroth one
RECURSIVE DblRatio(_, _)
DblRatio(m_, shift_) ==   \* prod_{j=1}^{m/2} (2j-1)/(2j+shift)
    IF m_ = 0 THEN QOne ELSE QMul(DblRatio(m_ - 2, shift_), Q(m_ - 1, m_ + shift_))
RECURSIVE Rising(_, _)
Rising(al_, m_) == IF m_ = 0 THEN QOne ELSE QMul(Rising(al_, m_ - 1), QAdd(al_, QI(m_)))
Mom(f_, al_, m_) ==
    CASE f_ = "legendre" -> IF m_ % 2 = 1 THEN QZero ELSE Q(1, m_ + 1)
      [] f_ = "chebT" -> IF m_ % 2 = 1 THEN QZero ELSE DblRatio(m_, 0)
      [] f_ = "chebU" -> IF m_ % 2 = 1 THEN QZero ELSE DblRatio(m_, 2)
      [] f_ = "laguerre" -> Rising(al_, m_)

\* polynomials over Q as coefficient sequences (index 1 = constant term)
PZero == <<>>
PCoef(p_, i_) == IF i_ >= 1 /\ i_ <= Len(p_) THEN p_[i_] ELSE QZero
PAdd(p_, q_) == Force([i_ \in 1..Max2(Len(p_), Len(q_)) |-> QAdd(PCoef(p_, i_), PCoef(q_, i_))])
PScale(c_, p_) == Force([i_ \in 1..Len(p_) |-> QMul(c_, p_[i_])])
PShift(p_) == <<QZero>> \o p_                              \* multiplication by x
\* <<p_k, p_{k-1}>> by the three-term recurrence (linear recursion)
RECURSIVE FamPair(_, _, _)
FamPair(f_, al_, k_) ==
    IF k_ = 0 THEN <<<<QOne>>, PZero>>
    ELSE LET pr == FamPair(f_, al_, k_ - 1)
             p1 == pr[1] p2 == pr[2]
             nx == PAdd(PAdd(PScale(FamA(f_, al_, k_ - 1), PShift(p1)), PScale(FamB(f_, al_, k_ - 1), p1)),
                        PScale(QNeg(FamC(f_, al_, k_ - 1)), p2))
         IN <<nx, p1>>
FamPoly(f_, al_, k_) == FamPair(f_, al_, k_)[1]
Functional(f_, al_, p_) ==
    LET RECURSIVE Acc(_)
        Acc(i_) == IF i_ = 0 THEN QZero ELSE QAdd(Acc(i_ - 1), QMul(p_[i_], Mom(f_, al_, i_ - 1)))
    IN Acc(Len(p_))
RECURSIVE HRel(_, _, _)
HRel(f_, al_, k_) == IF k_ = 0 THEN QOne ELSE QMul(HRel(f_, al_, k_ - 1), FamHR(f_, al_, k_ - 1))
RECURSIVE PShiftN(_, _)
PShiftN(p_, b_) == IF b_ = 0 THEN p_ ELSE PShift(PShiftN(p_, b_ - 1))
\* p_a is orthogonal to 1, x, ..., x^(a-1) and int W p_a^2 = lead(p_a) int W x^a p_a = h_a
\* (equivalent to pairwise orthogonality with the stated norms; keeps the rationals small)
FamilyOrthogonal(f_, al_, deg_) ==
    \A a_ \in 0..deg_ :
        LET pa == FamPoly(f_, al_, a_) IN
        /\ Len(pa) = a_ + 1
        /\ \A b_ \in 0..(a_ - 1) : Functional(f_, al_, PShiftN(pa, b_)) = QZero
        /\ QMul(pa[a_ + 1], Functional(f_, al_, PShiftN(pa, a_))) = HRel(f_, al_, a_)
\* T_m integrated against W = 1 from the polynomial built by the recurrence equals ChebInt(m)
ChebT1Consistent(deg_) ==
    \A a_ \in 0..deg_ : QMul(<<2, 1>>, Functional("legendre", NoPar, FamPoly("chebT1", NoPar, a_))) = ChebInt(a_)

(***************************************************************************)
(* 7b. The request and the integration functional.                         *)
(*                                                                         *)
(* A case [rule, n, par, base] denotes ONE mathematical rule.  How the     *)
(* request is spelled in the host language is immaterial to it: arguments  *)
(* by position or by keyword, the optional parameter omitted when it has   *)
(* the declared default value, n given as a Python int or as a NumPy       *)
(* integer scalar, the parameter given as int / float / NumPy scalar /     *)
(* 0-d array of the same value, and the same request made again after the  *)
(* caller has overwritten the arrays returned the first time (a rule owns  *)
(* no state that survives a call).  Every applicable form must return the  *)
(* rule of the case.  "ref" is the reference spelling of the harness       *)
(* (n and base rule by position, parameter by keyword, Python int/float).  *)
(*   when: "always" | "par" (the rule takes a parameter) | "integral" (a   *)
(*   real-valued parameter whose value is an integer) | "default" (the     *)
(*   parameter of the case equals the default declared by the signature)   *)
(***************************************************************************)
CForm(name_, n_, style_, par_, when_, scribble_) ==
    [name |-> name_, n |-> n_, style |-> style_, par |-> par_, when |-> when_, scribble |-> scribble_]
CallForms == <<
    CForm("positional",  "int",    "pos", "same",    "par",      FALSE),
    CForm("keywords",    "int",    "kw",  "same",    "always",   FALSE),
    CForm("omitted",     "int",    "ref", "omit",    "default",  FALSE),
    CForm("n-int64",     "int64",  "ref", "same",    "always",   FALSE),
    CForm("n-int32",     "int32",  "ref", "same",    "always",   FALSE),
    CForm("n-uint64",    "uint64", "ref", "same",    "always",   FALSE),
    CForm("par-int",     "int",    "ref", "int",     "integral", FALSE),
    CForm("par-int64",   "int",    "ref", "int64",   "integral", FALSE),
    CForm("par-float64", "int",    "ref", "float64", "par",      FALSE),
    CForm("par-0d",      "int",    "ref", "array0d", "par",      FALSE),
    CForm("again",       "int",    "ref", "same",    "always",   TRUE)>>
\* dflt_: the default of the optional parameter as declared by the constructor's signature
\* (observed by the harness; judged admissible by OneDAudit), <<0, 0>> when there is none
FormApplies(f_, c_, dflt_) ==
    CASE f_.when = "always" -> TRUE
      [] f_.when = "par" -> ParKind(c_.rule) # "none"
      [] f_.when = "integral" -> ParKind(c_.rule) \in {"alpha", "step", "rho"} /\ c_.par[2] = 1
      [] f_.when = "default" -> ParKind(c_.rule) # "none" /\ c_.par = dflt_
\* sizes at which the forms are replayed (all small sizes, odd/even pairs below every 32)
FormN(n_) == n_ <= 16 \/ (n_ % 32) \in {0, 31}
FormsOf(c_, dflt_) == IF FormN(c_.n) THEN {q_ \in 1..Len(CallForms) : FormApplies(CallForms[q_], c_, dflt_)} ELSE {}

\* The exactness obligations are claims about the functional
\*    integrate(f_1, ..., f_m) = sum_i w_i f_1(x_i) ... f_m(x_i)
\* of the grid object (observe_at: OneDGrid.integrate).  Every obligation "test function p_k
\* against the weight function W" is judged on the weighted sum formed from .points/.weights,
\* and the functional must return that same number in two spellings: "product" (one array
\* p_k W) and "factors" (the two arrays p_k and W); for the orthonormalised families
\* additionally "square": the SAME array p_k passed twice together with W, for 2k <= nominal
\* degree, expected 1 (p_k^2 is a polynomial of degree 2k; int W p_k^2 = h_k is the norm law
\* checked by FamilyOrthogonal) - an exactness obligation of its own.
IntegrateForms == <<[name |-> "product", arity |-> 1], [name |-> "factors", arity |-> 2],
                    [name |-> "square", arity |-> 3]>>
Normalised(r_) == Family(r_) \notin {"none", "sine"} /\ Fam(Family(r_), NoPar).normalise
SquareCount(r_, n_) == IF Normalised(r_) THEN (Degree(r_, n_) \div 2) + 1 ELSE 0

(***************************************************************************)
(* 8. Cases of the tier and the emitted data                               *)
(***************************************************************************)
ParSeq(r_) == CASE ParKind(r_) = "alpha" -> AlphaSeq
                [] ParKind(r_) = "step" -> StepSeq
                [] ParKind(r_) = "d" -> [i_ \in DOMAIN DSeq |-> QI(DSeq[i_])]
                [] ParKind(r_) = "rho" -> RhoSeq
                [] OTHER -> <<NoPar>>
BasesOf(r_) == IF TakesBase(r_) THEN BaseSeq ELSE <<FixedBase(r_)>>
\* all admissible [rule, n, par, base] of a rule, n-major (flat index decoded; no recursion)
CaseOk(c_) == /\ AdmissibleN(c_.rule, c_.n) /\ AdmissiblePar(c_.rule, c_.n, c_.par)
              /\ (c_.base # "" => AdmissibleN(c_.base, c_.n))
Collect(r_) ==
    LET ps == ParSeq(r_)
        bs == BasesOf(r_)
        np == Len(ps)
        nb == Len(bs)
        flat == [t_ \in 1..(Len(NSeq) * np * nb) |->
                   [rule |-> r_,
                    n |-> NSeq[((t_ - 1) \div (np * nb)) + 1],
                    par |-> ps[(((t_ - 1) \div nb) % np) + 1],
                    base |-> bs[((t_ - 1) % nb) + 1]]]
    IN SelectSeq(flat, CaseOk)
CasesOf == Force([r_ \in Rules |-> Collect(r_)])

RuleEntry(r_) ==
    [rule |-> r_, kind |-> Kind(r_), parkind |-> ParKind(r_), family |-> Family(r_),
     domain |-> Domain(r_), oddOnly |-> OddOnly(r_), minN |-> MinN(r_), maxN |-> MaxN(r_),
     cases |-> CasesOf[r_]]
AngleEntry(c_) ==
    [rule |-> c_.rule, n |-> c_.n,
     node |-> AngleNodeTree(c_.rule, c_.n), weight |-> AngleWeightAsc(c_.rule, c_.n),
     endHalf |-> EndHalf(c_.rule, c_.n), degree |-> Degree(c_.rule, c_.n)]
RationalEntry(c_) ==
    [rule |-> c_.rule, n |-> c_.n, nodes |-> RatNodes(c_.rule, c_.n),
     weights |-> RatWeights(c_.rule, c_.n), degree |-> Degree(c_.rule, c_.n)]
SubstEntry(r_) == [rule |-> r_, node |-> NodeMap(r_), weight |-> SubstWeight(r_)]
RuleSeq == <<"GaussLegendre", "GaussChebyshev", "GaussChebyshevType2", "GaussChebyshevLobatto",
             "GaussLaguerre", "Trapezoidal", "MidPoint", "Simpson", "UniformInteger",
             "ClenshawCurtis", "FejerFirst", "FejerSecond", "RectangleRuleSineEndPoints",
             "TanhSinh", "ExpSinh", "LogExpSinh", "ExpExp", "SingleTanh", "SingleExp",
             "SingleArcSinhExp", "TrefethenCC", "TrefethenGC2", "TrefethenGeneral",
             "TrefethenStripCC", "TrefethenStripGC2", "TrefethenStripGeneral">>
RECURSIVE ConcatCases(_, _)
ConcatCases(rs_, i_) == IF i_ > Len(rs_) THEN <<>> ELSE CasesOf[rs_[i_]] \o ConcatCases(rs_, i_ + 1)
SeqOfSet(rs_, set_) == SelectSeq(rs_, LAMBDA x_ : x_ \in set_)
AngleSeq == SeqOfSet(RuleSeq, AngleRules)
RationalSeq == SeqOfSet(RuleSeq, RationalRules)
SubstSeq == SeqOfSet(RuleSeq, SubstRules)
FamEntry(f_, al_) ==
    LET fm == Fam(f_, al_) IN
    [family |-> f_, alpha |-> al_, A |-> fm.A, A0 |-> A0(f_, al_), B |-> fm.B, C |-> fm.Cc,
     hratio |-> fm.hratio, hratio0 |-> HRatio0(f_, al_), h0 |-> fm.h0, W |-> fm.W,
     normalise |-> fm.normalise, exp0 |-> fm.exp0, expEven |-> fm.expEven, expOdd |-> fm.expOdd]
\* sine family: test functions sin(m pi (x+1)/2), m = 1..n; exact integral (4/(m pi)) [m odd]
SineEntry == [test |-> Sin(Div(Mul(Mul(VK, Pi), Add(VX, CI(1))), CI(2))),
              expOdd |-> Div(CI(4), Mul(VK, Pi)), expEven |-> CI(0)]
\* (the family "cc" has n-1 panels: it starts at n = 2, the other two at n = 1)
LemmaNs(g_) == SelectSeq(NSeq, LAMBDA n_ : n_ <= MaxChebN /\ (g_ = "cc" => n_ >= 2))
LemmaTable ==     \* the assumed discrete sums, for the numerical cross-check of the harness
    [g_ \in {"f1", "f2", "cc"} |->
        LET ns == LemmaNs(g_) IN
        [q_ \in 1..Len(ns) |-> [n |-> ns[q_], sums |-> [a_ \in 1..(4 * ns[q_] + 5) |-> DSum(g_, ns[q_], a_ - 1)]]]]
AngleCases == ConcatCases(AngleSeq, 1)
RationalCases == ConcatCases(RationalSeq, 1)
Emitted ==
    LET ac == Force(AngleCases) rc == Force(RationalCases) IN
    [rules |-> [q_ \in 1..Len(RuleSeq) |-> RuleEntry(RuleSeq[q_])],
     angle |-> [q_ \in 1..Len(ac) |-> AngleEntry(ac[q_])],
     rational |-> [q_ \in 1..Len(rc) |-> RationalEntry(rc[q_])],
     subst |-> [q_ \in 1..Len(SubstSeq) |-> SubstEntry(SubstSeq[q_])],
     tOfI |-> [q_ \in 1..Len(NSeq) |-> [n |-> NSeq[q_], t |-> TOfI(NSeq[q_])]],
     sausage |-> [q_ \in 1..Len(DSeq) |-> [d |-> DSeq[q_], map |-> SausageMap(DSeq[q_]),
                                          deriv |-> D(SausageMap(DSeq[q_]), "s")]],
     strip |-> [q_ \in 1..Len(RhoSeq) |-> [rho |-> RhoSeq[q_], map |-> StripMap(RhoSeq[q_]),
                                          deriv |-> StripDeriv(RhoSeq[q_]),
                                          derivEnd |-> StripDerivEnd(RhoSeq[q_]),
                                          derivChain |-> StripDerivChain(RhoSeq[q_])]],
     families |-> <<FamEntry("legendre", NoPar), FamEntry("chebT1", NoPar), FamEntry("chebT", NoPar),
                    FamEntry("chebU", NoPar)>> \o
                  [q_ \in 1..Len(AlphaSeq) |-> FamEntry("laguerre", AlphaSeq[q_])],
     sine |-> SineEntry,
     lemma |-> LemmaTable,
     callForms |-> CallForms,
     formN |-> [q_ \in 1..Len(NSeq) |-> [n |-> NSeq[q_], forms |-> FormN(NSeq[q_])]],
     integrateForms |-> IntegrateForms]
EmitOK == JsonSerialize(OutFile, <<Emitted>>)

(***************************************************************************)
(* 9. The checking state machine: one state per case, two-level Next.      *)
(***************************************************************************)
VARIABLES vpc, vrule, vcase
vars == <<vpc, vrule, vcase>>
NoCase == [rule |-> "", n |-> 0, par |-> NoPar, base |-> ""]

Init == vpc = "idle" /\ vrule = "" /\ vcase = NoCase
PickRule == /\ vpc = "idle"
            /\ \E r_ \in Rules : vrule' = r_
            /\ vpc' = "rule" /\ UNCHANGED vcase
PickCase == /\ vpc = "rule"
            /\ \E q_ \in 1..Len(CasesOf[vrule]) : vcase' = CasesOf[vrule][q_]
            /\ vpc' = "case" /\ UNCHANGED vrule
\* the constant-level laws (families, sausage maps, emission) are evaluated in one extra state
PickStatic == /\ vpc = "idle" /\ vpc' = "static" /\ UNCHANGED <<vrule, vcase>>
Next == PickRule \/ PickCase \/ PickStatic
Spec == Init /\ [][Next]_vars

AtCase == vpc = "case"
CR == vcase.rule
CN == vcase.n

\* (a) rational rules: exact on 1, x, ..., x^deg, decided in integers; not exact on the first
\*     even power above (sanity: the nominal degree is sharp)
RationalExact ==
    AtCase /\ CR \in {"Trapezoidal", "MidPoint", "Simpson"} /\ CN <= MaxExactN =>
        /\ \A k_ \in 0..Degree(CR, CN) : MomentExact(CR, CN, k_)
        /\ ~MomentExact(CR, CN, Degree(CR, CN) + 1)
\* (b) series rules in the coefficient domain
SeriesRuleExact ==
    AtCase /\ CR \in SeriesRules /\ CN <= MaxChebN => SeriesExact(CR, CN) /\ FreqIntegral(CR, CN)
SeriesTight ==
    AtCase /\ CR \in SeriesRules /\ CN <= MaxChebN /\ HasSeriesTerm(CR, CN) =>
        IF LastTermVanishes(CR, CN) THEN ~LastTermNeeded(CR, CN) ELSE LastTermNeeded(CR, CN)
ChebyshevGaussExact ==
    AtCase /\ CN <= MaxChebN =>
        /\ CR = "GaussChebyshevLobatto" => LobattoExact(CN)
        /\ CR = "GaussChebyshev" => GC1Exact(CN)
        /\ CR = "GaussChebyshevType2" => GC2Exact(CN)
\* (c) well-formedness: n nodes, strictly ascending in the emitted (ascending) index, inside
\*     the declared domain - decided exactly
InDomainQ(r_, x_) == QLe(Domain(r_).lo, x_) /\ (Domain(r_).inf \/ QLe(x_, Domain(r_).hi))
WellFormedRational ==
    AtCase /\ CR \in RationalRules =>
        /\ Len(RatNodes(CR, CN)) = CN /\ Len(RatWeights(CR, CN)) = CN
        /\ \A i_ \in 1..CN : InDomainQ(CR, RatNode(CR, CN, i_)) /\ QLt(QZero, RatWeight(CR, CN, i_))
        /\ \A i_ \in 1..(CN - 1) : QLt(RatNode(CR, CN, i_), RatNode(CR, CN, i_ + 1))
\* angle rules: theta/pi in [0,1] and strictly increasing in the textbook index, hence the
\* nodes cos(theta) strictly decreasing there and strictly ascending after i := n+1-i
WellFormedAngle ==
    AtCase /\ CR \in AngleRules =>
        /\ \A i_ \in 1..CN : QLe(QZero, AngleFrac(Grid(CR), CN, i_)) /\ QLe(AngleFrac(Grid(CR), CN, i_), QOne)
        /\ \A i_ \in 1..(CN - 1) : QLt(AngleFrac(Grid(CR), CN, i_), AngleFrac(Grid(CR), CN, i_ + 1))
\* substitution rules: the abscissae t_i are strictly increasing and symmetric about 0
WellFormedSubst ==
    AtCase /\ CR \in SubstRules =>
        /\ \A i_ \in 1..(CN - 1) : QLt(TRat(CN, vcase.par, i_), TRat(CN, vcase.par, i_ + 1))
        /\ \A i_ \in 1..CN : TRat(CN, vcase.par, i_) = QNeg(TRat(CN, vcase.par, CN + 1 - i_))
        /\ QLe(TRat(CN, vcase.par, CN), TMax(CR))
CaseAdmissible ==
    AtCase => /\ AdmissibleN(CR, CN) /\ AdmissiblePar(CR, CN, vcase.par)
              /\ (vcase.base # "" => vcase.base \in Rules /\ AdmissibleN(vcase.base, CN)
                                     /\ Domain(vcase.base) = Domain(CR))

\* static laws (constant level; evaluated in the single "static" state)
AtStatic == vpc = "static"
FamiliesOrthogonal ==
    AtStatic => /\ FamilyOrthogonal("legendre", NoPar, FamilyDeg)
                /\ FamilyOrthogonal("chebT", NoPar, FamilyDeg)
                /\ FamilyOrthogonal("chebU", NoPar, FamilyDeg)
                /\ \A q_ \in 1..Len(AlphaSeq) : FamilyOrthogonal("laguerre", AlphaSeq[q_], Min2(FamilyDeg, 3))
                /\ ChebT1Consistent(FamilyDeg + 2)
\* sausage maps: only odd powers with non-negative coefficients (g odd, strictly increasing),
\* normalisation constant positive, d = 1 is the identity; the coefficients defined by the
\* differential equation are the textbook Taylor coefficients of arcsin.  (g(1) = 1 holds by
\* construction; its evaluation overflows 32-bit rationals and is done by the harness in
\* Fraction arithmetic on the emitted tree.)
SausageLaws ==
    AtStatic =>
        /\ <<AsinCoef(1), AsinCoef(3), AsinCoef(5), AsinCoef(7), AsinCoef(9)>>
               = <<<<1, 1>>, <<1, 6>>, <<3, 40>>, <<5, 112>>, <<35, 1152>>>>
        /\ \A q_ \in 1..Len(DSeq) :
            LET d == DSeq[q_] g == SausageMap(d) IN
            /\ d % 2 = 1
            /\ QLt(QZero, AsinNorm(d))
            /\ \A m_ \in 1..d : QLe(QZero, AsinCoef(m_)) /\ (m_ % 2 = 0 => AsinCoef(m_) = QZero)
            /\ IsRational(g) /\ IsRational(D(g, "s"))
            /\ EvalQ(g, [nm_ \in {"s"} |-> QZero]) = QZero
            /\ d = 1 => g = VS
\* the cases enumerated here are the cases emitted (same operator CasesOf), and the file was written
Emission == AtStatic => EmitOK
\* non-vacuity witnesses (negated: TLC must VIOLATE them in the witness run)
WitnessNoSeriesCase == ~(AtCase /\ CR = "FejerSecond" /\ CN % 2 = 0 /\ CN <= MaxChebN /\ CN >= 4)
WitnessNoOddF1 == ~(AtCase /\ CR = "FejerFirst" /\ CN % 2 = 1 /\ CN <= MaxChebN /\ CN >= 5)

(***************************************************************************)
(* 10. "As shipped" variants, used only by the selftest to show that the   *)
(*     specification sees the documented defects: Fejer 2 with the last    *)
(*     term of its series dropped, Fejer 1 likewise (repaired in /repo).   *)
(***************************************************************************)
ShippedFejer2Exact == AtCase /\ CR = "FejerSecond" /\ CN <= MaxChebN =>
                          \A m_ \in 0..(CN - 1) : RuleOnTest(CR, CN, m_, 1) = ChebInt(m_)
ShippedFejer1Exact == AtCase /\ CR = "FejerFirst" /\ CN <= MaxChebN =>
                          \A m_ \in 0..(CN - 1) : RuleOnTest(CR, CN, m_, 1) = ChebInt(m_)
=============================================================================
