----------------------------- MODULE CoulombSys -----------------------------
(***************************************************************************)
(* C19, last clause: "the lazily loaded Coulomb parameter table returns    *)
(* equal values on every call".                                             *)
(*                                                                          *)
(* The table is read once per process and kept (tab: per fitted element the *)
(* content of its two parameter lists, "ok" = equal to the shipped file).   *)
(* Load(z, sp) looks element z up - named by atomic number (Python or NumPy *)
(* integer) or by symbol in any letter case / with surrounding blanks; the  *)
(* spelling sp is irrelevant for the result - and returns two arrays        *)
(* (coefficients c, exponents a) which the caller owns: it may edit them in *)
(* place (Edit) or forget them (Drop).  Refused(kind) is a lookup the       *)
(* library refuses (unknown symbol / number, element without parameters,    *)
(* wrong type): nothing changes.                                            *)
(*                                                                          *)
(* Handout = "fresh"   every call builds new arrays (what the property      *)
(*                     demands, and what the library does)                  *)
(* Handout = "cached"  the loader keeps arrays and hands them out; TLC      *)
(*                     refutes EveryCallEqual on it in three steps          *)
(*                     Load; Edit; Load.                                    *)
(***************************************************************************)
EXTENDS Integers, Sequences, FiniteSets, TLC
CONSTANTS Fitted, Spell, RefusedKinds, MaxObjs, Handout
VARIABLES tab,    \* [Fitted -> [c, a]]   c, a \in {"ok", "dirty"}
          held,   \* sequence of results the caller still holds [z, ca, aa, cc, ac]
          cobs    \* observation of the last action
cvars == <<tab, held, cobs>>
NoCObs == [kind |-> "none", c |-> "ok", a |-> "ok", ca |-> FALSE, aa |-> FALSE]
CInit == /\ tab = [zz_ \in Fitted |-> [c |-> "ok", a |-> "ok"]]
         /\ held = <<>>
         /\ cobs = NoCObs
Shares == Handout = "cached"
Load(zz_, sp_) ==
    /\ Len(held) < MaxObjs
    /\ held' = Append(held, [z |-> zz_, ca |-> Shares, aa |-> Shares, cc |-> tab[zz_].c, ac |-> tab[zz_].a])
    /\ cobs' = [kind |-> "load", c |-> tab[zz_].c, a |-> tab[zz_].a, ca |-> Shares, aa |-> Shares]
    /\ UNCHANGED tab
CEdit(i_, part_) ==
    /\ i_ \in 1..Len(held)
    /\ LET o == held[i_] IN
       IF part_ = "c"
         THEN IF o.ca THEN /\ tab' = [tab EXCEPT ![o.z].c = "dirty"] /\ held' = held
                      ELSE /\ held' = [held EXCEPT ![i_].cc = "dirty"] /\ tab' = tab
         ELSE IF o.aa THEN /\ tab' = [tab EXCEPT ![o.z].a = "dirty"] /\ held' = held
                      ELSE /\ held' = [held EXCEPT ![i_].ac = "dirty"] /\ tab' = tab
    /\ cobs' = NoCObs
CDrop(i_) ==
    /\ i_ \in 1..Len(held)
    /\ held' = [k_ \in 1..Len(held) - 1 |-> IF k_ < i_ THEN held[k_] ELSE held[k_ + 1]]
    /\ cobs' = NoCObs /\ UNCHANGED tab
Refused(kind_) ==
    /\ cobs' = [NoCObs EXCEPT !.kind = "refused"]
    /\ UNCHANGED <<tab, held>>
CNext == \/ \E zz_ \in Fitted, sp_ \in Spell : Load(zz_, sp_)
         \/ \E i_ \in 1..MaxObjs, pp_ \in {"c", "a"} : CEdit(i_, pp_)
         \/ \E i_ \in 1..MaxObjs : CDrop(i_)
         \/ \E kk_ \in RefusedKinds : Refused(kk_)
CSpec == CInit /\ [][CNext]_cvars

\* the values of a lookup are those of the shipped table on every call, whatever happened before
EveryCallEqual == cobs.kind = "load" => cobs.c = "ok" /\ cobs.a = "ok"
TableClean == \A zz_ \in Fitted : tab[zz_].c = "ok" /\ tab[zz_].a = "ok"
NoAliasTableUser == \A i_ \in 1..Len(held) : ~held[i_].ca /\ ~held[i_].aa
\* witness (negated): a lookup of an element one of whose earlier results was edited in place
WitnessEditThenLoad ==
    ~(cobs.kind = "load" /\ \E i_ \in 1..Len(held) - 1 :
          held[i_].z = held[Len(held)].z /\ (IF held[i_].ca THEN tab[held[i_].z].c ELSE held[i_].cc) = "dirty")
=============================================================================
