---------------------------- MODULE LocalGridGen ----------------------------
(***************************************************************************)
(* Behaviour generation for C10: the state machine of LocalGridSys with a  *)
(* history variable.  Every behaviour prefix of length MaxLen is printed   *)
(* once; the harness replays each on every grid class (alternatives are    *)
(* referred to by their position, and concretised per class).              *)
(***************************************************************************)
EXTENDS LocalGridSys
CONSTANTS MaxLen, PSeq, WSeq, CSeq, RSeq, SSeq   \* the alternatives as sequences (for positions)
RejectSeq == <<"neg-radius", "nan-radius", "bad-center", "bad-points", "bad-weights">>
VARIABLE hist
gvars == <<vars, hist>>

GInit == /\ pts = PSeq[1] /\ wts = WSeq[1] /\ tree = None /\ obs = NoObs /\ hist = <<>>
GNext ==
    /\ Len(hist) < MaxLen
    /\ \/ \E ci_ \in 1..Len(CSeq), ri_ \in 1..Len(RSeq) :
            Query(CSeq[ci_], RSeq[ri_]) /\ hist' = Append(hist, <<"Q", ci_, ri_>>)
       \/ \E pi_ \in 1..Len(PSeq) : SetPoints(PSeq[pi_]) /\ hist' = Append(hist, <<"SP", pi_, 0>>)
       \/ \E wi_ \in 1..Len(WSeq) : SetWeights(WSeq[wi_]) /\ hist' = Append(hist, <<"SW", wi_, 0>>)
       \/ \E si_ \in 1..Len(SSeq) : GetItem(SSeq[si_]) /\ hist' = Append(hist, <<"GI", si_, 0>>)
       \/ \E ki_ \in 1..Len(RejectSeq) : Reject(RejectSeq[ki_]) /\ hist' = Append(hist, <<"RJ", ki_, 0>>)
GSpec == GInit /\ [][GNext]_gvars
\* emit each complete behaviour once (a state with Len(hist) = MaxLen is reached exactly once
\* because hist is part of the state)
Emit == Len(hist) = MaxLen => PrintT(<<"BEH", hist>>)
=============================================================================
