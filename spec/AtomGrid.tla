------------------------------- MODULE AtomGrid -------------------------------
(***************************************************************************)
(* An atomic grid is the product of its radial grid and per-shell spheres  *)
(* (property C05).                                                         *)
(*                                                                         *)
(* Structural law.  For a radial grid (r_i, w_i), i = 1..N, resolved       *)
(* degrees d_i with sizes n_i, centre c and rotation seed s:               *)
(*    indices  = prefix sums of n_i                                        *)
(*    shell i  = points indices[i] .. indices[i+1]-1                       *)
(*             = c + r_i * R(s, i) * U(d_i),   weights  w_i r_i^2 * W(d_i) *)
(* U, W: the shipped unit grid of that degree (opaque here); R(s, i) an    *)
(* opaque orthogonal matrix that depends only on (s, i), identity for s=0. *)
(* TLC owns everything discrete/rational in this law: request              *)
(* normalisation, degree/size resolution per shell, sector assignment,     *)
(* preset expansion, the index table, the rational factors w_i r_i^2; the  *)
(* harness checks the float part per shell against those values.           *)
(*                                                                         *)
(* Generated companions: Tables_angular (supported degrees/sizes per       *)
(* method, from grid.angular) and Tables_atomgrid (preset tables read from *)
(* the npz files, observations recorded from the implementation).          *)
(***************************************************************************)
EXTENDS Exact, FiniteSets, SequencesExt, TLC, Json, Tables_angular, Tables_atomgrid

Force(f_) == IF f_ = f_ THEN f_ ELSE f_
RECURSIVE Flat(_)
Flat(ss_) == IF ss_ = <<>> THEN <<>> ELSE Head(ss_) \o Flat(Tail(ss_))
RECURSIVE Tuples(_, _)
Tuples(S_, k_) == IF k_ = 0 THEN {<<>>} ELSE UNION {{<<x>> \o t : t \in Tuples(S_, k_ - 1)} : x \in S_}
ConstSeq(k_, v_) == [i \in 1..k_ |-> v_]
Law(name_, holds_) == holds_ \/ PrintT(<<"LAWFAIL", name_>>)
Prefix(s_, k_) == ISum(SubSeq(s_, 1, k_))
PrefixSums(s_) == [i \in 1..Len(s_) + 1 |-> Prefix(s_, i - 1)]

(***************************************************************************)
(* Degree / size resolution (declarative; property C12 checks the          *)
(* library's bisection against the same definition in Angular.tla).        *)
(***************************************************************************)
DegPairs == Force([m \in Methods |-> {DegTab[m][i] : i \in 1..Len(DegTab[m])}])      \* <<degree, size>>
DegKeys == Force([m \in Methods |-> {p[1] : p \in DegPairs[m]}])
SizeKeys == Force([m \in Methods |-> {p[2] : p \in DegPairs[m]}])
LeastAbove(S_, q_) == CHOOSE v \in S_ : v >= q_ /\ \A w \in S_ : w >= q_ => v <= w
HasAbove(S_, q_) == \E v \in S_ : v >= q_
DegUp(m_, d_) == LeastAbove(DegKeys[m_], d_)
SizeUp(m_, s_) == LeastAbove(SizeKeys[m_], s_)
SizeOfDeg(m_, d_) == (CHOOSE p \in DegPairs[m_] : p[1] = d_)[2]
DegOfSize(m_, s_) == (CHOOSE p \in DegPairs[m_] : p[2] = s_)[1]
DegOk(m_, d_) == d_ >= 0 /\ HasAbove(DegKeys[m_], d_)
SizeOk(m_, s_) == s_ >= 0 /\ HasAbove(SizeKeys[m_], s_)
\* size -> degree -> size never loses points
ResolutionLaw ==
    \A m \in Methods : \A s \in {1, 6, 7, 26, 27, 100, 590, 1454} :
        SizeOk(m, s) => SizeOfDeg(m, DegOfSize(m, SizeUp(m, s))) >= s

(***************************************************************************)
(* Sector rule.  Boundaries b_1 <= ... <= b_Q, values L_1 .. L_{Q+1}.      *)
(* Definition: r belongs to sector k iff b_{k-1} < r <= b_k (b_0 = -inf,   *)
(* b_{Q+1} = +inf), i.e. k is the first boundary not below r.              *)
(* Algorithm of the code: position = #{s : r > b_s}.                       *)
(***************************************************************************)
SectorDef(r_, bs_) ==
    IF \E k \in 1..Len(bs_) : QLe(r_, bs_[k])
    THEN CHOOSE k \in 1..Len(bs_) : QLe(r_, bs_[k]) /\ \A j \in 1..k - 1 : ~QLe(r_, bs_[j])
    ELSE Len(bs_) + 1
SectorAlgo(r_, bs_) == Cardinality({s \in 1..Len(bs_) : QLt(bs_[s], r_)}) + 1
SortedQ(bs_) == \A i \in 1..Len(bs_) - 1 : QLe(bs_[i], bs_[i + 1])

SectorLattice == {Q(k, 2) : k \in 0..7}
SectorSeqs == UNION {Tuples({Q(k, 2) : k \in 1..6}, q) : q \in 0..3}
SectorLaw ==
    \A bs \in SectorSeqs : SortedQ(bs) =>
        \A r \in SectorLattice :
            /\ SectorAlgo(r, bs) = SectorDef(r, bs)
            /\ SectorDef(r, bs) \in 1..Len(bs) + 1
            \* ties belong to the inner sector
            /\ \A k \in 1..Len(bs) : r = bs[k] => SectorDef(r, bs) <= k
\* on an unsorted boundary list the two differ: sortedness is part of the precondition
SectorLawNeedsSorted ==
    \E bs \in SectorSeqs : ~SortedQ(bs) /\ \E r \in SectorLattice : SectorAlgo(r, bs) # SectorDef(r, bs)
\* a tie is really exercised and really goes inward
SectorTieExample == SectorDef(<<1, 1>>, <<<<1, 1>>, <<2, 1>>>>) = 1 /\ SectorDef(<<3, 2>>, <<<<1, 1>>, <<2, 1>>>>) = 2

(***************************************************************************)
(* Exact integral of a monomial over the unit sphere, as a multiple of     *)
(* 4 pi:  (a-1)!!(b-1)!!(c-1)!! / (a+b+c+1)!!  for even a, b, c, else 0.   *)
(* Used for the factorised-integral consequence.  Internal consistency:    *)
(* the integral of (x^2+y^2+z^2)^k over the sphere is 4 pi.                *)
(***************************************************************************)
RECURSIVE DFact(_)
DFact(n_) == IF n_ <= 1 THEN 1 ELSE n_ * DFact(n_ - 2)
RECURSIVE Fact(_)
Fact(n_) == IF n_ <= 1 THEN 1 ELSE n_ * Fact(n_ - 1)
SphereMonomial(a_, b_, c_) ==
    IF a_ % 2 = 1 \/ b_ % 2 = 1 \/ c_ % 2 = 1 THEN QZero
    ELSE Q(DFact(a_ - 1) * DFact(b_ - 1) * DFact(c_ - 1), DFact(a_ + b_ + c_ + 1))
MonomialLaw ==
    \A k \in 0..4 :
        QSum(Flat([a1 \in 1..k + 1 |-> [b1 \in 1..k - a1 + 2 |->
            LET a == a1 - 1  b == b1 - 1 IN
            QMul(QI(Fact(k) \div (Fact(a) * Fact(b) * Fact(k - a - b))),
                 SphereMonomial(2 * a, 2 * b, 2 * (k - a - b)))]])) = QOne
MaxMonomialDegree == 6
Monomials == {t \in Tuples(0..MaxMonomialDegree, 3) : t[1] + t[2] + t[3] <= MaxMonomialDegree}

(***************************************************************************)
(* Configurations of the structural replay and what the specification      *)
(* expects of each.                                                        *)
(***************************************************************************)
RadialGrids ==
    << [p |-> <<<<1, 2>>, <<1, 1>>, <<3, 2>>, <<3, 1>>>>, w |-> <<<<1, 4>>, <<1, 2>>, <<1, 1>>, <<3, 2>>>>],
       [p |-> <<<<0, 1>>, <<1, 2>>, <<2, 1>>, <<5, 2>>>>, w |-> <<<<1, 2>>, <<1, 4>>, <<2, 1>>, <<1, 1>>>>] >>
Centres == << <<QZero, QZero, QZero>>, <<<<1, 2>>, <<-1, 1>>, <<2, 1>>>> >>
Seeds == <<0, 1, 37>>
DegreeRequests == {1, 4, 15}
SizeRequests == {6, 7, 26}
PrunedRadii == {<<1, 1>>, <<3, 2>>}
PrunedBounds == {<<1, 2>>, <<1, 1>>, <<2, 1>>}
PrunedDegrees == {3, 7}
PrunedSizes == {6, 40}
PrunedMethods == {"lebedev", "spherical"}
SortedSeqs(S_, q_) == {t \in Tuples(S_, q_) : SortedQ(t)}

Config(n_, g_, kind_, req_, radius_, sectors_, method_) ==
    [n |-> n_, rgp |-> SubSeq(RadialGrids[g_].p, 1, n_), rgw |-> SubSeq(RadialGrids[g_].w, 1, n_),
     kind |-> kind_, req |-> req_, radius |-> radius_, sectors |-> sectors_, method |-> method_,
     centre |-> Centres[((Len(req_) + n_) % 2) + 1], seed |-> Seeds[(ISum(req_) % 3) + 1]]

PlainConfigs(n_, g_, m_) ==
    {Config(n_, g_, "degrees", r, QOne, <<>>, m_) :
        r \in Tuples(DegreeRequests, 1) \cup Tuples(DegreeRequests, n_) \cup (IF n_ >= 3 THEN {<<4, 15>>} ELSE {})}
    \cup {Config(n_, g_, "sizes", r, QOne, <<>>, m_) :
        r \in Tuples(SizeRequests, 1) \cup Tuples(SizeRequests, n_) \cup (IF n_ >= 3 THEN {<<6, 26>>} ELSE {})}
PrunedConfigs(n_, g_, m_) ==
    UNION {UNION {
        {Config(n_, g_, "pruned_d", r, rad, bs, m_) : r \in Tuples(PrunedDegrees, q + 1)}
        \cup (IF q = 1 THEN {Config(n_, g_, "pruned_s", r, rad, bs, m_) : r \in Tuples(PrunedSizes, q + 1)}
                           \cup {Config(n_, g_, "pruned_d", <<3, 5, 7>>, rad, bs, m_)}     \* wrong length
              ELSE {})
        : bs \in SortedSeqs(PrunedBounds, q)} : q \in 0..2, rad \in PrunedRadii}
ConfigBlocks == {<<n, g, m>> : n \in 1..4, g \in 1..2, m \in Methods}
ConfigsOf(b_) == PlainConfigs(b_[1], b_[2], b_[3])
                 \cup (IF b_[3] \in PrunedMethods THEN PrunedConfigs(b_[1], b_[2], b_[3]) ELSE {})
Configs(dummy_) == UNION {ConfigsOf(b) : b \in ConfigBlocks}

Rejected == [ok |-> FALSE]
\* per-shell requested degree (after size conversion / sector assignment), or Rejected
ShellDegrees(c_) ==
    LET m == c_.method
        bcast(s) == IF Len(s) = 1 THEN ConstSeq(c_.n, s[1]) ELSE s
    IN CASE c_.kind = "degrees" ->
              IF Len(c_.req) \notin {1, c_.n} \/ \E i \in 1..Len(c_.req) : ~DegOk(m, c_.req[i]) THEN Rejected
              ELSE [ok |-> TRUE, d |-> [i \in 1..c_.n |-> DegUp(m, bcast(c_.req)[i])]]
         [] c_.kind = "sizes" ->
              IF Len(c_.req) \notin {1, c_.n} \/ \E i \in 1..Len(c_.req) : ~SizeOk(m, c_.req[i]) THEN Rejected
              ELSE [ok |-> TRUE, d |-> [i \in 1..c_.n |-> DegOfSize(m, SizeUp(m, bcast(c_.req)[i]))]]
         [] OTHER ->   \* pruned: sector values first resolved, then assigned by the sector rule
              IF Len(c_.req) # Len(c_.sectors) + 1 THEN Rejected
              ELSE LET vals == IF c_.kind = "pruned_d" THEN [k \in 1..Len(c_.req) |-> DegUp(m, c_.req[k])]
                               ELSE [k \in 1..Len(c_.req) |-> DegOfSize(m, SizeUp(m, c_.req[k]))]
                       bs == [k \in 1..Len(c_.sectors) |-> QMul(c_.radius, c_.sectors[k])]
                   IN [ok |-> TRUE, d |-> [i \in 1..c_.n |-> vals[SectorDef(c_.rgp[i], bs)]]]
Expected(c_) ==
    LET sd == ShellDegrees(c_) IN
    IF ~sd.ok THEN Rejected
    ELSE LET sizes == [i \in 1..c_.n |-> SizeOfDeg(c_.method, sd.d[i])]
         IN [ok |-> TRUE, degrees |-> sd.d, sizes |-> sizes, indices |-> PrefixSums(sizes)]
\* rational factors of the shell weights:  w_i r_i^2  (and w_i alone for get_shell_grid(i, r_sq=False))
Numeric(c_) ==
    [factor |-> [i \in 1..c_.n |-> QMul(c_.rgw[i], QMul(c_.rgp[i], c_.rgp[i]))],
     factor_nosq |-> c_.rgw, radius |-> c_.rgp]
EmitConfigs ==
    /\ JsonSerialize("atomgrid_configs.json",
            SetToSeq({[c |-> c, num |-> Numeric(c), smin |-> IF Expected(c).ok THEN 1 ELSE 0] : c \in Configs(0)}))
    /\ JsonSerialize("atomgrid_monomials.json",
            SetToSeq({<<t, SphereMonomial(t[1], t[2], t[3])>> : t \in Monomials}))

AllLaws ==
    /\ Law("ResolutionLaw", ResolutionLaw)
    /\ Law("SectorLaw", SectorLaw)
    /\ Law("SectorLawNeedsSorted", SectorLawNeedsSorted)
    /\ Law("SectorTieExample", SectorTieExample)
    /\ Law("MonomialLaw", MonomialLaw)

(***************************************************************************)
(* State: three small machines share the variables (INIT/NEXT per cfg).    *)
(***************************************************************************)
VARIABLES pc, cs, step, acc
vars == <<pc, cs, step, acc>>
Idle == pc = "idle" /\ cs = <<>> /\ step = 0 /\ acc = <<>>

(***************************************************************************)
(* Machine 1: the index table loop                                         *)
(*     indices[0] = 0;  indices[i+1] = indices[i] + len(shell i)           *)
(* against the definition (prefix sums; the shells partition the points).  *)
(***************************************************************************)
ShellSizes == {6, 14, 26, 38, 50, 86}
InitIdx == Idle
IdxPickLen ==
    /\ pc = "idle"
    /\ \E n \in 1..MaxShells : step' = n
    /\ pc' = "len" /\ UNCHANGED <<cs, acc>>
IdxPickSizes ==
    /\ pc = "len"
    /\ \E s \in Tuples(ShellSizes, step) : cs' = s
    /\ acc' = <<0>> /\ step' = 0 /\ pc' = "loop"
IdxLoop ==
    /\ pc = "loop"
    /\ IF step < Len(cs)
         THEN acc' = Append(acc, acc[step + 1] + cs[step + 1]) /\ step' = step + 1 /\ pc' = pc
         ELSE pc' = "done" /\ UNCHANGED <<acc, step>>
    /\ UNCHANGED cs
NextIdx == IdxPickLen \/ IdxPickSizes \/ IdxLoop

IdxDone == pc = "done"
IdxLoopInvariant == pc = "loop" => Len(acc) = step + 1 /\ acc[step + 1] = Prefix(cs, step)
IdxEqualsDefinition == IdxDone => acc = PrefixSums(cs)
IdxMonotone == IdxDone => \A i \in 1..Len(acc) - 1 : acc[i] < acc[i + 1]
IdxLastIsTotal == IdxDone => acc[1] = 0 /\ acc[Len(acc)] = ISum(cs)
IdxPartition ==
    IdxDone => \A p \in 0..ISum(cs) - 1 :
        Cardinality({i \in 1..Len(cs) : acc[i] <= p /\ p < acc[i + 1]}) = 1
IdxShellLengths == IdxDone => \A i \in 1..Len(cs) : acc[i + 1] - acc[i] = cs[i]

(***************************************************************************)
(* Machine 2: laws + emission of the configurations (initial state only)   *)
(* and judgement of the observations recorded for them.                    *)
(* CfgObs: sequence of [c |-> config, o |-> observation]; an observation   *)
(* is [ok |-> FALSE] (ValueError) or [ok, degrees, sizes, indices].        *)
(***************************************************************************)
InitCfg == Idle
BlockSize == 64
CfgPickBlock ==
    /\ pc = "idle"
    /\ \E b \in 0..(Len(CfgObs) \div BlockSize) : step' = b
    /\ pc' = "block" /\ UNCHANGED <<cs, acc>>
CfgPick ==
    /\ pc = "block"
    /\ \E j \in 1..BlockSize :
         LET k == step * BlockSize + j IN
         /\ k <= Len(CfgObs)
         /\ cs' = CfgObs[k].c /\ acc' = CfgObs[k].o
    /\ pc' = "judge" /\ UNCHANGED step
NextCfg == CfgPickBlock \/ CfgPick

LawsHold == pc = "idle" => AllLaws
Emitted == pc = "idle" => EmitConfigs
CfgIsConfig == pc = "judge" => cs \in ConfigsOf(<<cs.n, IF cs.rgp = SubSeq(RadialGrids[1].p, 1, cs.n) THEN 1 ELSE 2, cs.method>>)
CfgConforms ==
    pc = "judge" => (acc = Expected(cs) \/ PrintT(<<"MISMATCH", cs, Expected(cs), acc>>))
\* the expected index table has the properties machine 1 proves of the loop
CfgExpectedWellFormed ==
    pc = "judge" => LET e == Expected(cs) IN
        e.ok => /\ Len(e.indices) = cs.n + 1 /\ e.indices[1] = 0
                /\ \A i \in 1..cs.n : e.indices[i + 1] - e.indices[i] = e.sizes[i] /\ e.sizes[i] > 0

(***************************************************************************)
(* Machine 3: preset tables (generated from the npz files).                *)
(* Presets: sequence of [name, entries]; an entry is                       *)
(*   [z, kind ("counts" | "radii"), rad, npt, variants]                    *)
(* rad: shell counts, or (kind radii) the RANKS of the sector radii in the *)
(* joint ordering with the radial points used for the observation;         *)
(* variants: sequence of [variant, method, shells (ranks of the radial     *)
(* points, kind radii), nshell, rsize (_get_rgrid_size, -1 if n/a),        *)
(* o (observation: [ok |-> FALSE, err] or [ok, sizes, degrees])].          *)
(***************************************************************************)
CountsPresets == {"sg_0", "sg_2", "sg_3", "g1", "g2", "g3", "g4", "g5", "g6", "g7"}
\* the branch the code takes
CodeBranch(name_, z_) == IF name_ \in CountsPresets \/ (name_ = "sg_1" /\ z_ > 18) THEN "counts" ELSE "radii"
PresetMethod == "lebedev"
ShapeFits(e_) == IF e_.kind = "counts" THEN Len(e_.npt) = Len(e_.rad) ELSE Len(e_.npt) = Len(e_.rad) + 1
IntQ(s_) == [i \in 1..Len(s_) |-> QI(s_[i])]
\* per-shell tabulated size
Tabulated(e_, v_) ==
    IF e_.kind = "counts" THEN Flat([k \in 1..Len(e_.rad) |-> ConstSeq(e_.rad[k], e_.npt[k])])
    ELSE [i \in 1..Len(v_.shells) |-> e_.npt[SectorDef(QI(v_.shells[i]), IntQ(e_.rad))]]
ExpectedPreset(e_, v_) ==
    LET t == Tabulated(e_, v_)
        s == [i \in 1..Len(t) |-> SizeUp(v_.method, t[i])]
    IN [ok |-> TRUE, sizes |-> s, degrees |-> [i \in 1..Len(t) |-> DegOfSize(v_.method, s[i])]]

InitPre == Idle
PrePickPreset ==
    /\ pc = "idle"
    /\ \E k \in 1..Len(Presets) : step' = k
    /\ pc' = "preset" /\ UNCHANGED <<cs, acc>>
PrePickEntry ==
    /\ pc = "preset"
    /\ \E j \in 1..Len(Presets[step].entries) : cs' = Presets[step].entries[j]
    /\ pc' = "entry" /\ UNCHANGED <<step, acc>>
NextPre == PrePickPreset \/ PrePickEntry

AtEntry == pc = "entry"
PName == Presets[step].name
Fail(what_) == PrintT(<<"TABLEFAIL", what_, PName, cs.z>>)
\* the branch taken by the code is the one the table is made for
PreBranchMatchesKind == AtEntry => (CodeBranch(PName, cs.z) = cs.kind \/ Fail("BranchMatchesKind"))
\* one size per run of shells / one more size than sector radii
PreShapeFits == AtEntry => (ShapeFits(cs) \/ Fail("ShapeFits"))
PreCountsPositive == AtEntry => ((cs.kind = "counts" => \A k \in 1..Len(cs.rad) : cs.rad[k] >= 1) \/ Fail("CountsPositive"))
PreRadiiIncreasing == AtEntry => ((cs.kind = "radii" => \A k \in 1..Len(cs.rad) - 1 : cs.rad[k] < cs.rad[k + 1]) \/ Fail("RadiiIncreasing"))
PreSizesSupported == AtEntry => ((\A k \in 1..Len(cs.npt) : SizeOk(PresetMethod, cs.npt[k])) \/ Fail("SizesSupported"))
\* what was built is what the table prescribes, no shell coarser than tabulated; the radial
\* size a counts table prescribes is the sum of its counts
PreConforms ==
    AtEntry => \A i \in 1..Len(cs.variants) :
        LET v == cs.variants[i] IN
        IF ~ShapeFits(cs) \/ CodeBranch(PName, cs.z) # cs.kind
        THEN (~v.o.ok) \/ PrintT(<<"PRESETNOTE", PName, cs.z, v.variant, "built although the table is malformed">>)
        ELSE LET e == ExpectedPreset(cs, v) IN
             /\ (v.o = e \/ PrintT(<<"PRESETMISMATCH", PName, cs.z, v.variant, e, v.o>>))
             /\ ((v.o.ok /\ Len(v.o.sizes) = Len(e.sizes) => \A s \in 1..Len(e.sizes) : v.o.sizes[s] >= Tabulated(cs, v)[s])
                    \/ PrintT(<<"PRESETMISMATCH", PName, cs.z, v.variant \o ":coarser-than-tabulated", Tabulated(cs, v), v.o>>))
             /\ (cs.kind = "counts" /\ v.rsize # -1 =>
                    (v.rsize = ISum(cs.rad) \/ PrintT(<<"PRESETMISMATCH", PName, cs.z, "rgrid_size", ISum(cs.rad), v.rsize>>)))
             /\ (cs.kind = "counts" => Len(e.sizes) = ISum(cs.rad))
=============================================================================
