--------------------------- MODULE ErrorPathsTrace ---------------------------
(***************************************************************************)
(* Trace validation for X01.  traces_x01.json: a sequence of traces; the   *)
(* first event of a trace is [kind]; every other event is                  *)
(*   [act, v, k, exc, mro, changed, pv, wv, ex]                            *)
(* recorded by the harness on a real object: the action, what was raised,  *)
(* the first observable attribute that is not bit-identical after the call *)
(* ("" if none), and which value the object now holds as points / weights  *)
(* / basis-or-scale.  Every event is replayed through Do of ErrorPathsSys; *)
(* the first event the specification does not allow rejects the trace      *)
(* (trace id, position, clause) and the next trace is started.             *)
(***************************************************************************)
EXTENDS ErrorPathsSys, Json
Traces == JsonDeserialize("traces_x01.json")
VARIABLES tid, l
tvars == <<allvars, tid, l>>
Ev == Traces[tid][l]
X(e_) == Act(e_.act, e_.v, e_.k)
IsPure(e_) == e_.act \notin {"SP", "SW", "IP", "TF"}

Clause(e_) ==
    LET x == X(e_) c == ClassOf(x) IN
    IF x \notin Alphabet(kind) THEN "harness-generated-unknown-action"
    ELSE IF c = "" /\ e_.exc # "" THEN "raised-but-specified-to-accept:" \o e_.exc
    ELSE IF c # "" /\ e_.exc = "" THEN "accepted-but-specified-to-raise"
    ELSE IF c \notin {"", ANY} /\ c \notin {e_.mro[k_] : k_ \in 1..Len(e_.mro)} THEN "wrong-exception-class:" \o e_.exc
    ELSE IF c # "" /\ e_.changed # "" THEN "state-changed-by-rejected-call"
    ELSE IF c = "" /\ IsPure(e_) /\ e_.changed # "" THEN "state-changed-by-non-mutating-call"
    ELSE IF e_.pv # (IF c = "" /\ x.act = "SP" THEN x.v ELSE pv) THEN "points-held-are-not-the-last-accepted-assignment"
    ELSE IF e_.wv # (IF c = "" /\ x.act = "SW" THEN x.v ELSE wv) THEN "weights-held-are-not-the-last-accepted-assignment"
    ELSE IF e_.ex # (IF c = "" /\ x.act = "IP" THEN "built" ELSE IF c = "" /\ x.act = "TF" THEN "set" ELSE ex)
         THEN "remembered-state-differs"
    ELSE "ok"

StartTrace(t_) ==
    /\ tid' = t_ /\ l' = 2
    /\ kind' = IF t_ <= Len(Traces) THEN Traces[t_][1].kind ELSE "Grid"
    /\ pv' = 0 /\ wv' = 0 /\ ex' = "none"
    /\ psh' = InitPShape(kind') /\ wsh' = <<3>>
    /\ last' = [act |-> Act("RD", 0, ""), cls |-> ""]
    /\ UNCHANGED evars
TInit == /\ EInit /\ tid = 1 /\ l = 2 /\ kind = Traces[1][1].kind /\ pv = 0 /\ wv = 0 /\ ex = "none"
         /\ psh = InitPShape(kind) /\ wsh = <<3>> /\ last = [act |-> Act("RD", 0, ""), cls |-> ""]
TNext ==
    /\ tid <= Len(Traces)
    /\ IF l > Len(Traces[tid])
         THEN PrintT(<<"ACCEPT", tid>>) /\ StartTrace(tid + 1)
         ELSE IF Clause(Ev) = "ok"
                THEN Do(X(Ev)) /\ l' = l + 1 /\ tid' = tid
                ELSE PrintT(<<"REJECT", tid, l, Clause(Ev)>>) /\ StartTrace(tid + 1)
TSpec == TInit /\ [][TNext]_tvars
=============================================================================
