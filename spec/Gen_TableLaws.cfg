SPECIFICATION GSpec
INVARIANT Emit
INVARIANT TableLawsHold
INVARIANT CaseLawsHold
