--------------------------------- MODULE Ode ---------------------------------
(***************************************************************************)
(* Linear ODEs  sum_k a_k(x) y^(k)(x) = f(x)  of order K <= 3 under a change *)
(* of the independent variable r = g(x)  (property C15).                     *)
(*                                                                           *)
(*  1. partial Bell polynomials by their recurrence (BellP, over the         *)
(*     polynomial ring of CPoly.tla), next to the DECLARATIVE definition as  *)
(*     a sum over partitions (BellDefQ) and the six closed forms that        *)
(*     grid/ode.py hard-codes for K <= 3 (CodeBell);                         *)
(*  2. Faa di Bruno in the form the code uses it,                            *)
(*        d^i (Y o g)/dx^i = sum_j B_ij(g', g'', g''') (Y^(j) o g),          *)
(*     as exact polynomial identities in x for polynomial g and Y;           *)
(*  3. the derivative transformation matrix M_ij = B_ij (x-derivatives from  *)
(*     r-derivatives), its inverse by forward substitution, and the          *)
(*     coefficient transformation  b_j = sum_k a_k B_kj;  the transformed    *)
(*     equation is satisfied by the transformed solution (polynomial         *)
(*     identity);                                                            *)
(*  4. the explicit first-order form (f - sum_{k<K} b_k y_k) / b_K;          *)
(*  5. MANUFACTURED PROBLEMS: a polynomial solution y and polynomial         *)
(*     coefficients a_k over small integers, f := sum a_k y^(k) computed     *)
(*     here; initial and boundary data read off y; a catalogue of the        *)
(*     admissible coordinate transformations of grid.rtransform with their   *)
(*     parameter lattices, and the assignment of transformations to          *)
(*     problems.  TLC enumerates the whole problem lattice, checks every     *)
(*     problem (f consistent with (a_k, y) pointwise, leading coefficient    *)
(*     without zero, well-posedness rule of the boundary conditions,         *)
(*     transformations admissible on the interval) and emits it.             *)
(***************************************************************************)
EXTENDS CPoly, TLC, Json

Force(f_) == IF f_ = f_ THEN f_ ELSE f_

RECURSIVE Binom(_, _)
Binom(n_, k_) == IF k_ < 0 \/ k_ > n_ THEN 0
                 ELSE IF k_ = 0 \/ k_ = n_ THEN 1
                 ELSE Binom(n_ - 1, k_ - 1) + Binom(n_ - 1, k_)
RECURSIVE Fact(_)
Fact(n_) == IF n_ <= 1 THEN 1 ELSE n_ * Fact(n_ - 1)

(***************************************************************************)
(* 1. Bell polynomials                                                       *)
(***************************************************************************)
\* recurrence: B_{n,k}(x_1..) = sum_{i=1}^{n-k+1} C(n-1, i-1) x_i B_{n-i,k-1},  B_{0,0} = 1
RECURSIVE BellP(_, _, _)
BellP(n_, k_, xs_) ==
    IF n_ = 0 /\ k_ = 0 THEN PInt(1)
    ELSE IF n_ = 0 \/ k_ = 0 THEN {}
    ELSE PSumSeq([i_ \in 1..(n_ - k_ + 1) |->
                    PScale(QI(Binom(n_ - 1, i_ - 1)), PMul(xs_[i_], BellP(n_ - i_, k_ - 1, xs_)))])
\* on rational arguments
ConstSeq(qs_) == [i_ \in 1..Len(qs_) |-> PConst(qs_[i_])]
BellQ(n_, k_, qs_) == PCoef(BellP(n_, k_, ConstSeq(qs_)), 0)

\* declarative definition: sum over (j_1..j_n), sum j_i = k, sum i j_i = n, of
\*    n! / prod(j_i!)  *  prod (x_i / i!)^(j_i)
RECURSIVE ISumF(_, _), IProdF(_, _), QSumSet(_, _), QProdF(_, _)
ISumF(f_, s_) == IF s_ = {} THEN 0 ELSE LET i_ == CHOOSE x_ \in s_ : TRUE IN f_[i_] + ISumF(f_, s_ \ {i_})
IProdF(f_, s_) == IF s_ = {} THEN 1 ELSE LET i_ == CHOOSE x_ \in s_ : TRUE IN f_[i_] * IProdF(f_, s_ \ {i_})
QProdF(f_, s_) == IF s_ = {} THEN QOne ELSE LET i_ == CHOOSE x_ \in s_ : TRUE IN QMul(f_[i_], QProdF(f_, s_ \ {i_}))
QSumSet(f_, s_) == IF s_ = {} THEN QZero ELSE LET i_ == CHOOSE x_ \in s_ : TRUE IN QAdd(f_[i_], QSumSet(f_, s_ \ {i_}))
BellDefQ(n_, k_, qs_) ==
    LET js_ == {j_ \in [1..n_ -> 0..k_] :
                  /\ ISumF(j_, 1..n_) = k_
                  /\ ISumF([i_ \in 1..n_ |-> i_ * j_[i_]], 1..n_) = n_}
        term_ == [j_ \in js_ |->
                    QMul(Q(Fact(n_), IProdF([i_ \in 1..n_ |-> Fact(j_[i_])], 1..n_)),
                         QProdF([i_ \in 1..n_ |-> QPow(QDiv(qs_[i_], QI(Fact(i_))), j_[i_])], 1..n_))]
    IN QSumSet(term_, js_)

\* the same recurrence over expression trees (symbolic g1, g2, g3), emitted for the harness, which
\* has to evaluate the matrix on the irrational derivatives of the real transformations
RECURSIVE BellE(_, _, _), SumExprs(_)
SumExprs(s_) == IF s_ = <<>> THEN CI(0) ELSE Add(Head(s_), SumExprs(Tail(s_)))
BellE(n_, k_, xs_) ==
    IF n_ = 0 /\ k_ = 0 THEN CI(1)
    ELSE IF n_ = 0 \/ k_ = 0 THEN CI(0)
    ELSE SumExprs([i_ \in 1..(n_ - k_ + 1) |->
                    Mul(CI(Binom(n_ - 1, i_ - 1)), Mul(xs_[i_], BellE(n_ - i_, k_ - 1, xs_)))])
GVars == <<V("g1"), V("g2"), V("g3")>>
BellTrees == [i_ \in 1..3 |-> [j_ \in 1..3 |-> IF j_ <= i_ THEN BellE(i_, j_, GVars) ELSE CI(0)]]

\* the closed forms hard-coded in grid/ode.py:_transform_ode_from_derivs for K <= 3
CodeBell(n_, k_, g_) ==
    CASE n_ = 1 /\ k_ = 1 -> g_[1]
      [] n_ = 2 /\ k_ = 1 -> g_[2]
      [] n_ = 2 /\ k_ = 2 -> QMul(g_[1], g_[1])
      [] n_ = 3 /\ k_ = 1 -> g_[3]
      [] n_ = 3 /\ k_ = 2 -> QMul(QI(3), QMul(g_[1], g_[2]))
      [] n_ = 3 /\ k_ = 3 -> QMul(g_[1], QMul(g_[1], g_[1]))

(***************************************************************************)
(* 3./4. jets, transformation matrix, coefficient transformation, explicit form *)
(***************************************************************************)
\* M[i][j] = B_{i,j}(G), lower triangular: (d^i y/dx^i)_i = M (d^j Y/dr^j)_j
BellMatrix(g_, n_) == [i_ \in 1..n_ |-> [j_ \in 1..n_ |-> IF j_ <= i_ THEN BellQ(i_, j_, g_) ELSE QZero]]
MatVec(m_, v_) == [i_ \in 1..Len(m_) |-> QSum([j_ \in 1..Len(v_) |-> QMul(m_[i_][j_], v_[j_])])]
\* forward substitution: r-derivatives from x-derivatives (needs g' # 0)
RECURSIVE InvJetF(_, _, _)
InvJetF(m_, yx_, n_) ==
    IF n_ = 0 THEN <<>>
    ELSE LET prev_ == InvJetF(m_, yx_, n_ - 1)
             s_ == QSum([j_ \in 1..(n_ - 1) |-> QMul(m_[n_][j_], prev_[j_])])
         IN Append(prev_, QDiv(QSub(yx_[n_], s_), m_[n_][n_]))
InvJet(g_, yx_) == InvJetF(BellMatrix(g_, Len(yx_)), yx_, Len(yx_))
\* b_0 = a_0,  b_j = sum_{k >= j} a_k B_{k,j}(G);  as_ = <<a_0, .., a_K>> (index shifted by one)
CoefTransform(as_, g_) ==
    [j1_ \in 1..Len(as_) |->
        IF j1_ = 1 THEN as_[1]
        ELSE QSum([k1_ \in 1..Len(as_) |->
                     IF k1_ >= j1_ THEN QMul(as_[k1_], BellQ(k1_ - 1, j1_ - 1, g_)) ELSE QZero])]
\* explicit form: y_K = (f - sum_{k<K} b_k y_k) / b_K ;  ys_ = <<y_0 .. y_{K-1}>>
ExplicitRhs(bs_, ys_, f_) ==
    QDiv(QSub(f_, QSum([k1_ \in 1..Len(ys_) |-> QMul(bs_[k1_], ys_[k1_])])), bs_[Len(bs_)])

(***************************************************************************)
(* 2. Faa di Bruno on polynomials                                            *)
(***************************************************************************)
GSeq == << PFromInts(<<0, 2>>), PFromInts(<<1, -1, 1>>), PFromInts(<<0, 1, 0, 1>>),
           PFromInts(<<2, 1, -1, 1>>), PFromInts(<<-1, 3, 2>>), PFromInts(<<1, 1, 1, -2>>) >>
YFaaSeq == << PFromInts(<<1, 1, -1>>), PFromInts(<<2, -1, 0, 1>>), PFromInts(<<0, 0, 1, 0, -1>>),
              PFromInts(<<1, -2, 0, 3, 1, 1>>) >>
GDer(g_) == <<PDer(g_), PDerN(g_, 2), PDerN(g_, 3)>>
FaaLhs(y_, g_, i_) == PDerN(PCompose(y_, g_), i_)
FaaRhs(y_, g_, i_) == PSumSeq([j_ \in 1..i_ |-> PMul(BellP(i_, j_, GDer(g_)), PCompose(PDerN(y_, j_), g_))])
\* coefficient transformation with polynomial coefficients: b_j(x) = sum_k a_k(x) B_kj(g'(x),..)
CoefTransformP(as_, g_) ==
    [j1_ \in 1..Len(as_) |->
        IF j1_ = 1 THEN as_[1]
        ELSE PSumSeq([k1_ \in 1..Len(as_) |->
                        IF k1_ >= j1_ THEN PMul(as_[k1_], BellP(k1_ - 1, j1_ - 1, GDer(g_))) ELSE {}])]
\* left-hand side sum_k a_k D^k y as a polynomial
ApplyOde(as_, y_) == PSumSeq([k1_ \in 1..Len(as_) |-> PMul(as_[k1_], PDerN(y_, k1_ - 1))])
\* the transformed operator applied to Y, expressed in x:  sum_j b_j(x) (Y^(j) o g)(x)
ApplyTransformed(as_, g_, y_) ==
    PSumSeq([j1_ \in 1..Len(as_) |-> PMul(CoefTransformP(as_, g_)[j1_], PCompose(PDerN(y_, j1_ - 1), g_))])
AFaaSeq == << <<PInt(1), PInt(2)>>, <<PX, PInt(-1), PFromInts(<<2, 1>>)>>,
              <<PFromInts(<<1, -1>>), PX, PInt(0), PFromInts(<<1, 0, 1>>)>>,
              <<PInt(0), PInt(1), PFromInts(<<0, 1>>), PInt(-2)>> >>

(***************************************************************************)
(* rational jets for the helper-function cases                               *)
(***************************************************************************)
G1Seq == << <<1, 2>>, <<-3, 2>>, <<2, 1>>, <<5, 4>> >>
G2Seq == << <<0, 1>>, <<1, 1>>, <<-1, 2>>, <<3, 4>> >>
G3Seq == << <<0, 1>>, <<2, 1>>, <<-1, 4>> >>
ASeq  == << <<1, 1>>, <<-2, 1>>, <<1, 2>>, <<0, 1>>, <<3, 1>> >>
NJet == Len(G1Seq) * Len(G2Seq) * Len(G3Seq)
JetOf(n_) == << G1Seq[((n_ - 1) \div (Len(G2Seq) * Len(G3Seq))) + 1],
                G2Seq[(((n_ - 1) \div Len(G3Seq)) % Len(G2Seq)) + 1],
                G3Seq[((n_ - 1) % Len(G3Seq)) + 1] >>
\* coefficients a_0..a_3 and a jet y_0..y_2 derived from the case number (leading a_3 # 0)
ACase(n_) == << ASeq[(n_ % 5) + 1], ASeq[((n_ \div 2) % 5) + 1], ASeq[((n_ \div 3) % 5) + 1],
                ASeq[((n_ % 3) * 2 % 5) + 1] >>            \* a_3 in {1, 1/2, 3}
YCase(n_) == << ASeq[((n_ + 1) % 5) + 1], ASeq[((n_ + 2) % 5) + 1], ASeq[((n_ \div 4) % 5) + 1] >>
JetCase(n_) ==
    LET g_ == JetOf(n_) a_ == ACase(n_) ys_ == YCase(n_) b_ == CoefTransform(a_, g_) IN
    [id |-> n_, g |-> g_, a |-> a_, y |-> ys_, f |-> ASeq[((n_ + 3) % 5) + 1],
     M |-> BellMatrix(g_, 3), b |-> b_,
     rhs |-> ExplicitRhs(b_, ys_, ASeq[((n_ + 3) % 5) + 1]),
     inv |-> InvJet(g_, ys_)]

(***************************************************************************)
(* 5. manufactured problems                                                  *)
(***************************************************************************)
Half == <<1, 2>>
Intervals == << [dom |-> "unit", x0 |-> <<-1, 2>>, x1 |-> <<1, 2>>, h |-> <<1, 8>>, n |-> 9],
                [dom |-> "half", x0 |-> <<1, 4>>, x1 |-> <<7, 4>>, h |-> <<1, 4>>, n |-> 7] >>
YSeq == << PFromInts(<<1, 1, -1>>), PFromInts(<<2, -1, 0, 1>>), PFromInts(<<-1, 2, 1, -1>>),
           PFromInts(<<1, 1, 0, 0, -1>>) >>
LowSeq(ord_) == IF ord_ <= 2
                THEN << PInt(0), PInt(1), PInt(-1), PInt(2), PX, PFromInts(<<1, -1>>) >>
                ELSE << PInt(0), PInt(1), PInt(-1), PX >>
LeadSeq(ord_) == IF ord_ <= 2
                 THEN << PInt(1), PInt(-2), PFromInts(<<2, 1>>), PFromInts(<<1, 0, 1>>) >>
                 ELSE << PInt(1), PFromInts(<<2, 1>>) >>
NY(ord_) == IF ord_ = 1 THEN 4 ELSE 3
RECURSIVE IPow(_, _)
IPow(b_, e_) == IF e_ = 0 THEN 1 ELSE b_ * IPow(b_, e_ - 1)
NOrd(ord_) == 2 * NY(ord_) * Len(LeadSeq(ord_)) * IPow(Len(LowSeq(ord_)), ord_)
NProblems == NOrd(1) + NOrd(2) + NOrd(3)
OrdOf(i_) == IF i_ <= NOrd(1) THEN 1 ELSE IF i_ <= NOrd(1) + NOrd(2) THEN 2 ELSE 3
\* mixed-radix decoding of the problem number: low coefficients (fastest), leading, y, interval
Problem(i_) ==
    LET ord_ == OrdOf(i_)
        r0_ == i_ - 1 - (IF ord_ = 1 THEN 0 ELSE IF ord_ = 2 THEN NOrd(1) ELSE NOrd(1) + NOrd(2))
        nl_ == Len(LowSeq(ord_))
        nlow_ == IPow(nl_, ord_)
        lowd_ == r0_ % nlow_
        r1_ == r0_ \div nlow_
        lead_ == LeadSeq(ord_)[(r1_ % Len(LeadSeq(ord_))) + 1]
        r2_ == r1_ \div Len(LeadSeq(ord_))
        y_ == YSeq[(r2_ % NY(ord_)) + 1]
        iv_ == Intervals[((r2_ \div NY(ord_)) % 2) + 1]
        as_ == [k1_ \in 1..ord_ + 1 |->
                  IF k1_ = ord_ + 1 THEN lead_
                  ELSE LowSeq(ord_)[((lowd_ \div IPow(nl_, k1_ - 1)) % nl_) + 1]]
    IN [id |-> i_, ord |-> ord_, iv |-> iv_, y |-> y_, a |-> as_, f |-> ApplyOde(as_, y_)]

\* sign of a polynomial of degree <= 2 on [x0, x1]: 1, -1, 0 (identically zero) or 2 (changes
\* sign or touches zero / undecided)
SignOn(p_, x0_, x1_) ==
    IF p_ = {} THEN 0
    ELSE IF PDeg(p_) = 0 THEN QSgn(PCoef(p_, 0))
    ELSE IF PDeg(p_) = 1
         THEN (IF QSgn(PEval(p_, x0_)) = QSgn(PEval(p_, x1_)) /\ QSgn(PEval(p_, x0_)) # 0
               THEN QSgn(PEval(p_, x0_)) ELSE 2)
    ELSE IF PDeg(p_) = 2
         THEN LET a2_ == PCoef(p_, 2) a1_ == PCoef(p_, 1) a0_ == PCoef(p_, 0)
                  disc_ == QSub(QMul(a1_, a1_), QMul(QI(4), QMul(a2_, a0_)))
              IN IF QSgn(disc_) < 0 THEN QSgn(a2_) ELSE 2
    ELSE 2

Points(iv_) == [j_ \in 1..iv_.n |-> QAdd(iv_.x0, QMul(QI(j_ - 1), iv_.h))]
Jet(y_, x_, n_) == [k1_ \in 1..n_ |-> PEval(PDerN(y_, k1_ - 1), x_)]      \* <<y(x), y'(x), ..>>

\* boundary-condition patterns <<side, derivative>> (side 0 = x0, 1 = x1)
\*   order 1: the condition at either end
\*   order 2: Dirichlet always; the two mixed patterns only under the maximum-principle rule
\*            sign(a_2) * a_0 <= 0 on the interval (unique solvability for every admissible problem)
\*   order 3: two-point patterns (2,1) and (1,2)
MaxPrinciple(p_) ==
    LET s2_ == SignOn(p_.a[3], p_.iv.x0, p_.iv.x1) s0_ == SignOn(p_.a[1], p_.iv.x0, p_.iv.x1)
    IN s2_ \in {1, -1} /\ s0_ \in {0, -s2_}
BcPatterns(p_) ==
    IF p_.ord = 1 THEN << << <<0, 0>> >>, << <<1, 0>> >> >>
    ELSE IF p_.ord = 2
         THEN (IF MaxPrinciple(p_)
               THEN << << <<0, 0>>, <<1, 0>> >>, << <<0, 0>>, <<1, 1>> >>, << <<0, 1>>, <<1, 0>> >> >>
               ELSE << << <<0, 0>>, <<1, 0>> >> >>)
    ELSE << << <<0, 0>>, <<0, 1>>, <<1, 0>> >>, << <<0, 0>>, <<1, 0>>, <<1, 1>> >> >>
BcValue(p_, c_) == PEval(PDerN(p_.y, c_[2]), IF c_[1] = 0 THEN p_.iv.x0 ELSE p_.iv.x1)

\* ---- catalogue of coordinate transformations (classes of grid.rtransform) ---------------
\* [cls, p (parameters, constructor order), inv (wrap in InverseRTransform), dom]
Cart2(s1_, s2_) == [i_ \in 1..Len(s1_) * Len(s2_) |->
                      <<s1_[((i_ - 1) \div Len(s2_)) + 1], s2_[((i_ - 1) % Len(s2_)) + 1]>>]
Cart3(s1_, s2_, s3_) == [i_ \in 1..Len(s1_) * Len(s2_) * Len(s3_) |->
                      <<s1_[((i_ - 1) \div (Len(s2_) * Len(s3_))) + 1],
                        s2_[(((i_ - 1) \div Len(s3_)) % Len(s2_)) + 1],
                        s3_[((i_ - 1) % Len(s3_)) + 1]>>]
Mk(cls_, ps_, dom_) == [i_ \in 1..Len(ps_) |-> [cls |-> cls_, p |-> ps_[i_], inv |-> FALSE, dom |-> dom_]]
RminSeq == << <<0, 1>>, <<1, 10>> >>
RposSeq == << <<1, 10>>, <<1, 4>> >>
RSeq == << <<1, 1>>, <<3, 2>> >>
RmaxSeq == << <<5, 1>>, <<10, 1>> >>
KSeq == << <<1, 1>>, <<2, 1>>, <<3, 1>> >>
BSeq == << <<2, 1>>, <<5, 1>> >>
UnitTfs == Mk("BeckeRTransform", Cart2(RminSeq, RSeq), "unit")
        \o Mk("LinearFiniteRTransform", Cart2(RminSeq, RmaxSeq), "unit")
        \o Mk("MultiExpRTransform", Cart2(RminSeq, RSeq), "unit")
        \o Mk("KnowlesRTransform", Cart3(RminSeq, RSeq, KSeq), "unit")
        \o Mk("HandyRTransform", Cart3(RminSeq, RSeq, << <<1, 1>>, <<2, 1>> >>), "unit")   \* m = 3: see c15.py
        \o Mk("HandyModRTransform", Cart3(RminSeq, << <<10, 1>>, <<20, 1>> >>, KSeq), "unit")
HalfDirect == Mk("IdentityRTransform", << <<>> >>, "half")
        \o Mk("LinearInfiniteRTransform", Cart3(RminSeq, RmaxSeq, BSeq), "half")
        \o Mk("ExpRTransform", Cart3(RposSeq, RmaxSeq, BSeq), "half")
        \o Mk("PowerRTransform", Cart3(RposSeq, RmaxSeq, BSeq), "half")
\* HyperbolicRTransform is NOT in the catalogue: its methods reject an argument array of N points
\* unless b (N - 1) < 1 (it is a map of the grid INDEX 0..N-1), so whether it is admissible depends on
\* the number of mesh points an ODE solver happens to use - not a coordinate transformation in the
\* sense of the property.
HalfTfs == HalfDirect \o [i_ \in 1..Len(UnitTfs) |-> [UnitTfs[i_] EXCEPT !.inv = TRUE, !.dom = "half"]]
TfsOf(dom_) == IF dom_ = "unit" THEN UnitTfs ELSE HalfTfs
\* admissibility of a catalogue entry on an interval [x0, x1] of its domain
TwoPow(k_) == IPow(2, k_[1])
Admissible(t_, x0_, x1_) ==
    LET q_ == t_.p IN
    IF t_.inv
    THEN \* the interval must lie in the codomain of the wrapped transformation
         /\ QLe(q_[1], x0_)
         /\ (t_.cls \in {"LinearFiniteRTransform", "HandyModRTransform"} => QLe(x1_, q_[2]))
         /\ (t_.cls = "HandyModRTransform" => QLt(QI(TwoPow(q_[3]) - 1), QSub(q_[2], q_[1])))
    ELSE CASE t_.cls = "HandyModRTransform" -> QLt(QI(TwoPow(q_[3]) - 1), QSub(q_[2], q_[1]))
           [] t_.cls \in {"ExpRTransform", "PowerRTransform"} -> QSgn(q_[1]) > 0 /\ QLt(q_[1], q_[2])
           [] t_.cls \in {"LinearFiniteRTransform", "LinearInfiniteRTransform"} -> QLt(q_[1], q_[2])
           [] OTHER -> TRUE
\* two transformations per (problem, solve), fixed rotation through the catalogue
TfIndex(i_, s_, j_, dom_) == ((i_ * 7 + s_ * 3 + j_ * 13) % Len(TfsOf(dom_))) + 1

IntSeq(p_) == [k1_ \in 1..PDeg(p_) + 1 |-> PCoef(p_, k1_ - 1)[1]]
IsIntPoly(p_) == \A t_ \in p_ : t_[2][2] = 1 /\ t_[1] >= 0
ProblemRecord(i_) ==
    LET p_ == Problem(i_) pts_ == Points(p_.iv) pats_ == BcPatterns(p_) IN
    [id |-> i_, ord |-> p_.ord, dom |-> p_.iv.dom, x0 |-> p_.iv.x0, x1 |-> p_.iv.x1,
     a |-> [k1_ \in 1..p_.ord + 1 |-> IntSeq(p_.a[k1_])],
     f |-> IntSeq(p_.f),
     y |-> IntSeq(p_.y),
     pts |-> pts_,
     vals |-> [j_ \in 1..Len(pts_) |-> Jet(p_.y, pts_[j_], p_.ord)],
     ivp |-> [fwd |-> Jet(p_.y, p_.iv.x0, p_.ord), bwd |-> Jet(p_.y, p_.iv.x1, p_.ord)],
     ivpdir |-> [s_ \in 1..3 |-> IF (i_ + s_) % 2 = 0 THEN "fwd" ELSE "bwd"],
     bvp |-> [n_ \in 1..Len(pats_) |->
                [c_ \in 1..Len(pats_[n_]) |->
                    <<pats_[n_][c_][1], pats_[n_][c_][2], BcValue(p_, pats_[n_][c_])>>]],
     jets |-> [x0 |-> Jet(p_.y, p_.iv.x0, p_.ord), x1 |-> Jet(p_.y, p_.iv.x1, p_.ord)],
     tfs |-> [s_ \in 1..(4 + Len(pats_)) |-> <<TfIndex(i_, s_, 1, p_.iv.dom), TfIndex(i_, s_, 2, p_.iv.dom)>>]]

(***************************************************************************)
(* the model                                                                 *)
(***************************************************************************)
VARIABLES pc, blk, idx
vars == <<pc, blk, idx>>
BlockSize == 32
NBlocks == (NProblems + BlockSize - 1) \div BlockSize
NFaa == Len(GSeq) * Len(YFaaSeq)

Init == pc = "idle" /\ blk = 0 /\ idx = 0
PickFaa == /\ pc = "idle" /\ \E n_ \in 1..NFaa : idx' = n_
           /\ pc' = "faa" /\ UNCHANGED blk
PickJet == /\ pc = "idle" /\ \E n_ \in 1..NJet : idx' = n_
           /\ pc' = "jet" /\ UNCHANGED blk
PickBell == /\ pc = "idle" /\ \E n_ \in 1..NJet : idx' = n_
            /\ pc' = "bell" /\ UNCHANGED blk
PickTf == /\ pc = "idle" /\ \E n_ \in 1..(Len(UnitTfs) + Len(HalfTfs)) : idx' = n_
          /\ pc' = "tf" /\ UNCHANGED blk
PickBlock == /\ pc = "idle" /\ \E b_ \in 0..NBlocks - 1 : blk' = b_
             /\ pc' = "block" /\ UNCHANGED idx
PickProblem == /\ pc = "block"
               /\ \E j_ \in 1..BlockSize : blk * BlockSize + j_ <= NProblems /\ idx' = blk * BlockSize + j_
               /\ pc' = "prob" /\ UNCHANGED blk
Next == PickFaa \/ PickJet \/ PickBell \/ PickTf \/ PickBlock \/ PickProblem
Spec == Init /\ [][Next]_vars

FaaG == GSeq[((idx - 1) \div Len(YFaaSeq)) + 1]
FaaY == YFaaSeq[((idx - 1) % Len(YFaaSeq)) + 1]

\* (I1) Faa di Bruno, i = 1..3, exact polynomial identity
FaaDiBruno == pc = "faa" => \A i_ \in 1..3 : FaaLhs(FaaY, FaaG, i_) = FaaRhs(FaaY, FaaG, i_)
\* (I2) the transformed equation is satisfied by the transformed solution: for y = Y o g,
\*      sum_k a_k y^(k) = sum_j b_j (Y^(j) o g), for every coefficient tuple of AFaaSeq
TransformedOdeSatisfied ==
    pc = "faa" => \A n_ \in 1..Len(AFaaSeq) :
        ApplyOde(AFaaSeq[n_], PCompose(FaaY, FaaG)) = ApplyTransformed(AFaaSeq[n_], FaaG, FaaY)
\* (I3) recurrence = declarative definition = closed forms of the code (n <= 3); also n = 4
BellAgree ==
    pc = "bell" =>
        LET g_ == JetOf(idx) g4_ == Append(g_, <<-2, 3>>) IN
        /\ \A n_ \in 1..3 : \A k_ \in 1..n_ :
              /\ BellQ(n_, k_, g_) = BellDefQ(n_, k_, g_)
              /\ BellQ(n_, k_, g_) = CodeBell(n_, k_, g_)
        /\ \A k_ \in 1..4 : BellQ(4, k_, g4_) = BellDefQ(4, k_, g4_)
        /\ \A n_ \in 1..3 : \A k_ \in 1..3 :      \* the emitted trees evaluate to the same numbers
              EvalQ(BellTrees[n_][k_], [v_ \in {"g1", "g2", "g3"} |->
                       IF v_ = "g1" THEN g_[1] ELSE IF v_ = "g2" THEN g_[2] ELSE g_[3]])
                = (IF k_ <= n_ THEN BellQ(n_, k_, g_) ELSE QZero)
\* (I4) jets: M * InvJet = identity on jets; emitted helper cases are self-consistent
JetLaws ==
    pc = "jet" =>
        LET c_ == JetCase(idx) IN
        /\ MatVec(c_.M, c_.inv) = c_.y
        /\ \A i_ \in 1..3 : c_.M[i_][i_] = QPow(c_.g[1], i_)            \* diagonal g'^i # 0
        /\ QAdd(QSum([k1_ \in 1..3 |-> QMul(c_.b[k1_], c_.y[k1_])]), QMul(c_.b[4], c_.rhs)) = c_.f
        /\ PrintT(<<"JET", c_>>)
\* (I5) every manufactured problem: f consistent with (a_k, y) pointwise, integer coefficients,
\*      leading coefficient without zero on the interval, patterns sized to the order, assigned
\*      transformations admissible
CheckPts == << <<0, 1>>, <<1, 1>>, <<-1, 1>>, <<1, 2>>, <<2, 1>> >>
ProblemSound ==
    pc = "prob" =>
        LET p_ == Problem(idx) r_ == ProblemRecord(idx) IN
        /\ \A n_ \in 1..Len(CheckPts) :
              QSum([k1_ \in 1..p_.ord + 1 |->
                      QMul(PEval(p_.a[k1_], CheckPts[n_]), PEval(PDerN(p_.y, k1_ - 1), CheckPts[n_]))])
                = PEval(p_.f, CheckPts[n_])
        /\ IsIntPoly(p_.f) /\ IsIntPoly(p_.y) /\ \A k1_ \in 1..p_.ord + 1 : IsIntPoly(p_.a[k1_])
        /\ SignOn(p_.a[p_.ord + 1], p_.iv.x0, p_.iv.x1) \in {1, -1}
        /\ PDeg(p_.y) >= 2
        /\ \A n_ \in 1..Len(r_.bvp) : Len(r_.bvp[n_]) = p_.ord
        /\ \A s_ \in 1..Len(r_.tfs) : \A j_ \in 1..2 :
              Admissible(TfsOf(p_.iv.dom)[r_.tfs[s_][j_]], p_.iv.x0, p_.iv.x1)
        /\ PrintT(<<"PROB", r_>>)
\* (I6) the catalogue
TfOf(n_) == IF n_ <= Len(UnitTfs) THEN UnitTfs[n_] ELSE HalfTfs[n_ - Len(UnitTfs)]
CatalogueAdmissible ==
    pc = "tf" =>
        LET t_ == TfOf(idx) iv_ == IF t_.dom = "unit" THEN Intervals[1] ELSE Intervals[2] IN
        /\ Admissible(t_, iv_.x0, iv_.x1)
        /\ PrintT(<<"TF", idx, t_>>)
EmitTrees == JsonSerialize("ode_trees.json", [bell |-> BellTrees])
ASSUME EmitTrees
\* non-vacuity: the lattice really contains all orders, both intervals, both well-posedness branches
Witness ==
    /\ NProblems = NOrd(1) + NOrd(2) + NOrd(3) /\ NOrd(1) > 0 /\ NOrd(3) > 0
    /\ \E i_ \in {NOrd(1) + 1, NOrd(1) + 2, NOrd(1) + 3} : MaxPrinciple(Problem(i_))
    /\ \E i_ \in {NOrd(1) + 1, NOrd(1) + 2, NOrd(1) + 3, NOrd(1) + 4} : ~MaxPrinciple(Problem(i_))
=============================================================================
