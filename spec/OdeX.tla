--------------------------------- MODULE OdeX ---------------------------------
(***************************************************************************)
(* Property C15, extension of Ode.tla along the dimensions its quantifier   *)
(* names and that the polynomial lattice of Ode.tla does not reach:         *)
(*                                                                           *)
(*  X1. ARBITRARY SMOOTH solutions and coefficient functions: expression     *)
(*      trees of Expr.tla (exp, sin, log, reciprocal, polynomial x exp ...), *)
(*      the right-hand side  f := sum_k a_k D^k y  is built HERE with the    *)
(*      symbolic derivative D.  On the rational fragment TLC checks the      *)
(*      derivative trees against independent closed forms (k-th derivative   *)
(*      of 1/(2+x), polynomial derivatives of CPoly.tla) and the residual    *)
(*      identity exactly; the declared sign of every rational coefficient    *)
(*      is checked at every sample point.                                    *)
(*  X2. intervals with INTEGER end points that lie exactly ON the boundary   *)
(*      of the transformation's domain (x = -1, x = 0, x = +1), with the     *)
(*      rule which catalogue entries are regular there;                      *)
(*  X3. boundary conditions on second derivatives, all conditions at one     *)
(*      end, conditions listed in any order;                                 *)
(*  X4. transformations outside the catalogue of Ode.tla: inverses of the    *)
(*      half-line classes, double inverses, BeckeRTransform(trim_inf=False), *)
(*      and USER-DEFINED polynomial transformations g (a subclass of         *)
(*      BaseTransform written by the harness from the coefficient list       *)
(*      emitted here) - for these the transformed coefficients b_j(x), the   *)
(*      Bell matrix and the explicit right-hand side are exact rationals     *)
(*      computed here (CoefTransformP) and compared with the helper          *)
(*      functions of grid/ode.py, and "the transformed equation is satisfied *)
(*      by the transformed solution" is a polynomial identity checked by TLC;*)
(*  X5. the CALL FORMS as program dimensions: type of the initial data, of   *)
(*      the interval, of constant coefficients and their container,          *)
(*      no_derivatives, the form of the boundary-condition list, initial     *)
(*      guess given / omitted, mesh, IVP method (all six of scipy, the       *)
(*      default, a solver class).  The assignment of forms to solves is a    *)
(*      fixed rotation defined here.                                         *)
(*                                                                           *)
(* Parameter names carry a trailing underscore (BUILDING.md, TLC pitfalls).  *)
(***************************************************************************)
EXTENDS Ode

XV == V("x")
XTwoPlus == Add(CI(2), XV)

(***************************************************************************)
(* intervals                                                                 *)
(***************************************************************************)
XIntervals == <<
  [name |-> "unit",  dom |-> "unit", x0 |-> <<-1, 2>>, x1 |-> <<1, 2>>, h |-> <<1, 8>>, n |-> 9, closed |-> "no"],
  [name |-> "half",  dom |-> "half", x0 |-> <<1, 4>>,  x1 |-> <<7, 4>>, h |-> <<1, 4>>, n |-> 7, closed |-> "no"],
  [name |-> "unitL", dom |-> "unit", x0 |-> <<-1, 1>>, x1 |-> <<0, 1>>, h |-> <<1, 8>>, n |-> 9, closed |-> "lo"],
  [name |-> "half0", dom |-> "half", x0 |-> <<0, 1>>,  x1 |-> <<1, 1>>, h |-> <<1, 8>>, n |-> 9, closed |-> "lo"],
  [name |-> "unitR", dom |-> "unit", x0 |-> <<0, 1>>,  x1 |-> <<1, 1>>, h |-> <<1, 8>>, n |-> 9, closed |-> "hi"] >>
NXIv == Len(XIntervals)

(***************************************************************************)
(* X1. solutions and coefficients as expression trees                        *)
(***************************************************************************)
XPolyA == PFromInts(<<-1, 2, 1, -1>>)
XPolyB == PFromInts(<<1, 1, -1>>)
XYSeq == << [t |-> Exp(Neg(XV)),                         fam |-> "exp"],
            [t |-> Add(Sin(Mul(CI(2), XV)), XV),         fam |-> "sin"],
            [t |-> Div(CI(1), XTwoPlus),                 fam |-> "recip"],
            [t |-> Mul(XV, Exp(Div(XV, CI(2)))),         fam |-> "xexp"],
            [t |-> Log(XTwoPlus),                        fam |-> "log"],
            [t |-> PExpr(XPolyA, "x"),                   fam |-> "polyA"],
            [t |-> PExpr(XPolyB, "x"),                   fam |-> "polyB"] >>
NXY == Len(XYSeq)
XIsPoly(fam_) == fam_ \in {"polyA", "polyB"}
XIsRat(fam_) == fam_ \in {"polyA", "polyB", "recip"}
\* independent closed forms of the k-th derivative on the rational families
XClosedJet(fam_, k_, x_) ==
    CASE fam_ = "recip" -> QMul(QI(IPow(-1, k_) * Fact(k_)), QPow(QAdd(QI(2), x_), -(k_ + 1)))
      [] fam_ = "polyA" -> PEval(PDerN(XPolyA, k_), x_)
      [] fam_ = "polyB" -> PEval(PDerN(XPolyB, k_), x_)

\* coefficient pools.  kind: "const" (passed as a number) | "fun" (passed as a callable);
\* sg: declared sign on [-1, 2]: 0 identically zero, 1 positive, -1 negative, 2 no claim
XLow == << [t |-> CI(0),                      kind |-> "const", sg |-> 0],
           [t |-> CI(1),                      kind |-> "const", sg |-> 1],
           [t |-> CI(-1),                     kind |-> "const", sg |-> -1],
           [t |-> C(1, 2),                    kind |-> "const", sg |-> 1],
           [t |-> XV,                         kind |-> "fun",   sg |-> 2],
           [t |-> Neg(Exp(Neg(XV))),          kind |-> "fun",   sg |-> -1],
           [t |-> Sin(XV),                    kind |-> "fun",   sg |-> 2],
           [t |-> Div(CI(1), XTwoPlus),       kind |-> "fun",   sg |-> 1],
           [t |-> Sub(CI(1), XV),             kind |-> "fun",   sg |-> 2],
           [t |-> CI(-2),                     kind |-> "const", sg |-> -1] >>
\* leading coefficients: without zero on [-1, 2] (exp > 0, 2 + x >= 1, 2 + sin x >= 1, -(1 + x^2) <= -1)
XLead == << [t |-> CI(1),                           kind |-> "const", sg |-> 1],
            [t |-> CI(-2),                          kind |-> "const", sg |-> -1],
            [t |-> Exp(XV),                         kind |-> "fun",   sg |-> 1],
            [t |-> XTwoPlus,                        kind |-> "fun",   sg |-> 1],
            [t |-> Div(CI(1), XTwoPlus),            kind |-> "fun",   sg |-> 1],
            [t |-> Add(CI(2), Sin(XV)),             kind |-> "fun",   sg |-> 1],
            [t |-> Neg(Add(CI(1), Sq(XV))),         kind |-> "fun",   sg |-> -1],
            [t |-> C(1, 2),                         kind |-> "const", sg |-> 1] >>

NXDraw == 3
NXP == NXIv * 3 * NXY * NXDraw
XDecode(n_) ==
    LET r0_ == n_ - 1
        r1_ == r0_ \div NXDraw
        r2_ == r1_ \div NXY
    IN [draw |-> (r0_ % NXDraw) + 1, y |-> (r1_ % NXY) + 1, ord |-> (r2_ % 3) + 1, iv |-> (r2_ \div 3) + 1]
\* draw 1 of a polynomial solution: the pure operator  c y^(K)  (constant right-hand side for K = deg y)
XCoefs(n_) ==
    LET d_ == XDecode(n_)
        pure_ == XIsPoly(XYSeq[d_.y].fam) /\ d_.draw = 1
    IN [k1_ \in 1..d_.ord + 1 |->
          IF k1_ = d_.ord + 1
          THEN (IF pure_ THEN XLead[((n_ \div 7) % 2) + 1]
                ELSE XLead[((n_ * 5 + n_ \div 3) % Len(XLead)) + 1])
          ELSE IF pure_ THEN XLow[1]
          ELSE XLow[((n_ * 7 + k1_ * 3 + n_ \div 5) % Len(XLow)) + 1]]
XApplyE(cs_, y_) == SumExprs([k1_ \in 1..Len(cs_) |-> Mul(cs_[k1_].t, Dn(y_, "x", k1_ - 1))])

(***************************************************************************)
(* X3. boundary-condition patterns <<side, derivative>>, in the order listed *)
(*   all conditions at one end: uniquely solvable for every admissible       *)
(*   problem (it is the initial-value problem); order 2 two-point patterns   *)
(*   with a derivative condition only under the maximum-principle rule       *)
(*   sign(a_2) a_0 <= 0 (declared signs); Dirichlet and the order-3          *)
(*   two-point patterns as in Ode.tla.                                       *)
(***************************************************************************)
XWellPosed2(cs_) == Len(cs_) = 3 /\ cs_[3].sg \in {1, -1} /\ cs_[1].sg \in {0, -cs_[3].sg}
XBcPatterns(ord_, wp_) ==
    IF ord_ = 1 THEN << << <<0, 0>> >>, << <<1, 0>> >> >>
    ELSE IF ord_ = 2
         THEN << << <<0, 0>>, <<1, 0>> >>, << <<0, 0>>, <<0, 1>> >>, << <<1, 1>>, <<1, 0>> >> >>
              \o (IF wp_ THEN << << <<1, 1>>, <<0, 0>> >>, << <<1, 0>>, <<0, 1>> >> >> ELSE << >>)
    ELSE << << <<0, 0>>, <<0, 1>>, <<1, 0>> >>, << <<0, 0>>, <<0, 1>>, <<0, 2>> >>,
            << <<1, 2>>, <<1, 0>>, <<1, 1>> >>, << <<0, 0>>, <<1, 0>>, <<0, 2>> >>,
            << <<1, 0>>, <<0, 0>>, <<1, 2>> >> >>

(***************************************************************************)
(* X4. transformations                                                       *)
(***************************************************************************)
\* user-defined polynomial transformations g (coefficients c0, c1, ...): 2x, x + x^3,
\* -1 + 3x + 2x^2, 1 - 2x (decreasing)
XGSeq == << <<0, 2>>, <<0, 1, 0, 1>>, <<-1, 3, 2>>, <<1, -2>> >>
XGPoly(i_) == PFromInts(XGSeq[i_])
PolyOfQ(q_) == PNorm({<<i_ - 1, q_[i_]>> : i_ \in 1..Len(q_)})
XN(t_) == [cls |-> t_.cls, p |-> t_.p, inv |-> t_.inv, dom |-> t_.dom, inv2 |-> FALSE, kw |-> "none"]
XMk(cls_, ps_, dom_, inv_, inv2_, kw_) ==
    [i_ \in 1..Len(ps_) |-> [cls |-> cls_, p |-> ps_[i_], inv |-> inv_, dom |-> dom_, inv2 |-> inv2_, kw |-> kw_]]
XPolyTfs(dom_) == [i_ \in 1..Len(XGSeq) |->
                     [cls |-> "Poly", p |-> [j_ \in 1..Len(XGSeq[i_]) |-> QI(XGSeq[i_][j_])],
                      inv |-> FALSE, dom |-> dom_, inv2 |-> FALSE, kw |-> "none"]]
XUnitTfs == [i_ \in 1..Len(UnitTfs) |-> XN(UnitTfs[i_])]
         \o XMk("BeckeRTransform", << << <<1, 10>>, <<3, 2>> >> >>, "unit", TRUE, TRUE, "none")
         \o XMk("KnowlesRTransform", << << <<0, 1>>, <<1, 1>>, <<2, 1>> >> >>, "unit", TRUE, TRUE, "none")
         \o XMk("BeckeRTransform", << << <<1, 10>>, <<1, 1>> >> >>, "unit", FALSE, FALSE, "trim_inf=False")
         \o XPolyTfs("unit")
XHalfTfs == [i_ \in 1..Len(HalfTfs) |-> XN(HalfTfs[i_])]
         \o XMk("ExpRTransform", Cart3(RposSeq, RmaxSeq, BSeq), "half", TRUE, FALSE, "none")
         \o XMk("PowerRTransform", Cart3(RposSeq, RmaxSeq, BSeq), "half", TRUE, FALSE, "none")
         \o XMk("LinearInfiniteRTransform", Cart3(RminSeq, RmaxSeq, BSeq), "half", TRUE, FALSE, "none")
         \o XMk("IdentityRTransform", << << >> >>, "half", TRUE, FALSE, "none")
         \o XPolyTfs("half")
XNativeUnit(c_) == c_ \in {"BeckeRTransform", "LinearFiniteRTransform", "MultiExpRTransform",
                           "KnowlesRTransform", "HandyRTransform", "HandyModRTransform"}
\* admitted at the end point x = -1 of the native domain (r = rmin for the inverse): g(-1) finite, g'(-1)
\* finite and # 0, AND the closed forms of g', g'', g''' in grid.rtransform finite there.  The classes with an
\* exponent (Knowles, Handy, HandyMod) are regular maps at -1 for exponent 1, but their derivative formulas
\* contain (1 + x)^(k - 2): the end-point behaviour of those formulas is the subject of C03, not of C15.
XRegularUnitLo(t_) == t_.cls \in {"BeckeRTransform", "LinearFiniteRTransform"}
XEffInv(t_) == t_.inv /\ ~t_.inv2          \* an even number of inverse wrappers is the map itself
XBase(t_, inv_, dom_) == [cls |-> t_.cls, p |-> t_.p, inv |-> inv_, dom |-> dom_]
XAdmissible(t_, iv_) ==
    LET q_ == t_.p IN
    IF t_.cls = "Poly" THEN SignOn(PDer(PolyOfQ(q_)), iv_.x0, iv_.x1) \in {1, -1}
    ELSE IF XNativeUnit(t_.cls)
    THEN (IF XEffInv(t_)
          THEN /\ iv_.dom = "half"
               /\ Admissible(XBase(t_, TRUE, "half"), iv_.x0, iv_.x1)
               /\ (QEq(q_[1], iv_.x0) => XRegularUnitLo(t_))
          ELSE /\ iv_.dom = "unit"
               /\ Admissible(XBase(t_, FALSE, "unit"), iv_.x0, iv_.x1)
               /\ (iv_.closed = "lo" => XRegularUnitLo(t_))
               /\ (iv_.closed = "hi" => t_.cls = "LinearFiniteRTransform"))
    ELSE /\ iv_.dom = "half"
         /\ Admissible(XBase(t_, FALSE, "half"), iv_.x0, iv_.x1)
         /\ (XEffInv(t_) /\ t_.cls # "IdentityRTransform" => QLe(q_[1], iv_.x0) /\ QLe(iv_.x1, q_[2]))
XAdm(iv_) == LET T(t_) == XAdmissible(t_, iv_)
             IN SelectSeq(IF iv_.dom = "unit" THEN XUnitTfs ELSE XHalfTfs, T)
XAdmTab == Force([i_ \in 1..NXIv |-> XAdm(XIntervals[i_])])
\* Affine maps (g'' = 0; the inverse of an affine map is affine).  A condition on d^2 y/dr^2 is, in the original
\* variable, the condition  y'' - (g''/g') y' = g'^2 C : for a non-affine g a TWO-POINT pattern with a second-
\* derivative condition is a different boundary-value problem, whose unique solvability does not follow from
\* that of the problem in x (example met while calibrating: y''' = 0 on [-1/2, 1/2] with y(x0), y(x1), Y_rr(x1)
\* prescribed through KnowlesRTransform(., ., 1) has (g''/g')(x1) (x1 - x0) = 2 and is singular).  Such patterns
\* are therefore assigned to affine maps only; first-derivative conditions (Y_r = y'/g') and one-sided patterns
\* (a jet at one point, mapped by an invertible matrix) are equivalent in both variables.
XAffine(t_) == \/ t_.cls \in {"LinearFiniteRTransform", "LinearInfiniteRTransform", "IdentityRTransform"}
               \/ t_.cls = "Poly" /\ Len(t_.p) = 2
XAffTab == Force([i_ \in 1..NXIv |-> SelectSeq(XAdmTab[i_], XAffine)])
XTwoPointSecond(pat_) == /\ \E c_ \in 1..Len(pat_) : pat_[c_][2] = 2
                         /\ \E c_ \in 1..Len(pat_) : \E e_ \in 1..Len(pat_) : pat_[c_][1] # pat_[e_][1]

(***************************************************************************)
(* X5. call forms (program dimensions) and their assignment                  *)
(***************************************************************************)
XMethods == <<"DOP853", "RK45", "Radau", "RK23", "BDF", "LSODA", "default", "class:RK45">>
\* initial data: float32 only where the data are exactly representable (polynomial solutions at
\* dyadic points); the others carry the float64 values
XY0Forms(fam_) == IF XIsPoly(fam_)
                  THEN <<"list-float", "ndarray-float64", "ndarray-float32", "ndarray-longdouble">>
                  ELSE <<"list-float", "ndarray-float64", "ndarray-longdouble">>
XSpanForms(iv_) == IF iv_.closed # "no"
                   THEN <<"tuple-int", "tuple-npint64", "ndarray-int", "list-float", "ndarray-float32">>
                   ELSE <<"tuple-float", "list-float", "ndarray-float64", "ndarray-float32">>
XContForms(cs_) == IF \A k1_ \in 1..Len(cs_) : cs_[k1_].kind = "const"
                   THEN <<"list", "ndarray", "list">> ELSE <<"list">>
XCTypes == <<"int-or-float", "float", "np.float64", "np.float32", "np.int64-or-float64">>
XNoDerivs == <<FALSE, FALSE, TRUE>>
XBcForms == <<"tuples", "lists", "np-scalars">>
XGuess == <<"zeros", "none", "zeros">>
XMeshes == <<"uniform21", "two", "graded15", "uniform5">>
XFxForms == <<"broadcast", "natural">>
XPick(s_, k_) == s_[(k_ % Len(s_)) + 1]
XTfPair(n_, s_, iv_, affine_) ==
    LET adm_ == IF affine_ THEN XAffTab[iv_] ELSE XAdmTab[iv_] IN
    << adm_[((n_ * 7 + s_ * 3 + 13) % Len(adm_)) + 1], adm_[((n_ * 7 + s_ * 3 + 26) % Len(adm_)) + 1] >>
XSlots(n_, d_, cs_, pats_) ==
    LET fam_ == XYSeq[d_.y].fam iv_ == XIntervals[d_.iv] npat_ == Len(pats_) IN
    [s_ \in 1..(3 + npat_) |->
        [type |-> IF s_ <= 3 THEN "ivp" ELSE "bvp",
         method |-> IF s_ <= 3 THEN XPick(XMethods, n_ + 3 * s_) ELSE "-",
         dir |-> IF (n_ + s_) % 2 = 0 THEN "fwd" ELSE "bwd",
         pattern |-> IF s_ <= 3 THEN 0 ELSE s_ - 3,
         tfs |-> XTfPair(n_, s_, d_.iv, s_ > 3 /\ XTwoPointSecond(pats_[s_ - 3])),
         y0form |-> XPick(XY0Forms(fam_), n_ + s_),
         spanform |-> XPick(XSpanForms(iv_), n_ + 2 * s_),
         cont |-> XPick(XContForms(cs_), n_ + s_),
         ctype |-> XPick(XCTypes, n_ \div 2 + s_),
         nd |-> XPick(XNoDerivs, n_ + s_),
         bcform |-> XPick(XBcForms, n_ \div 3 + 2 * s_),
         guess |-> XPick(XGuess, n_ \div 5 + s_),
         mesh |-> XPick(XMeshes, n_ \div 2 + 3 * s_),
         fxform |-> XPick(XFxForms, n_ \div 2 + s_)]]

XRecord(n_) ==
    LET d_ == XDecode(n_) iv_ == XIntervals[d_.iv] y_ == XYSeq[d_.y] cs_ == XCoefs(n_)
        pats_ == XBcPatterns(d_.ord, XWellPosed2(cs_))
    IN [id |-> n_, ord |-> d_.ord, iv |-> iv_.name, dom |-> iv_.dom, closed |-> iv_.closed,
        x0 |-> iv_.x0, x1 |-> iv_.x1, yfam |-> y_.fam, draw |-> d_.draw,
        a |-> cs_,
        f |-> XApplyE(cs_, y_.t),
        jet |-> [k1_ \in 1..d_.ord |-> Dn(y_.t, "x", k1_ - 1)],
        pts |-> Points(iv_),
        bvp |-> pats_,
        slots |-> XSlots(n_, d_, cs_, pats_)]

(***************************************************************************)
(* exact helper cases with polynomial transformations and coefficients       *)
(***************************************************************************)
XCoefPts == << <<-1, 2>>, <<0, 1>>, <<1, 1>>, <<2, 1>>, <<-1, 1>> >>
NXCoef == Len(XGSeq) * Len(AFaaSeq)
XQJet(y_, x_, n_) == [k1_ \in 1..n_ |-> PEval(PDerN(y_, k1_ - 1), x_)]
XCoefCase(n_) ==
    LET gi_ == ((n_ - 1) \div Len(AFaaSeq)) + 1
        ai_ == ((n_ - 1) % Len(AFaaSeq)) + 1
        g_ == XGPoly(gi_) as_ == AFaaSeq[ai_] K_ == Len(as_) - 1
        bp_ == CoefTransformP(as_, g_)
        ypoly_ == YFaaSeq[((n_ - 1) % Len(YFaaSeq)) + 1]          \* any jet and right-hand side value
        at_(x_) == LET b_ == [j1_ \in 1..K_ + 1 |-> PEval(bp_[j1_], x_)]
                       ys_ == XQJet(ypoly_, x_, K_)
                       fv_ == PEval(PDerN(ypoly_, 1), x_)
                   IN [x |-> x_, b |-> b_, y |-> ys_, f |-> fv_,
                       M |-> BellMatrix([i_ \in 1..3 |-> PEval(GDer(g_)[i_], x_)], 3),
                       rhs |-> ExplicitRhs(b_, ys_, fv_)]
    IN [id |-> n_, g |-> XGSeq[gi_], a |-> [k1_ \in 1..K_ + 1 |-> IntSeq(as_[k1_])], ord |-> K_,
        at |-> [m_ \in 1..Len(XCoefPts) |-> at_(XCoefPts[m_])]]

(***************************************************************************)
(* the model                                                                 *)
(***************************************************************************)
XInit == pc = "idle" /\ blk = 0 /\ idx = 0
XPickProb == /\ pc = "idle" /\ \E b_ \in 0..((NXP - 1) \div BlockSize) : blk' = b_
             /\ pc' = "xblock" /\ UNCHANGED idx
XPickInBlock == /\ pc = "xblock"
                /\ \E j_ \in 1..BlockSize : blk * BlockSize + j_ <= NXP /\ idx' = blk * BlockSize + j_
                /\ pc' = "xprob" /\ UNCHANGED blk
XPickCoef == /\ pc = "idle" /\ \E n_ \in 1..NXCoef : idx' = n_
             /\ pc' = "xcoef" /\ UNCHANGED blk
XPickIv == /\ pc = "idle" /\ \E n_ \in 1..NXIv : idx' = n_
           /\ pc' = "xiv" /\ UNCHANGED blk
XNext == XPickProb \/ XPickInBlock \/ XPickCoef \/ XPickIv
XSpec == XInit /\ [][XNext]_vars

XEnv(x_) == [v_ \in {"x"} |-> x_]
\* points of the exact laws on the derivative trees (small numerators: TLC integers are 32-bit; the laws are
\* about the trees, not about the interval)
XLawPts == << <<-1, 1>>, <<-1, 2>>, <<0, 1>>, <<1, 2>>, <<1, 1>> >>
\* (X-I1) derivative trees = closed forms on the rational families; residual identity exact when the whole
\*        problem is rational; declared signs hold at the sample points; leading coefficient has a sign
XProblemSound ==
    pc = "xprob" =>
        LET d_ == XDecode(idx) iv_ == XIntervals[d_.iv] y_ == XYSeq[d_.y] cs_ == XCoefs(idx)
            pts_ == Points(iv_) r_ == XRecord(idx)
            allrat_ == XIsRat(y_.fam) /\ \A k1_ \in 1..Len(cs_) : IsRational(cs_[k1_].t)
        IN
        /\ Len(cs_) = d_.ord + 1 /\ cs_[d_.ord + 1].sg \in {1, -1}
        /\ \A k1_ \in 1..Len(cs_) : IsRational(cs_[k1_].t) =>
              \A m_ \in 1..Len(pts_) :
                 LET v_ == QSgn(EvalQ(cs_[k1_].t, XEnv(pts_[m_]))) IN cs_[k1_].sg = 2 \/ v_ = cs_[k1_].sg
        /\ XIsRat(y_.fam) =>
              \A m_ \in 1..Len(XLawPts) : \A k_ \in 0..d_.ord :
                 EvalQ(Dn(y_.t, "x", k_), XEnv(XLawPts[m_])) = XClosedJet(y_.fam, k_, XLawPts[m_])
        /\ allrat_ =>
              \A m_ \in 1..Len(XLawPts) :
                 EvalQ(r_.f, XEnv(XLawPts[m_]))
                   = QSum([k1_ \in 1..Len(cs_) |->
                             QMul(EvalQ(cs_[k1_].t, XEnv(XLawPts[m_])), XClosedJet(y_.fam, k1_ - 1, XLawPts[m_]))])
        /\ pts_[1] = iv_.x0 /\ pts_[Len(pts_)] = iv_.x1
        /\ \A n_ \in 1..Len(r_.bvp) : Len(r_.bvp[n_]) = d_.ord
        /\ \A n_ \in 1..Len(r_.bvp) : \A c_ \in 1..d_.ord : r_.bvp[n_][c_][2] < d_.ord
        /\ \A s_ \in 1..Len(r_.slots) : \A j_ \in 1..2 : XAdmissible(r_.slots[s_].tfs[j_], iv_)
        /\ \A s_ \in 1..Len(r_.slots) :
              (r_.slots[s_].type = "bvp" /\ XTwoPointSecond(r_.bvp[r_.slots[s_].pattern]) =>
                  \A j_ \in 1..2 : XAffine(r_.slots[s_].tfs[j_]))
        /\ \A s_ \in 1..Len(r_.slots) :
              (r_.slots[s_].cont # "list" => \A k1_ \in 1..Len(cs_) : cs_[k1_].kind = "const")
\* (X-I2) polynomial transformations: monotone where admitted; the transformed equation is satisfied by the
\*        transformed solution (polynomial identity), Faa di Bruno for g of XGSeq; emitted values consistent
XCoefSound ==
    pc = "xcoef" =>
        LET c_ == XCoefCase(idx)
            g_ == XGPoly(((idx - 1) \div Len(AFaaSeq)) + 1)
            as_ == AFaaSeq[((idx - 1) % Len(AFaaSeq)) + 1]
        IN
        /\ \A n_ \in 1..Len(YFaaSeq) :
              /\ ApplyOde(as_, PCompose(YFaaSeq[n_], g_)) = ApplyTransformed(as_, g_, YFaaSeq[n_])
              /\ \A i_ \in 1..3 : FaaLhs(YFaaSeq[n_], g_, i_) = FaaRhs(YFaaSeq[n_], g_, i_)
        /\ \A m_ \in 1..Len(c_.at) :
              LET e_ == c_.at[m_] IN
              /\ e_.b[1] = PEval(as_[1], e_.x)
              /\ e_.b[c_.ord + 1] = QMul(PEval(as_[c_.ord + 1], e_.x), QPow(PEval(PDer(g_), e_.x), c_.ord))
              /\ (e_.b[c_.ord + 1][1] # 0 =>
                    QAdd(QSum([k1_ \in 1..c_.ord |-> QMul(e_.b[k1_], e_.y[k1_])]),
                         QMul(e_.b[c_.ord + 1], e_.rhs)) = e_.f)
\* (X-I3) every interval has at least two admissible transformations, all five intervals reach classes of both
\*        kinds; the boundary rule really excludes something (non-vacuity)
XIntervalSound ==
    pc = "xiv" =>
        LET iv_ == XIntervals[idx] adm_ == XAdmTab[idx] IN
        /\ Len(adm_) >= 2 /\ Len(XAffTab[idx]) >= 2
        /\ \E i_ \in 1..Len(adm_) : adm_[i_].cls = "Poly"
        /\ \E i_ \in 1..Len(adm_) : adm_[i_].cls # "Poly"
        /\ (iv_.closed = "lo" /\ iv_.dom = "unit" =>
               /\ \E i_ \in 1..Len(adm_) : adm_[i_].cls = "BeckeRTransform"
               /\ \A i_ \in 1..Len(adm_) : adm_[i_].cls # "MultiExpRTransform")
        /\ (iv_.closed = "hi" => \A i_ \in 1..Len(adm_) : adm_[i_].cls \in {"Poly", "LinearFiniteRTransform"})
        /\ \A i_ \in 1..Len(adm_) : adm_[i_].cls = "Poly" =>
              SignOn(PDer(PolyOfQ(adm_[i_].p)), iv_.x0, iv_.x1) \in {1, -1}       \* monotone where admitted
        /\ (idx = 3 => \A i_ \in 1..Len(adm_) : adm_[i_].p # <<QI(-1), QI(3), QI(2)>>)   \* -1+3x+2x^2 turns at -3/4
XWitness ==
    /\ NXP = NXIv * 3 * NXY * NXDraw
    /\ \E n_ \in 1..12 : XWellPosed2(XCoefs(NXDraw * NXY + n_))
    /\ \E n_ \in 1..12 : ~XWellPosed2(XCoefs(NXDraw * NXY + n_))

XEmit == JsonSerialize("odex.json",
            [probs |-> [n_ \in 1..NXP |-> XRecord(n_)],
             coef |-> [n_ \in 1..NXCoef |-> XCoefCase(n_)],
             adm |-> [i_ \in 1..NXIv |-> [iv |-> XIntervals[i_].name, n |-> Len(XAdmTab[i_])]],
             methods |-> XMethods])
ASSUME XEmit
=============================================================================
