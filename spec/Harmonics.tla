------------------------------ MODULE Harmonics ------------------------------
(***************************************************************************)
(* Real spherical harmonics from their DEFINING formula (property C08),    *)
(* the oracle that C02 / C09 / C14 lean on.                                *)
(*                                                                         *)
(*   P_l(x)      = 2^-l SUM_k (-1)^k C(l,k) C(2l-2k,l) x^(l-2k)             *)
(*   P_l^m(phi)  = (sin phi)^m * (d/dx)^m P_l (x := cos phi)    (NO Condon-*)
(*                 Shortley phase)                                         *)
(*   Y_l0        = N_l0 P_l(cos phi)                                       *)
(*   Y_lm, m > 0 = N_lm sqrt2 cos(m theta) P_l^m(phi)                      *)
(*   Y_l-m       = N_lm sqrt2 sin(m theta) P_l^m(phi)                      *)
(*   N_lm        = sqrt((2l+1) (l-m)! / (4 pi (l+m)!))                     *)
(*   theta = azimuth, phi = polar angle (the library's naming)             *)
(*   row of (l,m) in an array of all harmonics: l^2 + (0 | 2m-1 | 2|m|)    *)
(*   ("Horton 2" order m = 0, 1, -1, 2, -2, ...)                           *)
(*                                                                         *)
(* The m-fold derivative is NOT written down: it is computed by Expr!D.    *)
(* The angular derivatives of Y_lm are D(Y, "theta"), D(Y, "phi").         *)
(* The formula is analytic in both angles; outside the principal range it  *)
(* is the harmonic at the point (sin phi cos theta, sin phi sin theta,     *)
(* cos phi) of the sphere.                                                 *)
(*                                                                         *)
(* Two consumers of the same definitions:                                  *)
(*  (1) trees for all (l,m), l <= LTree, serialised for vf/expr_eval.py;   *)
(*  (2) TLC itself, on the Pythagorean-angle lattice (cos and sin of both  *)
(*      angles rational).  There Y_lm = sqrt(NormSq(l,m)/pi) * A_lm with   *)
(*      NormSq and A_lm RATIONAL, so the addition theorem, parity, pole    *)
(*      values, orthonormality (exact polynomial integration) and          *)
(*      Cart(Sph(p)) = p are exact identities that TLC decides.            *)
(*                                                                         *)
(* TLC integers are 32 bit and overflow is an error: constants that would  *)
(* overflow when folded are kept as unevaluated "div"/"mul" nodes in the   *)
(* trees (the harness evaluates them with unbounded integers), and the     *)
(* exact lattice arithmetic uses cross-cancelling rational operations and  *)
(* a static size budget (Feasible) per identity instance.                  *)
(***************************************************************************)
EXTENDS Expr, FiniteSets, TLC, Json

CONSTANTS LTree,    \* trees are emitted for l <= LTree (<= 12: 13! overflows)
          LExact,   \* exact lattice identities are decided for l <= LExact (size budget permitting)
          LOrth,    \* exact orthonormality (polynomial integration) for l <= LOrth
          LRow,     \* row-order laws are decided for l <= LRow
          EmitFile  \* "" = do not emit; else name of the JSON file for the trees

Force(f_) == IF f_ = f_ THEN f_ ELSE f_

(***************************************************************************)
(* Integer helpers                                                         *)
(***************************************************************************)
RECURSIVE Fact(_)
Fact(n_) == IF n_ <= 1 THEN 1 ELSE n_ * Fact(n_ - 1)
RECURSIVE Binom(_, _)
Binom(n_, k_) == IF k_ < 0 \/ k_ > n_ THEN 0
                 ELSE IF k_ = 0 THEN 1 ELSE (Binom(n_, k_ - 1) * (n_ - k_ + 1)) \div k_
RECURSIVE IPow(_, _)
IPow(b_, k_) == IF k_ = 0 THEN 1 ELSE b_ * IPow(b_, k_ - 1)
SignPow(k_) == IF k_ % 2 = 0 THEN 1 ELSE -1         \* (-1)^k
RECURSIVE Falling(_, _)
Falling(n_, k_) == IF k_ = 0 THEN 1 ELSE n_ * Falling(n_ - 1, k_ - 1)   \* n (n-1) ... (n-k+1)

(***************************************************************************)
(* Cross-cancelling rational arithmetic (keeps intermediates as small as   *)
(* the reduced results; Exact!QMul / QAdd multiply before reducing).       *)
(***************************************************************************)
XMul(a_, b_) ==
    IF a_[1] = 0 \/ b_[1] = 0 THEN QZero
    ELSE LET g1 == Gcd(Abs(a_[1]), b_[2])
             g2 == Gcd(Abs(b_[1]), a_[2])
         IN <<(a_[1] \div g1) * (b_[1] \div g2), (a_[2] \div g2) * (b_[2] \div g1)>>
XAdd(a_, b_) ==
    LET g == Gcd(a_[2], b_[2])
        n == a_[1] * (b_[2] \div g) + b_[1] * (a_[2] \div g)
    IN Q(n, (a_[2] \div g) * b_[2])       \* numerator over the lcm, then reduced
XSub(a_, b_) == XAdd(a_, QNeg(b_))
RECURSIVE XPow(_, _)
XPow(a_, k_) == IF k_ = 0 THEN QOne ELSE XMul(a_, XPow(a_, k_ - 1))
RECURSIVE XSumTo(_, _, _)
\* SUM_{i = lo..hi} f[i] for a function f of rationals
XSumTo(f_, lo_, hi_) == IF lo_ > hi_ THEN QZero ELSE XAdd(f_[lo_], XSumTo(f_, lo_ + 1, hi_))

(***************************************************************************)
(* Row order ("Horton 2")                                                  *)
(***************************************************************************)
Row(l_, m_) == l_ * l_ + (IF m_ = 0 THEN 0 ELSE IF m_ > 0 THEN 2 * m_ - 1 ELSE -2 * m_)
LM(lmax_) == {<<l_, m_>> \in (0..lmax_) \X (-lmax_..lmax_) : -l_ <= m_ /\ m_ <= l_}
NRows(lmax_) == (lmax_ + 1) * (lmax_ + 1)
\* the order m = 0, 1, -1, 2, -2, ..., l, -l stated directly, as a sequence
RECURSIVE OrderOfDegree(_, _)
OrderOfDegree(l_, k_) == IF k_ > l_ THEN <<>> ELSE <<k_, -k_>> \o OrderOfDegree(l_, k_ + 1)
MSeq(l_) == <<0>> \o OrderOfDegree(l_, 1)

(***************************************************************************)
(* Definition trees                                                        *)
(***************************************************************************)
Theta == V("theta")
Phi   == V("phi")
X     == V("x")

LegNum(l_, k_) == SignPow(k_) * Binom(l_, k_) * Binom(2 * l_ - 2 * k_, l_)
\* a coefficient that is never folded into a neighbouring constant (see header)
RawQ(n_, d_) == Bin("div", CI(n_), CI(d_))
LegTerm(l_, k_) == Bin("mul", RawQ(LegNum(l_, k_), IPow(2, l_)), Pow(X, l_ - 2 * k_))
RECURSIVE LegSum(_, _)
LegSum(l_, k_) == IF k_ = 0 THEN LegTerm(l_, 0) ELSE Add(LegSum(l_, k_ - 1), LegTerm(l_, k_))
LegTree(l_) == LegSum(l_, l_ \div 2)                         \* P_l(x), explicit sum

RECURSIVE DN(_, _, _)
DN(e_, x_, n_) == IF n_ = 0 THEN e_ ELSE D(DN(e_, x_, n_ - 1), x_)
LegDerTree(l_, m_) == DN(LegTree(l_), "x", m_)                \* (d/dx)^m P_l, m >= 0
AssocTree(l_, m_) ==                                          \* P_l^m(phi), m >= 0
    Mul(Pow(Sin(Phi), m_), Subst(LegDerTree(l_, m_), "x", Cos(Phi)))

RECURSIVE RawFact(_)
RawFact(n_) == IF n_ <= 1 THEN CI(1) ELSE Bin("mul", CI(n_), RawFact(n_ - 1))
NormTree(l_, m_) ==   \* N_lm, m >= 0
    Sqrt(Bin("div", Bin("mul", CI(2 * l_ + 1), RawFact(l_ - m_)),
                    Bin("mul", Bin("mul", CI(4), Pi), RawFact(l_ + m_))))
AziTree(m_) == IF m_ = 0 THEN CI(1)
               ELSE IF m_ > 0 THEN Mul(Sqrt(CI(2)), Cos(Mul(CI(m_), Theta)))
               ELSE Mul(Sqrt(CI(2)), Sin(Mul(CI(-m_), Theta)))
YTree(l_, m_) == Mul(Mul(NormTree(l_, Abs(m_)), AziTree(m_)), AssocTree(l_, Abs(m_)))
DThetaTree(l_, m_) == D(YTree(l_, m_), "theta")
DPhiTree(l_, m_)   == D(YTree(l_, m_), "phi")
\* solid harmonic R_lm(r, theta, phi) = sqrt(4 pi / (2l+1)) r^l Y_lm
SolidTree(l_, m_) ==
    Mul(Mul(Sqrt(Bin("div", Bin("mul", CI(4), Pi), CI(2 * l_ + 1))), Pow(V("r"), l_)), YTree(l_, m_))
\* Legendre polynomial of the cosine of the angle between two directions (addition theorem)
LegAtTree(l_) == Subst(LegTree(l_), "x", V("cosgamma"))

\* spherical parametrisation about a centre (cx, cy, cz) and its Jacobian, derived by D
CartTree == <<Add(V("cx"), Mul(V("r"), Mul(Sin(Phi), Cos(Theta)))),
              Add(V("cy"), Mul(V("r"), Mul(Sin(Phi), Sin(Theta)))),
              Add(V("cz"), Mul(V("r"), Cos(Phi)))>>
SphVars == <<"r", "theta", "phi">>
JacTree == [i_ \in 1..3 |-> [j_ \in 1..3 |-> D(CartTree[i_], SphVars[j_])]]   \* d x_i / d q_j

(***************************************************************************)
(* Exact values on the Pythagorean-angle lattice.                          *)
(* An angle pair is a record [ct, st, cp, sp] of rationals = cos/sin of    *)
(* theta and phi.                                                          *)
(***************************************************************************)
Ang(ct_, st_, cp_, sp_) == [ct |-> ct_, st |-> st_, cp |-> cp_, sp |-> sp_]
IsAngle(a_) == /\ XAdd(XMul(a_.ct, a_.ct), XMul(a_.st, a_.st)) = QOne
               /\ XAdd(XMul(a_.cp, a_.cp), XMul(a_.sp, a_.sp)) = QOne

\* unit circle points with denominator 1, 5, 13
Axis4  == {<<QI(1), QI(0)>>, <<QI(0), QI(1)>>, <<QI(-1), QI(0)>>, <<QI(0), QI(-1)>>}
Pyth(a_, b_, h_) == {<<Q(s1_ * a_, h_), Q(s2_ * b_, h_)>> : s1_ \in {-1, 1}, s2_ \in {-1, 1}}
                    \cup {<<Q(s1_ * b_, h_), Q(s2_ * a_, h_)>> : s1_ \in {-1, 1}, s2_ \in {-1, 1}}
Circle5  == Pyth(3, 4, 5)
Circle13 == Pyth(5, 12, 13)
Upper(S_) == {p_ \in S_ : p_[2][1] >= 0}         \* sin >= 0: principal polar range
MkAngles(T_, P_) == {Ang(t_[1], t_[2], p_[1], p_[2]) : t_ \in T_, p_ \in P_}

\* class 1: direction vectors with coordinates in {0, +-3/5, +-4/5, +-1} (incl. poles, equator)
Lattice1 == MkAngles(Axis4, Upper(Axis4 \cup Circle5)) \cup MkAngles(Circle5, {<<QI(0), QI(1)>>})
\* class 2: generic directions, denominator 25 or 13 or 65; and polar angles outside the
\* principal range (sin phi < 0), where the defining formula continues analytically
Lattice2 == MkAngles({<<Q(3, 5), Q(4, 5)>>, <<Q(-4, 5), Q(3, 5)>>, <<Q(4, 5), Q(-3, 5)>>},
                     {<<Q(3, 5), Q(4, 5)>>, <<Q(-4, 5), Q(3, 5)>>})
            \cup MkAngles({<<QI(1), QI(0)>>, <<QI(0), QI(-1)>>}, {<<Q(5, 13), Q(12, 13)>>, <<Q(-12, 13), Q(5, 13)>>})
            \cup MkAngles({<<Q(5, 13), Q(12, 13)>>, <<Q(-12, 13), Q(-5, 13)>>}, {<<QI(0), QI(1)>>})
            \cup MkAngles({<<Q(12, 13), Q(-5, 13)>>}, {<<Q(4, 5), Q(3, 5)>>})
            \cup MkAngles({<<QI(0), QI(1)>>, <<Q(3, 5), Q(4, 5)>>}, {<<Q(3, 5), Q(-4, 5)>>, <<Q(-4, 5), Q(-3, 5)>>})
LatticeSet == Lattice1 \cup Lattice2

\* a fixed enumeration of the lattice (TLC's CHOOSE is deterministic)
RECURSIVE SetToSeq(_)
SetToSeq(S_) == IF S_ = {} THEN <<>> ELSE LET x_ == CHOOSE y_ \in S_ : TRUE IN <<x_>> \o SetToSeq(S_ \ {x_})
Lattice == SetToSeq(LatticeSet)
NLat == Len(Lattice)

\* denominator of the direction vector (sin phi cos theta, sin phi sin theta, cos phi)
Dir(a_) == <<XMul(a_.sp, a_.ct), XMul(a_.sp, a_.st), a_.cp>>
Lcm(p_, q_) == (p_ \div Gcd(p_, q_)) * q_
\* size measure of an angle pair: A(l, m, a) has a denominator dividing (2 Den(a))^l
Den(a_) == Lcm(a_.ct[2], a_.st[2]) * Lcm(a_.cp[2], a_.sp[2])
Dot(a_, b_) == LET u_ == Dir(a_) v_ == Dir(b_) IN
               XAdd(XAdd(XMul(u_[1], v_[1]), XMul(u_[2], v_[2])), XMul(u_[3], v_[3]))
\* theta + pi, pi - phi
Antipode(a_) == Ang(QNeg(a_.ct), QNeg(a_.st), QNeg(a_.cp), a_.sp)

\* cos(m theta), sin(m theta) from cos theta, sin theta by the angle-addition recurrence
RECURSIVE CosSinM(_, _, _)
CosSinM(m_, c_, s_) ==
    IF m_ = 0 THEN <<QOne, QZero>>
    ELSE LET p_ == CosSinM(m_ - 1, c_, s_) IN
         <<XSub(XMul(p_[1], c_), XMul(p_[2], s_)), XAdd(XMul(p_[2], c_), XMul(p_[1], s_))>>

\* exact evaluation of a rational tree with the cross-cancelling arithmetic
RECURSIVE EvalX(_, _)
EvalX(e_, env_) ==
    CASE e_.op = "c" -> <<e_.n, e_.d>>
      [] e_.op = "v" -> env_[e_.name]
      [] e_.op = "neg" -> QNeg(EvalX(e_.a, env_))
      [] e_.op = "add" -> XAdd(EvalX(e_.a, env_), EvalX(e_.b, env_))
      [] e_.op = "sub" -> XSub(EvalX(e_.a, env_), EvalX(e_.b, env_))
      [] e_.op = "mul" -> XMul(EvalX(e_.a, env_), EvalX(e_.b, env_))
      [] e_.op = "div" -> XMul(EvalX(e_.a, env_), QInv(EvalX(e_.b, env_)))
      [] e_.op = "powi" -> XPow(EvalX(e_.a, env_), e_.k)

\* rational skeleton of Y_lm: Y_lm = sqrt(NormSq(l,m) / pi) * A(l, m, angle), where
\*   A = (1 | cos m theta | sin |m| theta) * (sin phi)^|m| * ((d/dx)^|m| P_l)(cos phi)
\* uses the SAME LegDerTree as the emitted trees; sqrt2 is inside NormSq
A(l_, m_, a_) ==
    LET k_ == Abs(m_)
        cs_ == CosSinM(k_, a_.ct, a_.st)
        azi_ == IF m_ >= 0 THEN cs_[1] ELSE cs_[2]
    IN XMul(XMul(azi_, XPow(a_.sp, k_)), EvalX(LegDerTree(l_, k_), [x |-> a_.cp]))
NormSq(l_, m_) ==     \* N_lm^2 * pi * (2 if m # 0), rational
    LET k_ == Abs(m_) IN
    XMul(Q((2 * l_ + 1) * (IF k_ = 0 THEN 1 ELSE 2), 4), Q(Fact(l_ - k_), Fact(l_ + k_)))
\* pi * Y_lm(a) * Y_lm(b)
YYpi(l_, m_, a_, b_) == XMul(XMul(NormSq(l_, m_), A(l_, m_, a_)), A(l_, m_, b_))
LegQ(l_, x_) == EvalX(LegTree(l_), [x |-> x_])

\* static size budget (32-bit integers): an instance is evaluated only if the denominators of
\* its reduced values stay below Cap
RECURSIVE BPow(_, _, _)
BPow(b_, k_, cap_) == IF k_ = 0 THEN 1
                      ELSE LET p_ == BPow(b_, k_ - 1, cap_) IN IF p_ > cap_ \div b_ THEN cap_ + 1 ELSE p_ * b_
Cap == 134217728    \* 2^27
Feasible1(l_, a_) == BPow(2 * Den(a_), l_, Cap) <= Cap
Feasible(l_, a_, b_) == BPow(4 * Den(a_) * Den(b_), l_, Cap) <= Cap
ATab == Force([t_ \in {<<l_, m_, i_>> \in (0..LExact) \X (-LExact..LExact) \X (1..NLat) :
                        -l_ <= m_ /\ m_ <= l_} |->
                 IF Feasible1(t_[1], Lattice[t_[3]]) THEN A(t_[1], t_[2], Lattice[t_[3]]) ELSE <<0, 0>>])
NormTab == Force([t_ \in LM(LExact) |-> NormSq(t_[1], t_[2])])

(***************************************************************************)
(* Polynomials over Q as functions 0..deg -> rational (exact integration   *)
(* for the orthonormality law).  The coefficients of (d/dx)^m P_l are      *)
(* written with the falling factorial - a second, independent route to the *)
(* m-fold derivative, proved equal to the D-route by DerivativeRoutesAgree.*)
(***************************************************************************)
PDeg(p_) == Cardinality(DOMAIN p_) - 1
LegDerPoly(l_, m_) ==
    [e_ \in 0..(l_ - m_) |->
        IF (l_ - m_ - e_) % 2 # 0 THEN QZero
        ELSE LET k_ == (l_ - m_ - e_) \div 2      \* term x^(l-2k) of P_l, l - 2k = e + m
             IN XMul(Q(LegNum(l_, k_), IPow(2, l_)), QI(Falling(e_ + m_, m_)))]
PMul(p_, q_) ==
    [e_ \in 0..(PDeg(p_) + PDeg(q_)) |->
        XSumTo([i_ \in 0..e_ |-> IF i_ <= PDeg(p_) /\ e_ - i_ <= PDeg(q_)
                                   THEN XMul(p_[i_], q_[e_ - i_]) ELSE QZero], 0, e_)]
RECURSIVE PPow(_, _)
PPow(p_, k_) == IF k_ = 0 THEN [e_ \in 0..0 |-> QOne] ELSE PMul(p_, PPow(p_, k_ - 1))
PEval(p_, x_) == XSumTo([e_ \in 0..PDeg(p_) |-> XMul(p_[e_], XPow(x_, e_))], 0, PDeg(p_))
\* integral over [-1, 1]: odd powers vanish, x^e -> 2/(e+1)
PInt(p_) == XSumTo([e_ \in 0..PDeg(p_) |-> IF e_ % 2 = 1 THEN QZero ELSE XMul(p_[e_], Q(2, e_ + 1))],
                   0, PDeg(p_))
OneMinusX2 == [e_ \in 0..2 |-> IF e_ = 0 THEN QOne ELSE IF e_ = 1 THEN QZero ELSE QI(-1)]
(***************************************************************************)
(* Spherical parametrisation on exact points                               *)
(***************************************************************************)
\* Cart(r, angle) about a centre c (integer / rational triples)
CartQ(c_, r_, a_) == LET v_ == Dir(a_) IN
    <<XAdd(c_[1], XMul(r_, v_[1])), XAdd(c_[2], XMul(r_, v_[2])), XAdd(c_[3], XMul(r_, v_[3]))>>
\* Sph(p) about c, DECLARATIVELY: the (r, angle) with r >= 0, sin phi >= 0 (phi in [0, pi]),
\* Cart(r, angle) = p, and the conventions theta = 0 on the z axis, theta = phi = 0 at r = 0.
\* Defined for integer p - c whose norm and xy-norm are integers.
SphQ(p_, c_) ==
    LET x_ == p_[1] - c_[1] y_ == p_[2] - c_[2] z_ == p_[3] - c_[3]
        rho_ == ISqrt(x_ * x_ + y_ * y_)
        r_ == ISqrt(x_ * x_ + y_ * y_ + z_ * z_)
    IN [r |-> QI(r_),
        ang |-> Ang(IF rho_ = 0 THEN QOne ELSE Q(x_, rho_), IF rho_ = 0 THEN QZero ELSE Q(y_, rho_),
                    IF r_ = 0 THEN QOne ELSE Q(z_, r_), IF r_ = 0 THEN QZero ELSE Q(rho_, r_))]
SphDefined(p_, c_) ==
    LET x_ == p_[1] - c_[1] y_ == p_[2] - c_[2] z_ == p_[3] - c_[3] IN
    IsSquare(x_ * x_ + y_ * y_) /\ IsSquare(x_ * x_ + y_ * y_ + z_ * z_)
PointBox == -12..12
Centres == {<<0, 0, 0>>, <<1, -2, 3>>, <<-4, 0, 7>>}

(***************************************************************************)
(* State machine: one identity instance per state (two-level choice).      *)
(***************************************************************************)
VARIABLES hk, hdeg, hone, htwo
hvars == <<hk, hdeg, hone, htwo>>

Kinds == {"addition", "parity", "pole", "routes", "orthonormal", "row", "sph"}

HInit == hk = <<"idle", "">> /\ hdeg = 0 /\ hone = 0 /\ htwo = 0
HPick == /\ hk[1] = "idle"
         /\ \E k_ \in Kinds : \E l_ \in 0..LExact : hk' = <<"pick", k_>> /\ hdeg' = l_
         /\ UNCHANGED <<hone, htwo>>
HCase == /\ hk[1] = "pick"
         /\ \/ /\ hk[2] = "addition"
               /\ \E i_ \in 1..NLat, j_ \in 1..NLat :
                     /\ Feasible(hdeg, Lattice[i_], Lattice[j_])
                     /\ hone' = i_ /\ htwo' = j_
            \/ /\ hk[2] \in {"parity", "pole"}
               /\ \E i_ \in 1..NLat : /\ Feasible1(hdeg, Lattice[i_]) /\ hone' = i_ /\ htwo' = 0
            \/ /\ hk[2] = "routes"
               /\ \E m_ \in 0..hdeg : hone' = m_ /\ htwo' = 0
            \/ /\ hk[2] = "orthonormal" /\ hdeg <= LOrth
               /\ \E m_ \in 0..hdeg, l2_ \in 0..LOrth : l2_ >= m_ /\ hone' = m_ /\ htwo' = l2_
            \/ /\ hk[2] = "row" /\ hdeg = 0 /\ \E l_ \in 0..LRow : hone' = l_ /\ htwo' = 0
            \/ /\ hk[2] = "sph" /\ hdeg = 0
               /\ \E x_ \in PointBox, y_ \in PointBox : hone' = x_ /\ htwo' = y_
         /\ hk' = <<"case", hk[2]>>
         /\ UNCHANGED hdeg
HNext == HPick \/ HCase
HSpec == HInit /\ [][HNext]_hvars

Is(k_) == hk = <<"case", k_>>
AT(l_, m_, i_) == ATab[<<l_, m_, i_>>]

\* SUM_m Y_lm(a) Y_lm(b) = (2l+1)/(4 pi) P_l(cos gamma)
RECURSIVE SumYY(_, _, _, _)
SumYY(l_, m_, i_, j_) ==
    IF m_ > l_ THEN QZero
    ELSE XAdd(XMul(XMul(NormTab[<<l_, m_>>], AT(l_, m_, i_)), AT(l_, m_, j_)), SumYY(l_, m_ + 1, i_, j_))
AdditionTheorem ==
    Is("addition") =>
        SumYY(hdeg, -hdeg, hone, htwo) = XMul(Q(2 * hdeg + 1, 4), LegQ(hdeg, Dot(Lattice[hone], Lattice[htwo])))
\* Y_lm(-n) = (-1)^l Y_lm(n)
Parity ==
    Is("parity") => \A m_ \in -hdeg..hdeg :
        A(hdeg, m_, Antipode(Lattice[hone])) = XMul(QI(SignPow(hdeg)), AT(hdeg, m_, hone))
\* at the poles only m = 0 survives, with Y_l0 = (+-1)^l sqrt((2l+1)/(4 pi))
PoleValues ==
    Is("pole") /\ Lattice[hone].sp = QZero => \A m_ \in -hdeg..hdeg :
        AT(hdeg, m_, hone) = IF m_ # 0 THEN QZero
                         ELSE IF Lattice[hone].cp = QOne THEN QOne ELSE QI(SignPow(hdeg))
\* the symbolic m-fold derivative (Expr!D) and the falling-factorial coefficients are the same
\* polynomial: they agree on more points than the degree
RoutePoints == {QI(0), QI(1), QI(-1), Q(3, 5), Q(-3, 5), Q(4, 5), Q(-4, 5), Q(1, 2), Q(-1, 2), Q(2, 3), Q(-1, 3)}
DerivativeRoutesAgree ==
    Is("routes") /\ hone <= hdeg => \A x_ \in RoutePoints :
        EvalX(LegDerTree(hdeg, hone), [x |-> x_]) = PEval(LegDerPoly(hdeg, hone), x_)
\* INT Y_{l m} Y_{l2 m} dOmega = [l = l2], exactly: with
\*   I = INT_{-1}^{1} (1-x^2)^m P_l^(m) P_l2^(m) dx  and  N^2 pi (2 if m#0) = NormSq
\* the overlap is sqrt(NormSq(l,m) NormSq(l2,m)) * (2 if m = 0 else 1) * I / ... ; squared:
OrthonormalExact ==
    Is("orthonormal") /\ hone <= hdeg =>
        LET m_ == hone l2_ == htwo
            polar_ == PInt(PMul(PPow(OneMinusX2, m_), PMul(LegDerPoly(hdeg, m_), LegDerPoly(l2_, m_))))
            azi_ == IF m_ = 0 THEN QI(2) ELSE QOne   \* INT azi^2 dtheta / pi, sqrt2^2 is in NormSq
            sq_ == XMul(XMul(NormSq(hdeg, m_), NormSq(l2_, m_)), XMul(XMul(azi_, azi_), XMul(polar_, polar_)))
        IN /\ sq_ = (IF hdeg = l2_ THEN QOne ELSE QZero)
           /\ hdeg = l2_ => QSgn(polar_) = 1
\* rows: the m-order of a degree is 0, 1, -1, ..., l, -l and degrees are stacked
RowOrder ==
    Is("row") =>
        LET l_ == hone IN
        /\ \A k_ \in 1..(2 * l_ + 1) : Row(l_, MSeq(l_)[k_]) = l_ * l_ + k_ - 1
        /\ Len(MSeq(l_)) = 2 * l_ + 1
        /\ {MSeq(l_)[k_] : k_ \in 1..(2 * l_ + 1)} = -l_..l_
        /\ Row(l_, -l_) + 1 = NRows(l_) /\ (l_ > 0 => Row(l_, 0) = NRows(l_ - 1))
\* Cart(Sph(p)) = p for every centre, with r >= 0 and phi in [0, pi]
CartSphInverse ==
    Is("sph") => \A z_ \in PointBox : \A c_ \in Centres :
        LET p_ == <<hone + c_[1], htwo + c_[2], z_ + c_[3]>> IN
        SphDefined(p_, c_) =>
            LET s_ == SphQ(p_, c_) IN
            /\ IsAngle(s_.ang) /\ s_.ang.sp[1] >= 0 /\ s_.r[1] >= 0
            /\ CartQ(<<QI(c_[1]), QI(c_[2]), QI(c_[3])>>, s_.r, s_.ang) = <<QI(p_[1]), QI(p_[2]), QI(p_[3])>>
LatticeIsLattice == \A i_ \in 1..NLat : IsAngle(Lattice[i_])

(***************************************************************************)
(* Emission (constant level, evaluated once)                               *)
(***************************************************************************)
RECURSIVE LMSeq(_, _)
LMSeq(l_, lmax_) == IF l_ > lmax_ THEN <<>>
                    ELSE [k_ \in 1..(2 * l_ + 1) |-> <<l_, MSeq(l_)[k_]>>] \o LMSeq(l_ + 1, lmax_)
LMTree == LMSeq(0, LTree)
LMExact == LMSeq(0, LExact)
TreeRec(l_, m_) == [l |-> l_, m |-> m_, row |-> Row(l_, m_),
                    y |-> YTree(l_, m_), dtheta |-> DThetaTree(l_, m_), dphi |-> DPhiTree(l_, m_),
                    solid |-> SolidTree(l_, m_)]
LatRec(i_) == LET a_ == Lattice[i_] IN
    [ct |-> a_.ct, st |-> a_.st, cp |-> a_.cp, sp |-> a_.sp,
     vals |-> [k_ \in 1..NRows(LExact) |->
                 LET lm_ == LMExact[k_] IN
                 \* <<l, m, row, A (rational), NormSq (rational)>>: Y = sqrt(NormSq/pi) * A
                 \* (A = <<0, 0>>: outside the 32-bit size budget, not evaluated)
                 <<lm_[1], lm_[2], Row(lm_[1], lm_[2]), AT(lm_[1], lm_[2], i_), NormTab[lm_]>>]]
\* expected conversions for integer points and centres: [p, c, r, ct, st, cp, sp]
EmitBox == -4..4
SphCases == {<<x_, y_, z_, c_>> \in EmitBox \X EmitBox \X PointBox \X Centres :
                SphDefined(<<x_ + c_[1], y_ + c_[2], z_ + c_[3]>>, c_)}
SphRec(t_) == LET c_ == t_[4] p_ == <<t_[1] + c_[1], t_[2] + c_[2], t_[3] + c_[3]>> s_ == SphQ(p_, c_) IN
    [p |-> p_, c |-> c_, r |-> s_.r[1], ct |-> s_.ang.ct, st |-> s_.ang.st, cp |-> s_.ang.cp, sp |-> s_.ang.sp]
Emission ==
    [ltree |-> LTree, lexact |-> LExact,
     trees |-> [k_ \in 1..NRows(LTree) |-> TreeRec(LMTree[k_][1], LMTree[k_][2])],
     legendre |-> [l_ \in 1..(LTree + 1) |-> LegAtTree(l_ - 1)],
     cart |-> CartTree, jac |-> JacTree,
     lattice |-> [i_ \in 1..NLat |-> LatRec(i_)],
     sph |-> LET sq_ == SetToSeq(SphCases) IN [i_ \in 1..Len(sq_) |-> SphRec(sq_[i_])]]
ASSUME EmitFile = "" \/ JsonSerialize(EmitFile, Emission)
=============================================================================
