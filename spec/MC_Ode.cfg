SPECIFICATION Spec
INVARIANT FaaDiBruno
INVARIANT TransformedOdeSatisfied
INVARIANT BellAgree
INVARIANT JetLaws
INVARIANT ProblemSound
INVARIANT CatalogueAdmissible
INVARIANT Witness
