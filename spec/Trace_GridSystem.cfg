SPECIFICATION TSpec
CONSTANTS
  Methods = {"lebedev", "maxdet"}
  Scaled = {"lebedev"}
  Degrees = {3, 5}
  NCen = 2
  MaxObjs = 5
  NBuf = 40
  Vals = {}
  GridSizes = {}
  QCen = {}
  Radii = {}
  Sels = {}
  FVals = {}
  AimVals = {}
  Tab <- TraceTab
  Shares <- ShippedShares
  Aliasing = "copying"
  Discipline = TRUE
INVARIANT FreshIsShipped
INVARIANT CacheClean
INVARIANT NoAliasCacheUser
INVARIANT TreeFresh
INVARIANT OwnershipDiscipline
INVARIANT FreshIsFresh
INVARIANT IntegralCorrect
INVARIANT MolWeightsAtBirth
PROPERTY CallerFrame
PROPERTY NoSpookyAction
