------------------------------ MODULE MC_Moments ------------------------------
(***************************************************************************)
(* C14.  TLC decides                                                       *)
(*   - for every order 0..MaxOrder, every type and (Cartesian) dimension   *)
(*     1..3: the loop nest of the code lists exactly the declarative row   *)
(*     set in the declarative Horton order; the stacked listing is indexed *)
(*     by the closed-form row arithmetic ((l,m) -> l^2 + ..., (n,l,m) ->   *)
(*     ..., Cartesian tuples) - hence these maps are bijections;           *)
(*   - for every (l, m), l <= MaxL: the explicit formula of the solid      *)
(*     harmonic is harmonic, homogeneous of degree l, has the documented   *)
(*     sign convention, and (l <= 4) satisfies Unsold's sum rule           *)
(*     sum_m R_lm^2 = r^(2l) - exactly, on an integer lattice;             *)
(*   - the dipole tree equals nuclear minus electronic first moments about *)
(*     the centre of mass (exactly, with small integer masses);            *)
(* emits the quadrature cases, the basis trees and the dipole trees, and   *)
(* judges the recorded observations: order listings (integers) and         *)
(* Cartesian moments (exact rationals).                                    *)
(***************************************************************************)
EXTENDS Moments, Json, Obs_moments      \* OrdersObs, ValueObs (generated; <<>> when emitting)

CONSTANTS MaxOrder, MaxL, Seed, NCases, CartL, PureL, NDipole, Emit

Lcg(x_) == (x_ * 1103 + 12345) % 65536
RECURSIVE LcgSeq(_, _)
LcgSeq(x_, n_) == IF n_ = 0 THEN <<>> ELSE <<Lcg(x_)>> \o LcgSeq(Lcg(x_), n_ - 1)
Pick(x_, m_) == (x_ \div 7) % m_

(***************************************************************************)
(* Quadrature cases: dim in 1..3, 2..5 points, coordinates integers in     *)
(* -2..2 ("int") or half-integers in -2..2 ("half"), integer weights 1..3, *)
(* integer function values -2..2, 1..3 centres.                            *)
(***************************************************************************)
Coord(kind_, x_) == IF kind_ = "int" THEN QI(Pick(x_, 5) - 2) ELSE Q(Pick(x_, 9) - 4, 2)
ValueCase(k_) ==
    LET dim == IF k_ <= 3 THEN 3 ELSE 1 + (k_ % 3)
        kind == IF k_ % 2 = 0 THEN "int" ELSE "half"
        s == LcgSeq((Seed * 733 + k_ * 4099 + 29) % 65536, 60)
        npts == 2 + Pick(s[1], 4)
        ncen == 1 + Pick(s[2], 3)
        pts == [x_ \in 1..npts |-> [r_ \in 1..dim |-> Coord(kind, s[2 + 3 * x_ + r_])]]
        cen0 == [x_ \in 1..ncen |-> [r_ \in 1..dim |-> Coord(kind, s[20 + 3 * x_ + r_])]]
        \* the first cases put a centre on a grid point (r = 0) / a point on the z axis through a centre
        cen == IF k_ = 1 THEN [cen0 EXCEPT ![1] = pts[1]]
               ELSE IF k_ = 2 THEN [cen0 EXCEPT ![1] = [pts[1] EXCEPT ![3] = QAdd(pts[1][3], QOne)]] ELSE cen0
    IN [dim |-> dim, kind |-> kind, pts |-> pts, centres |-> cen,
        wts |-> [x_ \in 1..npts |-> QI(1 + Pick(s[35 + x_], 3))],
        fvals |-> [x_ \in 1..npts |-> QI(Pick(s[45 + x_], 5) - 2)],
        lcart |-> IF kind = "int" THEN CartL ELSE Min2(CartL, 4),
        lpure |-> PureL]
ValueCases == [k_ \in 1..NCases |-> ValueCase(k_)]

\* dipole cases: 2..4 nuclei with charges from {1, 6, 7, 8}, half-integer positions, 3..5 density points
ZPool == <<1, 6, 8, 7>>
DipoleCase(k_) ==
    LET s == LcgSeq((Seed * 911 + k_ * 6007 + 41) % 65536, 60)
        nat == 2 + Pick(s[1], 3)
        npts == 3 + Pick(s[2], 3)
    IN [mol |-> [a_ \in 1..nat |-> [z |-> ZPool[1 + Pick(s[2 + a_], 4)],
                                    r |-> [r_ \in 1..3 |-> Coord("half", s[6 + 3 * a_ + r_])]]],
        pts |-> [x_ \in 1..npts |-> [r_ \in 1..3 |-> Coord("half", s[20 + 3 * x_ + r_])]],
        wts |-> [x_ \in 1..npts |-> Q(1 + Pick(s[40 + x_], 4), 2)],
        rho |-> [x_ \in 1..npts |-> Q(1 + Pick(s[50 + x_], 6), 4)]]
DipoleCases == [k_ \in 1..NDipole |-> DipoleCase(k_)]
DipoleTrees(c_) == [r_ \in 1..3 |-> DipoleTree(c_.mol, c_.pts, c_.wts, c_.rho, r_)]

TreeRows(type_, ll_, dim_) == [x_ \in 1..Len(AllOrders(type_, ll_, dim_)) |-> BasisTree(type_, AllOrders(type_, ll_, dim_)[x_], dim_)]
ASSUME Emit => JsonSerialize("cases_moments.json",
    [max_order |-> MaxOrder,
     values |-> [k_ \in 1..NCases |->
        [case |-> ValueCases[k_],
         terms |-> [c_ \in 1..Len(ValueCases[k_].centres) |->
                      MomentTerms(ValueCases[k_].pts, ValueCases[k_].wts, ValueCases[k_].fvals, ValueCases[k_].centres[c_])]]],
     radial |-> [dim_ \in 1..3 |-> TreeRows("radial", CartL, dim_)],
     pure |-> TreeRows("pure", PureL, 3),
     pure_radial |-> TreeRows("pure-radial", PureL, 3),
     dipoles |-> [k_ \in 1..NDipole |-> [case |-> DipoleCases[k_], trees |-> DipoleTrees(DipoleCases[k_])]]])

(***************************************************************************)
(* State machine.                                                          *)
(***************************************************************************)
VARIABLES mpc, ma, mb
Init == mpc = "idle" /\ ma = 0 /\ mb = 0
PickOrder == /\ mpc = "idle" /\ ~Emit /\ \E n_ \in 0..MaxOrder : ma' = n_
             /\ mpc' = "order" /\ UNCHANGED mb
PickLM == /\ mpc = "idle" /\ ~Emit /\ \E l_ \in 0..MaxL : \E m_ \in -l_..l_ : ma' = l_ /\ mb' = m_
          /\ mpc' = "lm"
PickL == /\ mpc = "idle" /\ ~Emit /\ \E l_ \in 0..Min2(MaxL, 4) : ma' = l_
         /\ mpc' = "l" /\ UNCHANGED mb
PickDipole == /\ mpc = "idle" /\ ~Emit /\ \E k_ \in 1..NDipole : ma' = k_
              /\ mpc' = "dipole" /\ UNCHANGED mb
PickOrdersObs == /\ mpc = "idle" /\ ~Emit /\ \E x_ \in 1..Len(OrdersObs) : ma' = x_
                 /\ mpc' = "ordersobs" /\ UNCHANGED mb
PickValueObs == /\ mpc = "idle" /\ ~Emit /\ \E x_ \in 1..Len(ValueObs) : ma' = x_
                /\ mpc' = "valueobs" /\ UNCHANGED mb
Next == PickOrder \/ PickLM \/ PickL \/ PickDipole \/ PickOrdersObs \/ PickValueObs
Spec == Init /\ [][Next]_<<mpc, ma, mb>>

(***************************************************************************)
(* Orders.                                                                 *)
(***************************************************************************)
AtOrder == mpc = "order"
TypeDims == {<<"cartesian", 1>>, <<"cartesian", 2>>, <<"cartesian", 3>>, <<"radial", 3>>, <<"pure", 3>>, <<"pure-radial", 3>>}
LoopNestIsHortonListing ==
    AtOrder => \A td_ \in TypeDims :
        (td_[1] = "pure-radial" /\ ma = 0) \/ IsHortonListing(OrdersLoop(td_[1], ma, td_[2]), td_[1], ma, td_[2])
RowCounts ==
    AtOrder => /\ Len(AllOrders("pure", ma, 3)) = (ma + 1) * (ma + 1)
               /\ Len(AllOrders("radial", ma, 3)) = ma + 1
               /\ Len(AllOrders("cartesian", ma, 1)) = ma + 1
               /\ Len(AllOrders("cartesian", ma, 2)) = ((ma + 1) * (ma + 2)) \div 2
               /\ Len(AllOrders("cartesian", ma, 3)) = ((ma + 1) * (ma + 2) * (ma + 3)) \div 6
               /\ ma >= 1 => Len(AllOrders("pure-radial", ma, 3)) = (ma * (ma + 1) * (2 * ma + 1)) \div 6
RowIndexLaws ==
    AtOrder =>
        /\ \A l_ \in 0..ma : \A m_ \in -l_..l_ : AllOrders("pure", ma, 3)[RowLM(l_, m_) + 1] = <<l_, m_>>
        /\ \A n_ \in 1..ma : \A l_ \in 0..n_ - 1 : \A m_ \in -l_..l_ :
              AllOrders("pure-radial", ma, 3)[RowNLM(n_, l_, m_) + 1] = <<n_, l_, m_>>
        /\ \A dim_ \in 1..3 : \A n_ \in 0..ma : \A t_ \in CartSet(n_, dim_) :
              AllOrders("cartesian", ma, dim_)[RowCart(t_) + 1] = t_
\* the rows the code picks from the solid-harmonic table for the pure-radial listing are the right ones
PureRadialPicksItsHarmonic ==
    AtOrder /\ ma >= 1 =>
        \A x_ \in 1..Len(AllOrders("pure-radial", ma, 3)) :
            LET row == AllOrders("pure-radial", ma, 3)[x_]
            IN AllOrders("pure", ma, 3)[RowLM(row[2], row[3]) + 1] = <<row[2], row[3]>>

(***************************************************************************)
(* Solid harmonics.                                                        *)
(***************************************************************************)
Lattice == {<<a_, b_, c_>> : a_ \in -1..2, b_ \in -1..2, c_ \in -1..2}
SmallLattice == {<<a_, b_, c_>> : a_ \in -1..1, b_ \in -1..1, c_ \in -1..1}
EnvAt(p_) == [n_ \in {"x", "y", "z"} |-> IF n_ = "x" THEN QI(p_[1]) ELSE IF n_ = "y" THEN QI(p_[2]) ELSE QI(p_[3])]
RECURSIVE IPow(_, _)
IPow(b_, k_) == IF k_ = 0 THEN 1 ELSE b_ * IPow(b_, k_ - 1)
AtLM == mpc = "lm"
Harmonic == AtLM => \A p_ \in Lattice : EvalQ(Laplacian(SolidPolyInt(ma, mb)), EnvAt(p_)) = QZero
HomogeneousOfDegreeL ==
    AtLM => \A p_ \in Lattice : EvalQ(EulerOp(SolidPolyInt(ma, mb)), EnvAt(p_)) = QMul(QI(ma), EvalQ(SolidPolyInt(ma, mb), EnvAt(p_)))
SignConvention ==
    AtLM => /\ QLt(QZero, EvalQ(PiTreeInt(ma, Abs(mb)), EnvAt(<<0, 0, 1>>)))        \* no Condon-Shortley phase
            /\ mb = 0 => EvalQ(SolidPolyInt(ma, 0), EnvAt(<<0, 0, 1>>)) = QI(IPow(2, ma))  \* R_l^0 = 1 at the pole
            /\ mb > 0 => EvalQ(ATree(mb), EnvAt(<<1, 0, 0>>)) = QOne               \* cos(m theta) = 1 on the x axis
            /\ mb < 0 => EvalQ(D(BTree(-mb), "y"), EnvAt(<<1, 0, 0>>)) = QI(-mb)   \* sin(|m| theta) ~ |m| theta
\* Unsold: sum_m N_lm^2 P_lm^2 = r^(2l); in integers: sum_m [(2l)! N_lm^2] (2^l P_lm)^2 = (2l)! 4^l r^(2l)
Factorial(n_) == Falling(n_, n_)
UnsoldWeight(l_, m_) == LET w == QMul(QI(Factorial(2 * l_)), NormSq(l_, m_)) IN IF w[2] = 1 THEN w[1] ELSE -1
Unsold ==
    mpc = "l" => \A p_ \in SmallLattice :
        ISumTo([x_ \in 1..2 * ma + 1 |->
                   LET m == x_ - ma - 1
                       v == EvalQ(SolidPolyInt(ma, m), EnvAt(p_))
                   IN UnsoldWeight(ma, m) * v[1] * v[1]], 2 * ma + 1)
        = Factorial(2 * ma) * IPow(4, ma) * IPow(p_[1] * p_[1] + p_[2] * p_[2] + p_[3] * p_[3], ma)

(***************************************************************************)
(* Dipole: the tree equals nuclear minus electronic first moments about    *)
(* the centre of mass (masses instantiated with the integers 2 Z + a).     *)
(***************************************************************************)
AtDipole == mpc = "dipole"
DipoleIsFirstMomentDifference ==
    AtDipole =>
        LET c == DipoleCases[ma]
            nat == Len(c.mol)
            mass == [a_ \in 1..nat |-> QI(2 * c.mol[a_].z + a_)]
            env == [n_ \in Range(MassNames) |-> IF \E a_ \in 1..nat : MassNames[a_] = n_
                                                THEN mass[CHOOSE a_ \in 1..nat : MassNames[a_] = n_] ELSE QOne]
            tot == QSumTo(mass, nat)
            com == [r_ \in 1..3 |-> QDiv(QSumTo([a_ \in 1..nat |-> QMul(mass[a_], c.mol[a_].r[r_])], nat), tot)]
            unit(r_) == [q_ \in 1..3 |-> IF q_ = r_ THEN 1 ELSE 0]
            nuclear(r_) == CartMoment(unit(r_), [a_ \in 1..nat |-> c.mol[a_].r], [a_ \in 1..nat |-> QI(c.mol[a_].z)],
                                      [a_ \in 1..nat |-> QOne], com)
            electronic(r_) == CartMoment(unit(r_), c.pts, c.wts, c.rho, com)
        IN \A r_ \in 1..3 : EvalQ(DipoleTree(c.mol, c.pts, c.wts, c.rho, r_), env) = QSub(nuclear(r_), electronic(r_))

(***************************************************************************)
(* Judges.                                                                 *)
(***************************************************************************)
\* OrdersObs[x] = [type, dim, order, via ("direct" = generate_orders_horton_order(order, type, dim),
\*                 "moments" = Grid.moments(order, ..., return_orders=True)), rows]
OO == OrdersObs[ma]
ExpectedRows == IF OO.via = "direct" THEN OrdersLoop(OO.type, OO.order, OO.dim) ELSE AllOrders(OO.type, OO.order, OO.dim)
JudgeOrders ==
    mpc = "ordersobs" =>
        /\ OO.rows = ExpectedRows \/ PrintT(<<"MISMATCH", "orders", ma, ExpectedRows, OO.rows>>)
        /\ OO.via = "direct" =>
              (IsHortonListing(OO.rows, OO.type, OO.order, OO.dim) \/ PrintT(<<"MISMATCH", "horton-order", ma, ExpectedRows, OO.rows>>))
\* ValueObs[k] = [cart |-> <<row, ...>> each row <<value per centre as <<n, d>> >>, NotRec = not recorded]
VO == ValueObs[ma]
VC == ValueCases[ma]
JudgeCartesian ==
    mpc = "valueobs" /\ Len(VO.cart) > 0 =>
        LET rows == AllOrders("cartesian", VC.lcart, VC.dim)
        IN /\ Len(VO.cart) = Len(rows) \/ PrintT(<<"MISMATCH", "cart-rows", ma, Len(rows), Len(VO.cart)>>)
           /\ \A x_ \in 1..Min2(Len(rows), Len(VO.cart)) : \A c_ \in 1..Len(VC.centres) :
                 LET want == CartMoment(rows[x_], VC.pts, VC.wts, VC.fvals, VC.centres[c_])
                 IN VO.cart[x_][c_] = want \/ PrintT(<<"MISMATCH", "cartesian", ma, <<rows[x_], c_>>, want, VO.cart[x_][c_]>>)
=============================================================================
