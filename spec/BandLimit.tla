------------------------------ MODULE BandLimit ------------------------------
(***************************************************************************)
(* Property C09, discrete part: band-limit bookkeeping of the harmonic     *)
(* decomposition on an atomic grid whose shells have angular degrees       *)
(* d_1 .. d_n (uniform or pruned).                                         *)
(*                                                                         *)
(*   LMax(ds)         largest shell degree                                 *)
(*   BasisL(ds)       = LMax div 2: harmonics Y_lm, l <= BasisL, are used  *)
(*   BasisSize(ds)    = (BasisL + 1)^2 radial-component splines are built  *)
(*   RetL(ds, i)      degrees kept on shell i: d_i div 2 (a shell cannot   *)
(*                    resolve more); rows beyond (RetL+1)^2 are set to 0   *)
(*   AdmL(ds)         = Min(ds) div 2: band limit for which the statement  *)
(*                    promises exact recovery                              *)
(*                                                                         *)
(* A function f = SUM_{l <= AdmL} g_lm(r) Y_lm is recovered exactly iff on *)
(* every shell (1) every admissible row is retained and (2) every product  *)
(* Y_lm Y_l'm' of an admissible with a retained harmonic has degree        *)
(* l + l' <= d_i, the exactness degree of the shell's quadrature (C02).    *)
(* TLC decides (1) and (2) for EVERY sequence of supported degrees <= DMax *)
(* of every method, up to NShell shells (the clauses are per shell and     *)
(* depend on (d_i, min, max) only, so three shells cover all cases).       *)
(*                                                                         *)
(* The expected observations derived here are the oracle of the replay:    *)
(*   number of splines = BasisSize, per shell the number of rows that may  *)
(*   be non-zero = Retained, knot of row (l,m) on shell i = g_lm(r_i) if   *)
(*   (l,m) is admissible else 0, angular integral = sqrt(4 pi) g_00(r_i).  *)
(* Observations of the integer quantities recorded from the implementation *)
(* (Obs, generated) are judged by TLC in the same run.                     *)
(***************************************************************************)
EXTENDS Integers, Sequences, FiniteSets, TLC, Tables_angular, Obs_bandlimit

\* Obs_bandlimit (generated) defines
\*   DMax, NShell   bounds of the exhaustive enumeration (NShell = 0: none)
\*   Phase          "expect": emit the expectations for the configurations ObsB (observations
\*                  still empty); "judge": judge the recorded observations
\*   ObsB           sequence of records [method, degs (sequence), nsplines, nonzero (sequence:
\*                  per shell, number of leading rows up to the last non-zero knot)]

Force(f_) == IF f_ = f_ THEN f_ ELSE f_

\* row of (l, m) among all harmonics, Horton-2 order - the same rule as Harmonics!Row
Row(l_, m_) == l_ * l_ + (IF m_ = 0 THEN 0 ELSE IF m_ > 0 THEN 2 * m_ - 1 ELSE -2 * m_)
Rows(lmax_) == (lmax_ + 1) * (lmax_ + 1)
LMset(lmax_) == {<<l_, m_>> \in (0..lmax_) \X (-lmax_..lmax_) : -l_ <= m_ /\ m_ <= l_}

Range(s_) == {s_[i_] : i_ \in 1..Len(s_)}
MaxS(S_) == CHOOSE x_ \in S_ : \A y_ \in S_ : y_ <= x_
MinS(S_) == CHOOSE x_ \in S_ : \A y_ \in S_ : x_ <= y_

LMax(ds_) == MaxS(Range(ds_))
BasisL(ds_) == LMax(ds_) \div 2
BasisSize(ds_) == Rows(BasisL(ds_))
RetL(ds_, i_) == IF ds_[i_] # LMax(ds_) THEN ds_[i_] \div 2 ELSE BasisL(ds_)
Retained(ds_, i_) == Rows(RetL(ds_, i_))
AdmL(ds_) == MinS(Range(ds_)) \div 2
Admissible(ds_) == LMset(AdmL(ds_))
\* expected knot pattern: which rows carry the function's components
KnotIsComponent(ds_, l_, m_) == l_ <= AdmL(ds_)

Supported == Force([mt_ \in Methods |-> {DegTab[mt_][i_][1] : i_ \in 1..Len(DegTab[mt_])}])
SupportedUpTo(mt_, dmax_) == {d_ \in Supported[mt_] : d_ <= dmax_}

\* ---- state machine: one degree sequence per state -------------------------------
VARIABLES bk, bmeth, bds, bobs
bvars == <<bk, bmeth, bds, bobs>>

BInit == bk = "idle" /\ bmeth = "none" /\ bds = <<>> /\ bobs = 0
BPickMethod == /\ bk = "idle" /\ \E mt_ \in Methods : bmeth' = mt_
               /\ bk' = "method" /\ UNCHANGED <<bds, bobs>>
\* first shell, then extend shell by shell (keeps every branching small)
BExtend == /\ bk \in {"method", "seq"} /\ Len(bds) < NShell
           /\ \E d_ \in SupportedUpTo(bmeth, DMax) : bds' = Append(bds, d_)
           /\ bk' = "seq" /\ UNCHANGED <<bmeth, bobs>>
\* observations recorded from the implementation, one per state
BPickObs == /\ bk = "idle" /\ Len(ObsB) > 0
            /\ \E k_ \in 1..Len(ObsB) : bobs' = k_ /\ bmeth' = ObsB[k_].method /\ bds' = ObsB[k_].degs
            /\ bk' = "obs"
BNext == BPickMethod \/ BExtend \/ BPickObs
BSpec == BInit /\ [][BNext]_bvars

HasSeq == bk \in {"seq", "obs"}
Shells == 1..Len(bds)

\* tabulated once per band limit k (the per-state invariants below only look these up):
\*   MaxRowOf[k]  largest row index of a harmonic with l <= k
\*   PrefixOK[k]  the rows of {(l,m) : l <= k} are exactly 0 .. Rows(k)-1
KMax == DMax \div 2
MaxRowOf == Force([k_ \in 0..KMax |-> MaxS({Row(lm_[1], lm_[2]) : lm_ \in LMset(k_)})])
PrefixOK == Force([k_ \in 0..KMax |-> {Row(lm_[1], lm_[2]) : lm_ \in LMset(k_)} = 0..(Rows(k_) - 1)])
InTable(ds_) == LMax(ds_) <= DMax
\* (1) every admissible row is kept on every shell, and is a basis row at all
AdmissibleRetained ==
    HasSeq /\ InTable(bds) => \A i_ \in Shells :
                 MaxRowOf[AdmL(bds)] < Retained(bds, i_) /\ Retained(bds, i_) <= BasisSize(bds)
\* (2) products of admissible and retained harmonics are inside the shell's exactness degree
ProductsExact == HasSeq => \A i_ \in Shells : AdmL(bds) + RetL(bds, i_) <= bds[i_]
\* the retained prefix consists of whole degrees: the rows of LMset(k) are exactly 0..Rows(k)-1
PrefixIsWholeDegrees == HasSeq /\ InTable(bds) => \A i_ \in Shells : PrefixOK[RetL(bds, i_)]
\* nothing is promised beyond what a shell can resolve: the band limit never exceeds RetL
BandLimitWithinRetained == HasSeq => \A i_ \in Shells : AdmL(bds) <= RetL(bds, i_) /\ RetL(bds, i_) <= BasisL(bds)
\* uniform grids: everything coincides
UniformCase == HasSeq /\ Cardinality(Range(bds)) = 1 =>
                  AdmL(bds) = BasisL(bds) /\ \A i_ \in Shells : Retained(bds, i_) = BasisSize(bds)

\* ---- conformance: integer observables of the implementation ---------------------------
\* nonzero[i] = 1 + index of the last row with a non-zero knot on shell i, for a GENERIC function
\* (all components present): must equal the retained prefix; nsplines = BasisSize.
ObsConforms ==
    bk = "obs" /\ Phase = "judge" =>
        LET o_ == ObsB[bobs] IN
        \/ /\ o_.nsplines = BasisSize(bds)
           /\ Len(o_.nonzero) = Len(bds)
           /\ \A i_ \in Shells : o_.nonzero[i_] = Retained(bds, i_)
           /\ Range(bds) \subseteq Supported[bmeth]
        \/ PrintT(<<"MISMATCH", bobs, bmeth, bds, BasisSize(bds), [i_ \in Shells |-> Retained(bds, i_)], o_.nsplines, o_.nonzero>>)

\* ---- emission of the expectations for the requested configurations ---------------------
RECURSIVE SetToSeqB(_)
SetToSeqB(S_) == IF S_ = {} THEN <<>> ELSE LET x_ == CHOOSE y_ \in S_ : TRUE IN <<x_>> \o SetToSeqB(S_ \ {x_})
ExpectRec(k_) ==
    LET ds_ == ObsB[k_].degs IN
    [lmax |-> LMax(ds_), basisl |-> BasisL(ds_), nsplines |-> BasisSize(ds_), adml |-> AdmL(ds_),
     retained |-> [i_ \in 1..Len(ds_) |-> Retained(ds_, i_)],
     rows |-> LET sq_ == SetToSeqB(LMset(BasisL(ds_))) IN
              [j_ \in 1..Len(sq_) |-> <<sq_[j_][1], sq_[j_][2], Row(sq_[j_][1], sq_[j_][2]),
                                        IF KnotIsComponent(ds_, sq_[j_][1], sq_[j_][2]) THEN 1 ELSE 0>>]]
ASSUME Phase # "expect" \/ JsonSerialize("bandlimit_expect.json", [k_ \in 1..Len(ObsB) |-> ExpectRec(k_)])
=============================================================================
