------------------------------ MODULE BandLimit ------------------------------
(***************************************************************************)
(* Property C09, discrete part: band-limit bookkeeping of the harmonic     *)
(* decomposition on an atomic grid whose shells have angular degrees       *)
(* d_1 .. d_n (uniform or pruned).                                         *)
(*                                                                         *)
(*   LMax(ds)         largest shell degree                                 *)
(*   BasisL(ds)       = LMax div 2: harmonics Y_lm, l <= BasisL, are used  *)
(*   BasisSize(ds)    = (BasisL + 1)^2 radial-component splines are built  *)
(*   RetL(ds, i)      degrees kept on shell i: d_i div 2 (a shell cannot   *)
(*                    resolve more); rows beyond (RetL+1)^2 are set to 0   *)
(*   AdmL(ds)         = Min(ds) div 2: band limit for which the statement  *)
(*                    promises exact recovery                              *)
(*                                                                         *)
(* A function f = SUM_{l <= AdmL} g_lm(r) Y_lm is recovered exactly iff on *)
(* every shell (1) every admissible row is retained and (2) every product  *)
(* Y_lm Y_l'm' of an admissible with a retained harmonic has degree        *)
(* l + l' <= d_i, the exactness degree of the shell's quadrature (C02).    *)
(* TLC decides (1) and (2) for EVERY sequence of supported degrees <= DMax *)
(* of every method, up to NShell shells (the clauses are per shell and     *)
(* depend on (d_i, min, max) only, so three shells cover all cases).       *)
(*                                                                         *)
(* The expected observations derived here are the oracle of the replay:    *)
(*   number of splines = BasisSize, per shell the number of rows that may  *)
(*   be non-zero = Retained, knot of row (l,m) on shell i = g_lm(r_i) if   *)
(*   (l,m) is admissible else 0, angular integral = sqrt(4 pi) g_00(r_i).  *)
(* Observations of the integer quantities recorded from the implementation *)
(* (Obs, generated) are judged by TLC in the same run.                     *)
(***************************************************************************)
EXTENDS Integers, Sequences, FiniteSets, TLC, Tables_angular, Obs_bandlimit

\* Obs_bandlimit (generated) defines
\*   DMax, NShell   bounds of the exhaustive enumeration (NShell = 0: none)
\*   Phase          "expect": emit the expectations for the configurations ObsB (observations
\*                  still empty); "judge": judge the recorded observations
\*   ObsB           sequence of records [method, degs (sequence), nsplines, nonzero (sequence:
\*                  per shell, number of leading rows up to the last non-zero knot)]
\*                  audit extension - every record also carries HOW the grid was requested:
\*                  route ("degrees" | "sizes" | "pruned" | "pruned-sizes"), req (requested degrees
\*                  or sizes: per shell, a single broadcast value, or per sector), nshell, rmilli
\*                  (shell radii in 1/1000 bohr, pruned routes), bounds (sector bounds, 1/1000
\*                  bohr), spell (index of the spelling of the method name handed to the
\*                  constructor), obsdegs (judge phase: the degrees the built grid reports)

Force(f_) == IF f_ = f_ THEN f_ ELSE f_

\* row of (l, m) among all harmonics, Horton-2 order - the same rule as Harmonics!Row
Row(l_, m_) == l_ * l_ + (IF m_ = 0 THEN 0 ELSE IF m_ > 0 THEN 2 * m_ - 1 ELSE -2 * m_)
Rows(lmax_) == (lmax_ + 1) * (lmax_ + 1)
LMset(lmax_) == {<<l_, m_>> \in (0..lmax_) \X (-lmax_..lmax_) : -l_ <= m_ /\ m_ <= l_}

Range(s_) == {s_[i_] : i_ \in 1..Len(s_)}
MaxS(S_) == CHOOSE x_ \in S_ : \A y_ \in S_ : y_ <= x_
MinS(S_) == CHOOSE x_ \in S_ : \A y_ \in S_ : x_ <= y_

LMax(ds_) == MaxS(Range(ds_))
BasisL(ds_) == LMax(ds_) \div 2
BasisSize(ds_) == Rows(BasisL(ds_))
RetL(ds_, i_) == IF ds_[i_] # LMax(ds_) THEN ds_[i_] \div 2 ELSE BasisL(ds_)
Retained(ds_, i_) == Rows(RetL(ds_, i_))
AdmL(ds_) == MinS(Range(ds_)) \div 2
Admissible(ds_) == LMset(AdmL(ds_))
\* expected knot pattern: which rows carry the function's components
KnotIsComponent(ds_, l_, m_) == l_ <= AdmL(ds_)

Supported == Force([mt_ \in Methods |-> {DegTab[mt_][i_][1] : i_ \in 1..Len(DegTab[mt_])}])
SupportedUpTo(mt_, dmax_) == {d_ \in Supported[mt_] : d_ <= dmax_}

\* ---- construction routes (audit extension) ---------------------------------------------
\* The statement speaks about the degrees d_i the shells HAVE.  They follow from the request:
\*   "degrees"       one degree per shell (a single one is broadcast to every shell); a degree
\*                   that is not tabulated is replaced by the next larger tabulated one
\*   "sizes"         the same with numbers of points per shell (next larger tabulated size)
\*   "pruned"        sector bounds b_1 < .. < b_Q and one degree per sector (Q + 1 of them):
\*                   shell i lies in sector 1 + #{j : r_i > b_j}
\*   "pruned-sizes"  the same with one size per sector
\* Radii and bounds are integers (1/1000 bohr), never equal to each other (the library and its
\* documentation disagree about a radius exactly on a bound; that is not C09's business).
SizeSet == Force([mt_ \in Methods |-> {DegTab[mt_][i_][2] : i_ \in 1..Len(DegTab[mt_])}])
DegOfSize(mt_, s_) == DegTab[mt_][CHOOSE j_ \in 1..Len(DegTab[mt_]) : DegTab[mt_][j_][2] = s_][1]
SizeOfDeg(mt_, d_) == DegTab[mt_][CHOOSE j_ \in 1..Len(DegTab[mt_]) : DegTab[mt_][j_][1] = d_][2]
EffDeg(mt_, d_) == MinS({x_ \in Supported[mt_] : x_ >= d_})
EffDegOfSize(mt_, s_) == DegOfSize(mt_, MinS({x_ \in SizeSet[mt_] : x_ >= s_}))
Broadcast(sq_, n_) == IF Len(sq_) = 1 THEN [i_ \in 1..n_ |-> sq_[1]] ELSE sq_
SectorOf(r_, bounds_) == 1 + Cardinality({j_ \in 1..Len(bounds_) : r_ > bounds_[j_]})
Routes == {"degrees", "sizes", "pruned", "pruned-sizes"}
ActualDegs(c_) ==
    CASE c_.route = "degrees" ->
            LET q_ == Broadcast(c_.req, c_.nshell) IN [i_ \in 1..c_.nshell |-> EffDeg(c_.method, q_[i_])]
      [] c_.route = "sizes" ->
            LET q_ == Broadcast(c_.req, c_.nshell) IN [i_ \in 1..c_.nshell |-> EffDegOfSize(c_.method, q_[i_])]
      [] c_.route = "pruned" ->
            [i_ \in 1..c_.nshell |-> EffDeg(c_.method, c_.req[SectorOf(c_.rmilli[i_], c_.bounds)])]
      [] c_.route = "pruned-sizes" ->
            [i_ \in 1..c_.nshell |-> EffDegOfSize(c_.method, c_.req[SectorOf(c_.rmilli[i_], c_.bounds)])]
\* spellings of the method names a constructor must accept (it documents the lower-case names and
\* lower-cases what it is given)
Spell == [lebedev |-> <<"lebedev", "Lebedev", "LEBEDEV">>, spherical |-> <<"spherical", "Spherical", "SPHERICAL">>,
          maxdet |-> <<"maxdet", "MaxDet", "MAXDET">>,
          ahrens_beylkin |-> <<"ahrens_beylkin", "Ahrens_Beylkin", "AHRENS_BEYLKIN">>]
\* (every constructor - plain, from_pruned, from_preset - folds the case before anything else uses the name)
MethodArg(c_) == Spell[c_.method][1 + c_.spell]
\* laws of the routes, for every method and every request up to DMax (constant level):
\* rounding goes up to a tabulated value, is minimal and idempotent, never lowers the band limit
\* the request asked for, and the size route is the inverse of the degree route on the table
RouteLaws ==
    /\ DOMAIN Spell = Methods
    /\ \A mt_ \in Methods :
         /\ \A d_ \in 0..DMax :
              LET e_ == EffDeg(mt_, d_) IN
              /\ e_ \in Supported[mt_] /\ e_ >= d_
              /\ \A x_ \in Supported[mt_] : x_ >= d_ => e_ <= x_
              /\ EffDeg(mt_, e_) = e_
              /\ e_ \div 2 >= d_ \div 2
              /\ EffDegOfSize(mt_, SizeOfDeg(mt_, e_)) = e_
              /\ LET s_ == SizeOfDeg(mt_, e_) - 1   g_ == SizeOfDeg(mt_, EffDegOfSize(mt_, s_)) IN
                    g_ >= s_ /\ \A t_ \in SizeSet[mt_] : t_ >= s_ => g_ <= t_
         /\ \A i_ \in 1..(Len(DegTab[mt_]) - 1) :
              DegTab[mt_][i_][1] < DegTab[mt_][i_ + 1][1] /\ DegTab[mt_][i_][2] < DegTab[mt_][i_ + 1][2]

\* ---- state machine: one degree sequence per state -------------------------------
VARIABLES bk, bmeth, bds, bobs
bvars == <<bk, bmeth, bds, bobs>>

BInit == bk = "idle" /\ bmeth = "none" /\ bds = <<>> /\ bobs = 0
BPickMethod == /\ bk = "idle" /\ \E mt_ \in Methods : bmeth' = mt_
               /\ bk' = "method" /\ UNCHANGED <<bds, bobs>>
\* first shell, then extend shell by shell (keeps every branching small)
BExtend == /\ bk \in {"method", "seq"} /\ Len(bds) < NShell
           /\ \E d_ \in SupportedUpTo(bmeth, DMax) : bds' = Append(bds, d_)
           /\ bk' = "seq" /\ UNCHANGED <<bmeth, bobs>>
\* observations recorded from the implementation, one per state
BPickObs == /\ bk = "idle" /\ Len(ObsB) > 0
            /\ \E k_ \in 1..Len(ObsB) : bobs' = k_ /\ bmeth' = ObsB[k_].method /\ bds' = ActualDegs(ObsB[k_])
            /\ bk' = "obs"
BNext == BPickMethod \/ BExtend \/ BPickObs
BSpec == BInit /\ [][BNext]_bvars

HasSeq == bk \in {"seq", "obs"}
Shells == 1..Len(bds)

\* tabulated once per band limit k (the per-state invariants below only look these up):
\*   MaxRowOf[k]  largest row index of a harmonic with l <= k
\*   PrefixOK[k]  the rows of {(l,m) : l <= k} are exactly 0 .. Rows(k)-1
KMax == DMax \div 2
MaxRowOf == Force([k_ \in 0..KMax |-> MaxS({Row(lm_[1], lm_[2]) : lm_ \in LMset(k_)})])
PrefixOK == Force([k_ \in 0..KMax |-> {Row(lm_[1], lm_[2]) : lm_ \in LMset(k_)} = 0..(Rows(k_) - 1)])
InTable(ds_) == LMax(ds_) <= DMax
\* (1) every admissible row is kept on every shell, and is a basis row at all
AdmissibleRetained ==
    HasSeq /\ InTable(bds) => \A i_ \in Shells :
                 MaxRowOf[AdmL(bds)] < Retained(bds, i_) /\ Retained(bds, i_) <= BasisSize(bds)
\* (2) products of admissible and retained harmonics are inside the shell's exactness degree
ProductsExact == HasSeq => \A i_ \in Shells : AdmL(bds) + RetL(bds, i_) <= bds[i_]
\* the retained prefix consists of whole degrees: the rows of LMset(k) are exactly 0..Rows(k)-1
PrefixIsWholeDegrees == HasSeq /\ InTable(bds) => \A i_ \in Shells : PrefixOK[RetL(bds, i_)]
\* nothing is promised beyond what a shell can resolve: the band limit never exceeds RetL
BandLimitWithinRetained == HasSeq => \A i_ \in Shells : AdmL(bds) <= RetL(bds, i_) /\ RetL(bds, i_) <= BasisL(bds)
\* uniform grids: everything coincides
UniformCase == HasSeq /\ Cardinality(Range(bds)) = 1 =>
                  AdmL(bds) = BasisL(bds) /\ \A i_ \in Shells : Retained(bds, i_) = BasisSize(bds)

\* ---- conformance: integer observables of the implementation ---------------------------
\* nonzero[i] = 1 + index of the last row with a non-zero knot on shell i, for a GENERIC function
\* (all components present): must equal the retained prefix; nsplines = BasisSize.
ObsConforms ==
    bk = "obs" /\ Phase = "judge" =>
        LET o_ == ObsB[bobs] IN
        \/ /\ o_.nsplines = BasisSize(bds)
           /\ Len(o_.nonzero) = Len(bds)
           /\ \A i_ \in Shells : o_.nonzero[i_] = Retained(bds, i_)
           /\ Range(bds) \subseteq Supported[bmeth]
        \/ PrintT(<<"MISMATCH", bobs, bmeth, bds, BasisSize(bds), [i_ \in Shells |-> Retained(bds, i_)], o_.nsplines, o_.nonzero>>)

\* the degrees the built grid reports are the ones the route prescribes
RouteConforms ==
    bk = "obs" /\ Phase = "judge" =>
        LET o_ == ObsB[bobs] IN
        \/ o_.obsdegs = ActualDegs(o_) /\ o_.route \in Routes
        \/ PrintT(<<"MISMATCH-ROUTE", bobs, bmeth, o_.route, o_.req, ActualDegs(o_), o_.obsdegs>>)

\* ---- what the interpolant's callable returns (audit extension) ---------------------------
\* call (points, deriv, deriv_spherical, only_radial_deriv).  The statement names three kinds of
\* reported derivatives: Cartesian, spherical, radial-only.
\*   deriv = 0                       the values, whatever the switches say
\*   only_radial_deriv               the deriv-th radial derivative (wins over deriv_spherical)
\*   deriv = 1, deriv_spherical      (d/dr, d/dtheta, d/dphi) of SUM s_k(r) Y_k(theta, phi)
\*   deriv = 1                       Cartesian gradient
\*   deriv >= 2 without radial-only  nothing is promised (the library refuses)
Derivs == 0..3
CallModes == Derivs \X BOOLEAN \X BOOLEAN
ModeKinds == {"value", "radial", "spherical", "cartesian", "unspecified"}
ModeKind(md_) == IF md_[1] = 0 THEN "value"
                 ELSE IF md_[3] THEN "radial"
                 ELSE IF md_[1] = 1 THEN (IF md_[2] THEN "spherical" ELSE "cartesian")
                 ELSE "unspecified"
\* classes of evaluation points (quantifier: all evaluation points incl. the centre and the z axis)
\*   polar: 0 = generic angles, 1 = phi = 0 exactly, 2 = phi = pi exactly
\*   "outside" / "inside": beyond the last / below the first radial node (the splines extrapolate;
\*   the statement defines the interpolant as SUM spline x harmonic there as well)
\*   the centre has the canonical angles theta = phi = 0; the sum SUM s_k(r) Y_k(direction) has no
\*   Cartesian gradient there unless only s_00 survives, so that kind is not demanded at the centre
PointClasses == {"generic", "outside", "inside", "north", "south", "centre"}
PolarCode(pc_) == IF pc_ \in {"north", "centre"} THEN 1 ELSE IF pc_ = "south" THEN 2 ELSE 0
DemandedKinds(pc_) == IF pc_ = "centre" THEN {"value", "radial", "spherical"}
                      ELSE {"value", "radial", "spherical", "cartesian"}
\* on the axis (sin(phi) = 0, r > 0) the Jacobian of spherical coordinates is singular; the gradient
\* of the (smooth) interpolant is taken along the two meridians theta = 0 and theta = pi/2:
\*   d/dx = (cos(phi) / r) d/dphi at theta = 0,   d/dy = (cos(phi) / r) d/dphi at theta = pi/2,
\*   d/dz = cos(phi) d/dr;   AxisMeridian[c] = the meridian (in quarter turns) giving component c
AxisMeridian == [x |-> 0, y |-> 1]
CallModeLaws ==
    /\ \A md_ \in CallModes : ModeKind(md_) \in ModeKinds
    /\ {ModeKind(md_) : md_ \in CallModes} = ModeKinds
    /\ \A n_ \in Derivs, s_ \in BOOLEAN : ModeKind(<<n_, s_, TRUE>>) = IF n_ = 0 THEN "value" ELSE "radial"
    /\ \A md_ \in CallModes : ModeKind(md_) = "unspecified" <=> (md_[1] >= 2 /\ ~md_[3])
    /\ \A s_ \in BOOLEAN, o_ \in BOOLEAN : ModeKind(<<0, s_, o_>>) = "value"
    /\ \A pc_ \in PointClasses : DemandedKinds(pc_) \subseteq ModeKinds \ {"unspecified"}
    /\ \A pc_ \in PointClasses : {"value", "radial", "spherical"} \subseteq DemandedKinds(pc_)
    /\ \A pc_ \in PointClasses : ("cartesian" \in DemandedKinds(pc_)) <=> pc_ # "centre"
    /\ \A pc_ \in PointClasses : PolarCode(pc_) # 0 <=> pc_ \in {"north", "south", "centre"}

\* ---- emission of the expectations for the requested configurations ---------------------
RECURSIVE SetToSeqB(_)
SetToSeqB(S_) == IF S_ = {} THEN <<>> ELSE LET x_ == CHOOSE y_ \in S_ : TRUE IN <<x_>> \o SetToSeqB(S_ \ {x_})
ExpectRec(k_) ==
    LET ds_ == ActualDegs(ObsB[k_]) IN
    [degs |-> ds_, method_arg |-> MethodArg(ObsB[k_]),
     lmax |-> LMax(ds_), basisl |-> BasisL(ds_), nsplines |-> BasisSize(ds_), adml |-> AdmL(ds_),
     retained |-> [i_ \in 1..Len(ds_) |-> Retained(ds_, i_)],
     rows |-> LET sq_ == SetToSeqB(LMset(BasisL(ds_))) IN
              [j_ \in 1..Len(sq_) |-> <<sq_[j_][1], sq_[j_][2], Row(sq_[j_][1], sq_[j_][2]),
                                        IF KnotIsComponent(ds_, sq_[j_][1], sq_[j_][2]) THEN 1 ELSE 0>>]]
ASSUME Phase # "expect" \/ JsonSerialize("bandlimit_expect.json", [k_ \in 1..Len(ObsB) |-> ExpectRec(k_)])
ModeSeq == LET sq_ == SetToSeqB(CallModes) IN
           [j_ \in 1..Len(sq_) |-> [deriv |-> sq_[j_][1], sph |-> sq_[j_][2], rad |-> sq_[j_][3], kind |-> ModeKind(sq_[j_])]]
ClassSeq == LET sq_ == SetToSeqB(PointClasses) IN
            [j_ \in 1..Len(sq_) |-> [name |-> sq_[j_], polar |-> PolarCode(sq_[j_]),
                                     kinds |-> SetToSeqB(DemandedKinds(sq_[j_]))]]
ASSUME Phase # "expect" \/ JsonSerialize("bandlimit_modes.json",
                                         [modes |-> ModeSeq, classes |-> ClassSeq, meridian |-> AxisMeridian])
=============================================================================
