INIT InitCfg
NEXT NextCfgX
INVARIANT CfgIsConfig
INVARIANT CfgConforms
INVARIANT CfgExpectedWellFormed
INVARIANT XIsCase
INVARIANT XConforms
INVARIANT XExpectedWellFormed
