------------------------------- MODULE PoissonX -------------------------------
(***************************************************************************)
(* C16, second part: the dimensions of the quantifier that Poisson.tla's    *)
(* 600 fixed cases leave out.  Everything of Poisson.tla is kept (this      *)
(* module EXTENDS it and MC_PoissonX.cfg re-checks all its invariants).     *)
(*                                                                         *)
(*  (X1) seed-drawn continua: exponents, coefficients, centres, rotation    *)
(*       seeds and the discrete options of every case below are DRAWN from  *)
(*       pools stated here with a hash of (XSeed, case, slot); XSeed is     *)
(*       VERIF_SEED (generated module Tables_poissonx).  Admissibility      *)
(*       (resolution envelope, charge not cancelling, band limit of pruned  *)
(*       shells, separations) is CHECKED by TLC for every emitted case.     *)
(*  (X2) laws beyond "potential = oracle":                                  *)
(*       RobustLaw    V_robust[rho; o] = V_core + V_bvp[rho - rho_core; o]  *)
(*                    for EVERY option record o (options are forwarded),    *)
(*       RobustAffine V_robust[a r1 + (1-a) r2] = a V_rob[r1] + (1-a) V_rob[r2]*)
(*                    (consequence of RobustLaw + linearity; derived below  *)
(*                    in the channel algebra: AffineDerived),               *)
(*       OptionEquiv  option records that denote the same problem give the  *)
(*                    same potential (documented defaults written out,      *)
(*                    remove_large_pts = None when no point exceeds 1e6),   *)
(*       FormEquiv    the result does not depend on the representation of   *)
(*                    the arguments (dtype, layout, container, grid wrapper)*)
(*                    beyond the precision class of the representation,     *)
(*       Purity       arguments are left unchanged, a second evaluation     *)
(*                    gives the same values,                                *)
(*       Linearity    for the initial-value solver, the Laplacian and on    *)
(*                    molecular grids; zero density gives zero potential.   *)
(*  (X3) grids: pruned atomic grids (sector-wise degrees; band-limit rule   *)
(*       ShellExact), molecular grids whose atoms have different radial     *)
(*       sizes / maps / atomic numbers, further radial transforms and 1-D    *)
(*       rules (including grids that contain r = 0 themselves).             *)
(*  (X4) evaluation points: close to a centre, far outside the radial       *)
(*       range used by the ODE, and exactly AT an atomic centre.            *)
(***************************************************************************)
EXTENDS Poisson, Tables_poissonx

\* ---- drawing ------------------------------------------------------------------------------
\* all intermediate values < 2^31:  10006*7919 + 400*7907 + 99*104729 + 101*403*104 < 9.6e7;  XH0 < 1000003,
\* XH0 * (XH0 \div 1009 + 7) < 1000003 * 999 < 1.0e9.  The second step is a non-linear mix (a purely linear
\* hash repeats with the period of the pool length).
XH0(n_, k_) == ((XSeed % 10007) * 7919 + n_ * 7907 + k_ * 104729 + ((XSeed % 101) + 1) * (n_ + 3) * (k_ + 5)) % 1000003
XH(n_, k_) == (XH0(n_, k_) * ((XH0(n_, k_) \div 1009) + 7) + (XH0(n_, k_) \div 13)) % 999983
XDraw(s_, n_, k_) == s_[(XH(n_, k_) % Len(s_)) + 1]

XAlphaPool == [k_ \in 1..21 |-> Q(k_ + 3, 8)]                  \* 1/2, 5/8, .., 3 : the envelope Env of Poisson.tla
XLeadPool == << QI(1), Q(5, 4), Q(3, 2), QI(2), QI(-1), Q(-3, 2), QI(-2), Q(3, 4) >>
XRatioPool == << Q(1, 2), Q(1, 4), Q(-1, 4), Q(3, 4), Q(-1, 8) >>   \* further s coefficients = lead * ratio
XCompPool == [k_ \in 1..9 |-> Q(k_ - 5, 4)]                     \* centre components -1, -3/4, .., 1
XChanCoefPool == << QI(1), QI(-2), Q(3, 2), Q(-1, 2), Q(3, 4) >>
XLinPool == << QI(2), QI(-1), Q(1, 2), QI(-3), QI(0), Q(3, 4), Q(-5, 4) >>
XAffPool == << Q(3, 4), Q(-1, 2), QI(2), Q(1, 4) >>
XBool(n_, k_) == XH(n_, k_) % 2 = 0

\* ---- grids -----------------------------------------------------------------------------------
\* rule = 1-D quadrature the radial transformation is applied to; map as in Poisson.tla plus
\*   "HandyMod2" = HandyModRTransform(rmin, R (= rmax), 2), "LinFinite" = LinearFiniteRTransform(rmin, R),
\*   "LinInf" = LinearInfiniteRTransform(rmin, R).  zero = the radial grid itself contains r = 0.
XG(rule_, map_, n_, rmin_, rr_, deg_) == [rule |-> rule_, map |-> map_, n |-> n_, rmin |-> rmin_, R |-> rr_, deg |-> deg_]
XGLOrigin == << XG("GaussLegendre", "Becke", 100, <<0, 1>>, <<3, 2>>, 7),
                XG("GaussLegendre", "Becke", 100, <<1, 100000>>, <<1, 1>>, 7),
                XG("GaussLegendre", "Becke", 120, <<0, 1>>, <<3, 2>>, 5) >>
XGLNoOrigin == << XG("GaussLegendre", "Handy2", 200, <<0, 1>>, <<1, 1>>, 7),
                  XG("GaussLegendre", "Handy2", 200, <<0, 1>>, <<3, 2>>, 5) >>
\* further transforms / rules; calibrated like those of Poisson.tla (module docstring of vf/props/c16.py)
XTfOrigin == << XG("GaussChebyshev", "Becke", 100, <<0, 1>>, <<3, 2>>, 7),
                XG("GaussChebyshevType2", "Becke", 100, <<0, 1>>, <<3, 2>>, 5),
                XG("FejerFirst", "Becke", 100, <<0, 1>>, <<1, 1>>, 7),
                XG("Trapezoidal", "Becke", 100, <<0, 1>>, <<3, 2>>, 5),          \* contains r = 0 and r = 1e16
                XG("ClenshawCurtis", "Becke", 101, <<0, 1>>, <<3, 2>>, 7),       \* contains r = 0 and r = 1e16
                XG("GaussLegendre", "LinFinite", 200, <<0, 1>>, <<40, 1>>, 7),    \* finite range: boundary value at 40
                XG("UniformInteger", "LinInf", 500, <<1, 10000>>, <<40, 1>>, 5) >>   \* equidistant, h = 0.08 (300 points: 2.5e-5 at alpha = 3)
XTfNoOrigin == << XG("GaussLegendre", "HandyMod2", 200, <<0, 1>>, <<60, 1>>, 7),
                  XG("GaussLegendre", "Handy2", 220, <<0, 1>>, <<2, 1>>, 7),
                  XG("GaussLegendre", "HandyMod2", 220, <<0, 1>>, <<80, 1>>, 5) >>
XUnbounded(g_) == g_.map \in {"Becke", "Handy2"}                  \* range [rmin, oo): the initial-value route starts at r = 1000
\* the Laplacian differentiates the radial splines twice: 100-point Becke grids reach 2e-3, the equidistant one 3e-3;
\* it is replayed on the radial grids of the class Poisson.tla calibrates it for (>= 200 Gauss-Legendre points)
XLapCalibrated(g_) == g_.n >= 200 /\ g_.rule = "GaussLegendre"
XHasZero(g_) == g_.rule \in {"Trapezoidal", "ClenshawCurtis"} /\ g_.rmin = <<0, 1>>
XFirstTiny(g_) == g_.map \in {"Handy2", "HandyMod2"} /\ g_.rule = "GaussLegendre"   \* first radial point ~1e-9
\* atoms of heterogeneous molecular grids: different numbers of radial points and maps, degree 7
XMolGrids == << XG("GaussLegendre", "Handy2", 200, <<0, 1>>, <<1, 1>>, 7),
                XG("GaussLegendre", "Handy2", 160, <<0, 1>>, <<1, 1>>, 7),
                XG("GaussLegendre", "HandyMod2", 200, <<0, 1>>, <<60, 1>>, 7),
                XG("GaussLegendre", "Handy2", 180, <<0, 1>>, <<3, 2>>, 7) >>
XMolAtnums == << <<1, 1, 1>>, <<7, 7, 7>>, <<6, 6, 6>>, <<9, 9, 9>> >>
\* pruned atomic grids: shell of radius r gets degs[1 + #{j : cuts[j] < r}]
XPruned == << [cuts |-> << Q(1, 2) >>, degs |-> <<3, 7>>],
              [cuts |-> << Q(1, 2) >>, degs |-> <<7, 3>>],
              [cuts |-> << Q(3, 10), QI(3) >>, degs |-> <<3, 7, 5>>],
              [cuts |-> << Q(1, 5), QI(1) >>, degs |-> <<5, 3, 7>>],
              [cuts |-> << QI(1) >>, degs |-> <<3, 9>>],
              [cuts |-> << QI(1) >>, degs |-> <<7, 3>>] >>
\* band limit: a shell of degree d keeps the channels l' <= d \div 2 and integrates polynomials of degree <= d
\* exactly; a density with content up to l is projected exactly on every kept channel iff l + d \div 2 <= d,
\* and loses nothing iff l <= d \div 2
ShellExact(d_, l_) == l_ <= d_ \div 2 /\ l_ + d_ \div 2 <= d_
RECURSIVE SeqMax(_)
SeqMax(s_) == IF Len(s_) = 1 THEN s_[1] ELSE Max2(s_[1], SeqMax(Tail(s_)))
\* the pruning must matter: some sector of less than the maximal degree reaches into the region where the l > 0
\* part of the density lives (it starts at 0, or at a radius c with alpha c^2 <= 3) - otherwise a pruned grid is
\* indistinguishable from a uniform one (a cut at r = 2 with alpha = 11/4 was: e^-11)
PrunedBites(c_) == \E j_ \in 1..Len(c_.pruned.degs) :
    /\ c_.pruned.degs[j_] < SeqMax(c_.pruned.degs)
    /\ (j_ = 1 \/ \A k_ \in 1..Len(c_.terms) :
            c_.terms[k_].l > 0 => QLe(QMul(c_.terms[k_].alpha, QMul(c_.pruned.cuts[j_ - 1], c_.pruned.cuts[j_ - 1])), QI(3)))
ShellLaw == /\ \A d_ \in {3, 5, 7, 9, 11} : ShellExact(d_, d_ \div 2) /\ ~ShellExact(d_, d_ \div 2 + 1)
            /\ ~ShellExact(3, 2) /\ ShellExact(5, 2) /\ ~ShellExact(5, 3) /\ ShellExact(7, 3)

\* ---- options -----------------------------------------------------------------------------------
\* documented defaults of solve_poisson_bvp (signature / docstring): every record below denotes the SAME call
XDocDefaults == [boundary |-> "None", include_origin |-> TRUE, remove_large_pts |-> 1000000]
XOptVariants == << [boundary |-> "omit", include_origin |-> "omit", remove_large_pts |-> "omit", ode_params |-> "omit"],
                   [boundary |-> "None", include_origin |-> "omit", remove_large_pts |-> "omit", ode_params |-> "omit"],
                   [boundary |-> "omit", include_origin |-> "True", remove_large_pts |-> "omit", ode_params |-> "omit"],
                   [boundary |-> "omit", include_origin |-> "omit", remove_large_pts |-> "1e6", ode_params |-> "omit"],
                   [boundary |-> "omit", include_origin |-> "omit", remove_large_pts |-> "None", ode_params |-> "omit"],   \* needs: no radial point > 1e6
                   [boundary |-> "omit", include_origin |-> "omit", remove_large_pts |-> "omit", ode_params |-> "None"],
                   [boundary |-> "omit", include_origin |-> "omit", remove_large_pts |-> "omit", ode_params |-> "empty"],
                   [boundary |-> "None", include_origin |-> "True", remove_large_pts |-> "1e6", ode_params |-> "None"] >>
OptionEquivSane == \A i_ \in 1..Len(XOptVariants) :
    /\ XOptVariants[i_].boundary \in {"omit", XDocDefaults.boundary}
    /\ XOptVariants[i_].include_origin \in {"omit", "True"} /\ XDocDefaults.include_origin
    /\ XOptVariants[i_].remove_large_pts \in {"omit", "1e6", "None"} /\ XDocDefaults.remove_large_pts = 10 * 10 * 10 * 10 * 10 * 10
\* initial-value route: interval (b, a) and integrator; all inside "b large, a small but not zero"
\* (the default interval (1000, 1e-5) is left out: it runs the integration below the first radial point of every
\*  grid used here, where the density is an extrapolated spline - measured 2e-3 instead of 3e-5, 2.6 s)
XIvpVariants == << [b |-> <<1000, 1>>, a |-> <<1, 1000>>, method |-> "omit"],
                   [b |-> <<500, 1>>, a |-> <<1, 1000>>, method |-> "omit"],
                   [b |-> <<1000, 1>>, a |-> <<1, 100>>, method |-> "RK45"],
                   [b |-> <<1000, 1>>, a |-> <<1, 1000>>, method |-> "LSODA"],
                   [b |-> <<2000, 1>>, a |-> <<1, 500>>, method |-> "DOP853"] >>
XCutoffs == << <<0, 1>>, <<1, 1000000>>, <<1, 1000>>, <<1, 100000000>> >>     \* <<0, 1>> = argument omitted; all below the smallest evaluation radius 3/10

\* ---- argument forms ----------------------------------------------------------------------------
\* prec = k: the result may differ from the float64 / ndarray call by 10^-k relative (12: same numbers up to
\* summation order; 5: argument rounded to single precision, eps = 6e-8, with > 2 orders of margin)
\* Solvers integrate (errors of the arguments are damped); the Laplacian differentiates twice (single-precision noise
\* eps / h^2 ~ 1e-4 on these radial grids), so a float32 density is not in its class.  The initial-value route
\* amplifies perturbations like its integrator's tolerance: its forms are judged with the accuracy of the route.
XFuncForms == << [form |-> "float32", prec |-> 5], [form |-> "list", prec |-> 12], [form |-> "longdouble", prec |-> 12],
                 [form |-> "readonly", prec |-> 12], [form |-> "strided", prec |-> 12], [form |-> "same-object-twice", prec |-> 12] >>
XPointForms == << [form |-> "float32", prec |-> 5], [form |-> "readonly", prec |-> 12], [form |-> "fortran", prec |-> 12],
                  [form |-> "strided", prec |-> 12], [form |-> "longdouble", prec |-> 12], [form |-> "single-point", prec |-> 12] >>
XGridForms == << [form |-> "molgrid-of-one-atom", prec |-> 12] >>
XRobustForms == << [form |-> "atnums-list", prec |-> 12], [form |-> "atnums-int32", prec |-> 12], [form |-> "atnums-float", prec |-> 12],
                   [form |-> "atcoords-list", prec |-> 12], [form |-> "density-list", prec |-> 12], [form |-> "density-float32", prec |-> 5],
                   [form |-> "points-list", prec |-> 12], [form |-> "basis-list", prec |-> 12], [form |-> "basis-int", prec |-> 12] >>
FormsSane == \A s_ \in {XFuncForms, XPointForms, XGridForms, XRobustForms} : \A i_ \in 1..Len(s_) : s_[i_].prec \in {5, 12}

\* ---- evaluation points ---------------------------------------------------------------------------
\* lo / hi = range of the distance to the nearest atom, log-uniform; "centre" = exactly the atomic centres
XPointSets == << [name |-> "near", lo |-> <<1, 1000000>>, hi |-> <<1, 20>>],
                 [name |-> "far", lo |-> <<8, 1>>, hi |-> <<500, 1>>],
                 [name |-> "centre", lo |-> <<0, 1>>, hi |-> <<0, 1>>] >>
\* near points need the ODE to start below them: r = 0 added (include_origin) or first radial point ~1e-9 and lo >= 1e-3
\* (u(r_1) = 0 is imposed at the first point r_1 ~ 1.3e-9: relative error r_1 / r, 1e-6 at r = 1e-3)
XNearLo(g_, origin_) == IF origin_ THEN <<1, 1000000>> ELSE <<1, 1000>>

\* ---- the affine law of the robust solver, derived ---------------------------------------------------
\* with L the (linear) map rho -> potential of the plain solver and core fixed by (atnums, atcoords):
\*    Rob[rho] = Vc + L[rho - core].  Then for weights a + b = 1:
\*    a Rob[r1] + b Rob[r2] = (a + b) Vc + L[a r1 + b r2 - (a + b) core] = Rob[a r1 + b r2].
\* TLC checks, in the channel algebra with an INEXACT but linear solver L = lam * (exact solution), that the
\* combination law holds exactly when the weights sum to one (or the solver is exact): plain linearity is
\* NOT a law of the robust solver, the affine form is - which is what the harness replays.
AffineDerived ==
    pp = "alg" => \A l_ \in {0, 1} : \A lam_ \in {Q(1, 2), Q(9, 10), QOne} : \A a_, b_ \in {QI(2), Q(3, 4), Q(-1, 2), Q(1, 4), QI(-1)} :
        LET u_ == ChanU(ca, l_, ChanCoef[l_])
            uc_ == EScale(QI(5), u_)                       \* exact potential of the core model
            w1_ == EScale(QI(3), u_)
            w2_ == EScale(QI(-2), u_)
            rob_(w_) == EAdd(uc_, EScale(lam_, EAdd(w_, EScale(QI(-1), uc_))))
            lhs_ == EAdd(EScale(a_, rob_(w1_)), EScale(b_, rob_(w2_)))
            rhs_ == rob_(EAdd(EScale(a_, w1_), EScale(b_, w2_)))
        IN (lhs_ = rhs_) <=> (QAdd(a_, b_) = QOne \/ lam_ = QOne)

\* ---- cases -----------------------------------------------------------------------------------------
XKinds == << "x_pruned", "x_hetmol", "x_law", "x_defaults", "x_forms", "x_pts", "x_tf", "x_lin" >>
XBase == 1000
\* s terms: lead coefficient, further ones = lead * ratio (|total charge| >= |lead| / 2 for at most two further terms)
XSTerms(n_, cnt_, d_) ==
    LET lead_ == XDraw(XLeadPool, n_, 10)
    IN [k_ \in 1..cnt_ |-> STerm(IF k_ = 1 THEN lead_ ELSE QMul(lead_, XDraw(XRatioPool, n_, 10 + k_)), XDraw(XAlphaPool, n_, k_), d_)]
XL1(n_) == CTerm(1, (XH(n_, 7) % 3) + 1, XDraw(XChanCoefPool, n_, 8), XDraw(XAlphaPool, n_, 9))
XCentre(n_) == << XDraw(XCompPool, n_, 21), XDraw(XCompPool, n_, 22), XDraw(XCompPool, n_, 23) >>
XCase(n_) ==
    LET kind_ == Pick(XKinds, n_)
        m_ == n_ \div Len(XKinds)
        ctr_ == XCentre(n_)
        rot_ == 1 + (XH(n_, 30) % 997)
        sep_ == Pick(<<QI(8), QI(10), QI(9), QI(12)>>, XH(n_, 31))
        nat_ == CASE kind_ = "x_hetmol" -> 2 + (XH(n_, 32) % 2)
                  [] kind_ = "x_law" -> 1 + (m_ % 2)
                  [] kind_ = "x_pts" -> IF m_ % 3 = 2 THEN 2 ELSE 1
                  [] kind_ = "x_lin" -> IF m_ % 4 = 3 THEN 2 ELSE 1
                  [] OTHER -> 1
        \* spherical single-atom cases may add r = 0 (include_origin); everything with l > 0 content or several atoms may not
        origin_ == CASE kind_ \in {"x_defaults"} -> TRUE
                     [] kind_ \in {"x_law", "x_pts", "x_tf", "x_forms"} /\ nat_ = 1 -> XBool(n_, 33)
                     [] OTHER -> FALSE
        atoms_ == [j_ \in 1..nat_ |-> IF j_ = 1 THEN ctr_
                                       ELSE IF j_ = 2 THEN VAdd(ctr_, <<sep_, QI(0), QI(0)>>)
                                       ELSE VAdd(ctr_, <<QI(0), sep_, QI(0)>>)]
        g1_ == CASE kind_ = "x_tf" -> (IF origin_ THEN XDraw(XTfOrigin, n_, 34) ELSE XDraw(XTfNoOrigin, n_, 34))
                 [] kind_ = "x_pruned" -> XGLNoOrigin[1]
                 [] OTHER -> (IF origin_ THEN XDraw(XGLOrigin, n_, 34) ELSE XDraw(XGLNoOrigin, n_, 34))
        grids_ == [j_ \in 1..nat_ |-> IF kind_ = "x_hetmol" THEN Pick(XMolGrids, XH(n_, 35) + j_) ELSE g1_]
        ns_ == IF nat_ > 1 THEN nat_ ELSE IF kind_ = "x_lin" THEN 2 + (XH(n_, 40) % 2) ELSE 1 + (XH(n_, 40) % 3)
        st_ == XSTerms(n_, ns_, Zero3)
        solver_ == IF kind_ = "x_lin" THEN Pick(<<"ivp", "lap", "bvp", "bvp">>, m_) ELSE "bvp"
        \* l > 0 content needs an unbounded radial range (as for rcut in Poisson.tla: u_l(r_max) = 0 is imposed, but u_l ~ r^-l)
        chan_ == ~origin_ /\ nat_ = 1 /\ solver_ # "ivp" /\ kind_ \in {"x_pruned", "x_forms", "x_tf", "x_lin", "x_law"}
                 /\ (kind_ = "x_pruned" \/ XBool(n_, 41)) /\ (kind_ = "x_law" \/ XUnbounded(g1_))
        terms_ == IF chan_ THEN st_ \o << XL1(n_) >> ELSE st_
        els_ == [j_ \in 1..nat_ |-> XDraw(ParamKeys, n_, 50 + j_)]
    IN [id |-> XBase + n_, kind |-> kind_, atoms |-> atoms_, grids |-> grids_, rot |-> rot_, sep |-> sep_,
        terms |-> terms_, origin |-> origin_, elements |-> els_,
        atnums |-> IF kind_ = "x_hetmol" THEN SubSeq(XDraw(XMolAtnums, n_, 36), 1, nat_) ELSE [j_ \in 1..nat_ |-> 1],
        \* the ODE variable: inverse of the first atom's map, except on heterogeneous molecules (one transform
        \* serves every atom there, so it must have an unbounded range: Handy2 with R = 1)
        ode |-> IF kind_ = "x_hetmol" THEN XMolGrids[1] ELSE g1_,
        pruned |-> IF kind_ = "x_pruned" THEN XDraw(XPruned, n_, 37) ELSE [cuts |-> << >>, degs |-> << >>],
        ctor |-> IF kind_ = "x_pruned" THEN Pick(<<"degrees", "from_pruned">>, XH(n_, 38)) ELSE "degrees",
        lin |-> << XDraw(XLinPool, n_, 42), XDraw(XLeadPool, n_, 43) >>,          \* the second weight is never 0
        aff |-> XDraw(XAffPool, n_, 44),
        solver |-> solver_,
        \* x_law: arbitrary (also "wrong") option values - the law holds for every option record
        rcut |-> IF kind_ = "x_law" THEN XDraw(<<0, 40, 60, 25>>, n_, 45) ELSE 0,
        boundary |-> IF kind_ = "x_law" THEN XDraw(<< "auto", Q(37, 100), Q(-6, 5), QI(2) >>, n_, 46) ELSE "auto",
        corescale |-> XDraw(<< QI(1), Q(7, 10), Q(1, 2), Q(5, 4) >>, n_, 47),
        split2 |-> kind_ = "x_forms" /\ XBool(n_, 48),
        optvariants |-> IF kind_ = "x_defaults" THEN XOptVariants ELSE << >>,
        ivpvariants |-> IF kind_ = "x_defaults" THEN XIvpVariants ELSE << >>,
        \* the initial-value variants run on the grids the route is calibrated for in Poisson.tla (ivp_s cases)
        ivpgrid |-> XDraw(XGLNoOrigin, n_, 49),
        ivp |-> kind_ = "x_tf" /\ ~chan_ /\ XUnbounded(g1_),
        lap |-> kind_ \in {"x_tf", "x_pruned"} /\ XLapCalibrated(g1_),
        cutoffs |-> IF kind_ = "x_defaults" THEN XCutoffs ELSE << >>,
        funcforms |-> IF kind_ = "x_forms" THEN XFuncForms ELSE << >>,
        pointforms |-> IF kind_ = "x_forms" THEN XPointForms ELSE << >>,
        gridforms |-> IF kind_ = "x_forms" THEN XGridForms ELSE << >>,
        robustforms |-> IF kind_ = "x_forms" THEN XRobustForms ELSE << >>,
        \* exactly at a centre: the ODE mesh must contain r = 0 (include_origin) for the single-atom accuracy class; on
        \* molecular grids (first radial point ~1e-9, class "mol") the potential at the nuclei is what users evaluate
        pointsets |-> IF kind_ = "x_pts"
                      THEN << [name |-> "near", lo |-> XNearLo(g1_, origin_), hi |-> <<1, 20>>], XPointSets[2] >>
                           \o (IF origin_ \/ nat_ > 1 THEN << XPointSets[3] >> ELSE << >>)
                      ELSE << >>]
NX == 240

XCharge(c_) == QSum([k_ \in 1..Len(c_.terms) |-> IF c_.terms[k_].l = 0 THEN c_.terms[k_].c ELSE QZero])
XLead(c_) == c_.terms[1].c
XCaseAdmissible(c_) ==
    /\ \A k_ \in 1..Len(c_.terms) :
          /\ InEnv(c_.terms[k_].alpha)
          /\ c_.terms[k_].d = Zero3
          /\ c_.terms[k_].l \in {0, 1} /\ c_.terms[k_].i \in 1..Len(Harm[c_.terms[k_].l])
          /\ c_.terms[k_].c # QZero
    /\ c_.terms[1].l = 0
    \* no cancellation of the monopole: relative deviations are taken against max |V|
    /\ (Len(c_.atoms) = 1 => QLe(QMul(Q(1, 2), QAbs(XLead(c_))), QAbs(XCharge(c_))))
    /\ Len(c_.grids) = Len(c_.atoms) /\ Len(c_.atnums) = Len(c_.atoms) /\ Len(c_.elements) = Len(c_.atoms)
    /\ (Len(c_.atoms) > 1 => QLe(QI(7), c_.sep) /\ Len(c_.terms) >= Len(c_.atoms))
    /\ \A j_ \in 1..Len(c_.grids) :
          /\ c_.grids[j_].deg \div 2 >= 2
          /\ (~c_.origin => XFirstTiny(c_.grids[j_]))                 \* u(first radial point) = 0 accurate to ~1e-9
    /\ (c_.origin => /\ Len(c_.atoms) = 1 /\ \A k_ \in 1..Len(c_.terms) : c_.terms[k_].l = 0
                     /\ ~XFirstTiny(c_.grids[1]))                       \* Handy-type maps have dr/dx = 0 at r = 0
    /\ (c_.kind = "x_pruned" =>
          /\ Len(c_.pruned.degs) = Len(c_.pruned.cuts) + 1
          /\ \A j_ \in 1..Len(c_.pruned.degs) : \A k_ \in 1..Len(c_.terms) : ShellExact(c_.pruned.degs[j_], c_.terms[k_].l)
          /\ \A j_ \in 1..(Len(c_.pruned.cuts) - 1) : QLt(c_.pruned.cuts[j_], c_.pruned.cuts[j_ + 1])
          /\ SeqMax(c_.pruned.degs) \div 2 >= 2
          /\ PrunedBites(c_))
    /\ (c_.kind = "x_hetmol" => \E i_, j_ \in 1..Len(c_.grids) : c_.grids[i_].n # c_.grids[j_].n \/ c_.grids[i_].map # c_.grids[j_].map)
    /\ c_.lin[2] # QZero
    /\ (c_.kind # "x_law" => \A k_ \in 1..Len(c_.terms) : c_.terms[k_].l > 0 => XUnbounded(c_.grids[1]) /\ c_.rcut = 0)
    /\ (c_.ivp => XUnbounded(c_.grids[1]) /\ \A k_ \in 1..Len(c_.terms) : c_.terms[k_].l = 0)
    /\ XUnbounded(c_.ivpgrid)
    /\ (c_.kind = "x_lin" => Len(c_.terms) >= 2)
    /\ (c_.solver = "ivp" => \A k_ \in 1..Len(c_.terms) : c_.terms[k_].l = 0)      \* the initial-value route: spherical densities
    /\ (c_.kind = "x_law" => c_.corescale # QZero /\ (c_.rcut # 0 => c_.rcut >= 25))
    /\ (c_.kind = "x_defaults" => c_.origin /\ c_.grids[1].map = "Becke" /\ c_.grids[1].rule = "GaussLegendre")
    /\ \A i_ \in 1..Len(c_.pointsets) :
          /\ QLe(c_.pointsets[i_].lo, c_.pointsets[i_].hi)
          /\ (c_.pointsets[i_].name = "near" => QLe(XNearLo(c_.grids[1], c_.origin), c_.pointsets[i_].lo))
    /\ \A i_ \in 1..Len(c_.cutoffs) : QLt(c_.cutoffs[i_], Q(3, 10))

PickXCase == /\ pp = "idle" /\ \E n_ \in 0..NX - 1 : cidx' = n_
             /\ pp' = "xcase" /\ UNCHANGED <<ck, ca>>
XNext == PNext \/ PickXCase
XSpec == PInit /\ [][XNext]_pvars

XCasesSound == pp = "xcase" => XCaseAdmissible(XCase(cidx)) /\ PrintT(<<"XCASE", XCase(cidx)>>)
XTablesSane == ShellLaw /\ OptionEquivSane /\ FormsSane
=============================================================================
