SPECIFICATION Spec
CONSTANT Writes = "none"
INVARIANT FrameObserved
INVARIANT ProgramsWellFormed
INVARIANT Complete
INVARIANT Emit
PROPERTY CallerFrame
