---------------------------- MODULE LocalGridBase ----------------------------
\* sentinels shared by the C10 modules
EXTENDS Integers
Inf == -1                   \* infinite radius
None == <<>>                \* no neighbour tree built yet
NoneV == 1000000            \* Python's None inside slices
=============================================================================
