SPECIFICATION HSpec
CONSTANT LTree = 12
CONSTANT LExact = 6
CONSTANT LOrth = 4
CONSTANT LRow = 80
CONSTANT EmitFile = "harmonics_trees.json"
INVARIANT AdditionTheorem
INVARIANT Parity
INVARIANT PoleValues
INVARIANT DerivativeRoutesAgree
INVARIANT OrthonormalExact
INVARIANT RowOrder
INVARIANT CartSphInverse
INVARIANT LatticeIsLattice
