-------------------------------- MODULE Exact --------------------------------
(***************************************************************************)
(* Exact rational arithmetic for TLC.  A rational is a pair <<n, d>> with  *)
(* d > 0 and gcd(|n|, d) = 1.  TLC integers are 32 bit and overflow is an  *)
(* evaluation ERROR (never a silent wrap), so every identity checked with  *)
(* these operators is either exact or the run fails loudly.                *)
(***************************************************************************)
EXTENDS Integers, Sequences

Abs(i) == IF i < 0 THEN -i ELSE i
Sgn(i) == IF i < 0 THEN -1 ELSE IF i > 0 THEN 1 ELSE 0
Min2(a, b) == IF a <= b THEN a ELSE b
Max2(a, b) == IF a >= b THEN a ELSE b

RECURSIVE Gcd(_, _)
Gcd(a, b) == IF b = 0 THEN a ELSE Gcd(b, a % b)

\* floor and ceiling of n/d for d > 0 (TLC's \div already floors for positive divisors)
FloorDiv(n, d) == n \div d
CeilDiv(n, d) == -((-n) \div d)

Q(n, d) ==  \* normalised rational n/d, d # 0
    LET s == IF d < 0 THEN -1 ELSE 1
        g == Gcd(Abs(n), Abs(d))
    IN IF n = 0 THEN <<0, 1>> ELSE <<(s * n) \div g, (s * d) \div g>>
QI(i) == <<i, 1>>
QZero == <<0, 1>>
QOne == <<1, 1>>
QAdd(a, b) == Q(a[1] * b[2] + b[1] * a[2], a[2] * b[2])
QNeg(a) == <<-a[1], a[2]>>
QSub(a, b) == QAdd(a, QNeg(b))
QMul(a, b) == Q(a[1] * b[1], a[2] * b[2])
QInv(a) == Q(a[2], a[1])
QDiv(a, b) == Q(a[1] * b[2], a[2] * b[1])
QLt(a, b) == a[1] * b[2] < b[1] * a[2]
QLe(a, b) == a[1] * b[2] <= b[1] * a[2]
QEq(a, b) == a[1] * b[2] = b[1] * a[2]
QSgn(a) == Sgn(a[1])
QAbs(a) == <<Abs(a[1]), a[2]>>
QFloor(a) == FloorDiv(a[1], a[2])
QCeil(a) == CeilDiv(a[1], a[2])
QIsInt(a) == a[2] = 1
RECURSIVE QPow(_, _)
QPow(a, k) == IF k = 0 THEN QOne ELSE IF k < 0 THEN QPow(QInv(a), -k) ELSE QMul(a, QPow(a, k - 1))

RECURSIVE QSum(_)
QSum(s) == IF s = <<>> THEN QZero ELSE QAdd(Head(s), QSum(Tail(s)))
RECURSIVE QProd(_)
QProd(s) == IF s = <<>> THEN QOne ELSE QMul(Head(s), QProd(Tail(s)))
RECURSIVE ISum(_)
ISum(s) == IF s = <<>> THEN 0 ELSE Head(s) + ISum(Tail(s))

\* integer square root (floor) by bisection on [0, n]
RECURSIVE ISqrtB(_, _, _)
ISqrtB(n, lo, hi) ==  \* invariant lo^2 <= n < (hi+1)^2
    IF lo >= hi THEN lo
    ELSE LET mid == (lo + hi + 1) \div 2 IN
         IF mid * mid <= n THEN ISqrtB(n, mid, hi) ELSE ISqrtB(n, lo, mid - 1)
ISqrt(n) == ISqrtB(n, 0, Min2(n, 46340))
IsSquare(n) == n >= 0 /\ ISqrt(n) * ISqrt(n) = n
=============================================================================
