SPECIFICATION JSpec
CONSTANT Tier = "thorough"
INVARIANT FormsConform
INVARIANT FormsComplete
INVARIANT SysConform
INVARIANT SysComplete
INVARIANT LatticeComplete
