----------------------------- MODULE GridSystem -----------------------------
(***************************************************************************)
(* The PRODUCT state machine of the library's stateful parts (X03):         *)
(* angular caches (CacheSys), points / weights / neighbour tree             *)
(* (LocalGridSys), caller buffers (CallFrame) - composed over ONE heap of   *)
(* array buffers, so that TLC explores interleavings ACROSS subsystems:     *)
(* build an AngularGrid (cache fill), an AtomGrid from the same (method,    *)
(* degree), a MolGrid from atoms, hand arrays of one object to another,     *)
(* edit any reachable array in place, query, select, integrate ...          *)
(*                                                                          *)
(* heap   buffer id -> [own in {"caller","lib","cache","free"}, c, ver]     *)
(*        c = content: a sequence of CELLS.  A weight cell is an integer    *)
(*        (an integer-valued float is itself; every other float is an       *)
(*        opaque token >= BIG, tokens of x and 2x differ by one).  A point   *)
(*        cell is <<x, y, z>> (integer-valued row) or <<token>> (opaque).    *)
(* cache  <<method, degree>> -> [p, w] buffer ids of the cached raw arrays   *)
(*        (0 = absent)                                                       *)
(* objs   slot -> object record.  An array of an object is a REFERENCE       *)
(*        <<buffer, offset, length>>; two arrays share memory iff their      *)
(*        references overlap.  Kinds: Grid, Ang, Loc, Atom, Mol.            *)
(* obs    what the caller sees of the last call                              *)
(*                                                                          *)
(* The ALIASING TABLE `Shares` (a constant; ShippedShares is what the       *)
(* library does) says for every array of every result whether it IS the     *)
(* array it was made from / was given (TRUE: same memory or a view) or a    *)
(* fresh array (FALSE).  Every action builds its result through it, the     *)
(* trace specification compares the aliasing it implies with                *)
(* np.shares_memory on the real objects after every call.                   *)
(*                                                                          *)
(* All actions are pure functions Do(state, action) of a state record, so   *)
(* that the exhaustive instance (MC_GridSystem), the behaviour generator    *)
(* (GridSystemGen) and the trace judge (GridSystemTrace) share one          *)
(* definition.  An action is a tuple <<name, args...>>.                      *)
(***************************************************************************)
EXTENDS Integers, Sequences, FiniteSets, TLC

CONSTANTS Methods,      \* set of method names
          Scaled,       \* subset of Methods whose weights are multiplied by 4 pi (a fresh array)
          Degrees,      \* set of degrees
          NCen,         \* number of alternative atomic centres, Tab.cen[1..NCen]
          MaxObjs,      \* bound on simultaneously live objects (slots)
          NBuf,         \* bound on simultaneously allocated buffers
          Vals,         \* pattern numbers for caller-made data (NewGrid, SetPoints, SetWeights, Edit)
          GridSizes,    \* sizes of caller-built grids
          QCen,         \* set of query centres (integer vectors)
          Radii,        \* set of radii R = 2 r^2, or Inf
          Sels,         \* set of selections <<"int", i>> | <<"slice", a, b>>
          FVals,        \* integrand pattern numbers
          AimVals,      \* atom-in-molecule weight patterns (1 = all ones, 2 = ones and twos)
          Tab,          \* contents of what the library derives from the shipped files (see below)
          Shares,       \* the aliasing table: row name -> BOOLEAN
          Aliasing,     \* "copying" | "asShipped" (instances receive the cached arrays: refuted)
          Discipline    \* TRUE: the caller never queries through a neighbour tree that an in-place
                        \*       edit has outdated; FALSE: it may (TreeFresh is then refuted)

\* Tab.angp[<<m,d>>], Tab.angwraw[<<m,d>>]  the shipped points / raw weights
\* Tab.angw[<<m,d>>]                         the weights of an AngularGrid (4 pi applied)
\* Tab.atomw[<<m,d>>], Tab.atomp[<<m,d,ci>>] weights / centred points of AtomGrid(rgrid, [d], method=m, center=cen[ci])
\* Tab.shellp[<<m,d,i>>], Tab.shellw[<<m,d,i,rsq>>]   get_shell_grid(i-1, r_sq = (rsq = 1))
\* Tab.cen[ci]                                the centre (one point cell);  Tab.nsh  number of shells

BIG == 100000
Inf == -1
Dirty == BIG - 1                 \* content that is neither caller data nor derived from the shipped data
NoRef == <<0, 0, 0>>
Free == [own |-> "free", c |-> <<>>, ver |-> 0]
MD == Methods \X Degrees

\* ---- the aliasing table as shipped ---------------------------------------------------------
\* TRUE = the result array IS (or is a view of) the source / argument array
ShippedShares ==
    [GridP   |-> TRUE,   \* Grid(points, weights) stores the arrays it is given
     GridW   |-> TRUE,
     SetP    |-> TRUE,   \* grid.points = P / grid.weights = W store the assigned array
     SetW    |-> TRUE,
     QInfP   |-> TRUE,   \* get_localgrid(c, inf): the local grid holds the parent's arrays themselves
     QInfW   |-> TRUE,
     QFinP   |-> FALSE,  \* finite radius: gathered copies
     QFinW   |-> FALSE,
     LocC    |-> TRUE,   \* LocalGrid.center is the array passed as centre
     ItemP   |-> FALSE,  \* grid[sel]: copies (np.array(...)), also for slices
     ItemW   |-> FALSE,
     AtomC   |-> TRUE,   \* AtomGrid.center is np.asarray(center): the caller's float array itself
     MolAim  |-> TRUE,   \* MolGrid.aim_weights is the array passed in (or returned by the callback)
     Stored  |-> TRUE,   \* store=True: get_atomic_grid(i) returns the AtomGrid object that was passed in
     AtLocP  |-> TRUE,   \* store=False: get_atomic_grid(i) = LocalGrid over VIEWS of mol.points,
     AtLocW  |-> TRUE,   \*              mol.atweights
     AtLocC  |-> TRUE,   \*              and mol.atcoords[i]
     ItLocP  |-> TRUE,   \* store=False: mol[i] = LocalGrid over views of mol.points,
     ItLocW  |-> TRUE,   \*              mol.weights
     ItLocC  |-> TRUE]   \*              and mol.atcoords[i]
\* Not rows, because no alternative exists in the model: AngularGrid / AtomGrid.weights / get_shell_grid /
\* MolGrid.points, atweights, weights, atcoords are FRESH arrays (checked by FreshIsFresh and by the
\* observed aliasing); AtomGrid.points is a fresh array on EVERY access (it is _points + center).

\* ---- caller-made data -----------------------------------------------------------------------
PatW(v_, n_) == [k_ \in 1..n_ |-> 100 * v_ + k_]
PatP(v_, n_) == [k_ \in 1..n_ |-> <<k_ - 1, v_, 0>>]
FPat(v_, n_) == [k_ \in 1..n_ |-> v_ + (k_ % 3)]
AimPat(v_, n_) == [k_ \in 1..n_ |-> IF v_ = 1 THEN 1 ELSE 1 + (k_ % 2)]

\* ---- cells ----------------------------------------------------------------------------------
OpaqueW(x_) == x_ >= Dirty
OpaqueP(cell_) == cell_[1] >= Dirty
MulW(a_, b_) == IF ~OpaqueW(a_) /\ ~OpaqueW(b_) THEN a_ * b_
                ELSE IF a_ >= BIG /\ b_ = 1 THEN a_
                ELSE IF a_ >= BIG /\ b_ = 2 THEN a_ + 1      \* doubling a float is exact: next token
                ELSE Dirty
DirtyW(n_) == [k_ \in 1..n_ |-> Dirty]
DirtyP(n_) == [k_ \in 1..n_ |-> <<Dirty>>]

\* ---- geometry (integer cells only) ------------------------------------------------------------
Sq(x_) == x_ * x_
Dist2(p_, q_) == Sq(p_[1] - q_[1]) + Sq(p_[2] - q_[2]) + Sq(p_[3] - q_[3])
InBall(p_, q_, r_) == r_ = Inf \/ 2 * Dist2(p_, q_) <= r_
Decidable(pp_) == \A k_ \in 1..Len(pp_) : ~OpaqueP(pp_[k_])
BallSet(pp_, q_, r_) == {k_ - 1 : k_ \in {j_ \in 1..Len(pp_) : InBall(pp_[j_], q_, r_)}}
RECURSIVE SetToSortedSeq(_)
SetToSortedSeq(ss_) == IF ss_ = {} THEN <<>>
                       ELSE LET mn == CHOOSE x_ \in ss_ : \A y_ \in ss_ : x_ <= y_
                            IN <<mn>> \o SetToSortedSeq(ss_ \ {mn})
Gather(seq_, idx_) == [k_ \in 1..Len(idx_) |-> seq_[idx_[k_] + 1]]
SeqSet(q_) == {q_[k_] : k_ \in 1..Len(q_)}
RECURSIVE Dot(_, _, _)
Dot(ww_, ff_, k_) == IF k_ > Len(ww_) THEN 0 ELSE ww_[k_] * ff_[k_] + Dot(ww_, ff_, k_ + 1)

\* ---- selections (Python semantics, the fragment used here) --------------------------------------
SelOk(sel_, n_) == IF sel_[1] = "int" THEN -n_ <= sel_[2] /\ sel_[2] < n_
                   ELSE 0 <= sel_[2] /\ sel_[2] < sel_[3] /\ sel_[3] <= n_
SelIdx(sel_, n_) == IF sel_[1] = "int" THEN <<IF sel_[2] < 0 THEN sel_[2] + n_ ELSE sel_[2]>>
                    ELSE [k_ \in 1..(sel_[3] - sel_[2]) |-> sel_[2] + k_ - 1]

\* ---- objects ------------------------------------------------------------------------------------
Blank == [k |-> "none", p |-> NoRef, w |-> NoRef, atw |-> NoRef, aim |-> NoRef, c |-> NoRef,
          pc |-> <<>>, tree |-> -1, m |-> "", d |-> 0, at |-> <<>>, st |-> FALSE, seg |-> <<>>]
\* k     kind;  p, w  points / weights;  atw, aim  MolGrid.atweights / aim_weights;
\* c     centre (Atom, Loc) or atcoords (Mol);  pc  the points an AtomGrid reports (_points + center,
\*       a fresh array on every access, so not a reference);  tree  -1 = no neighbour tree, else the
\*       version of the points buffer it was built from;  m, d  method / degree;
\* at    slots of the stored atomic grids (store=True);  st  store flag;  seg  segment offsets
PartsOf(o_) == CASE o_.k = "Grid" -> {"p", "w"}
                 [] o_.k = "Ang"  -> {"p", "w"}
                 [] o_.k = "Loc"  -> {"p", "w", "c"}
                 [] o_.k = "Atom" -> {"w", "c"}
                 [] o_.k = "Mol"  -> {"p", "w", "atw", "aim", "c"}
                 [] OTHER -> {}
RefOf(o_, part_) == CASE part_ = "p" -> o_.p [] part_ = "w" -> o_.w [] part_ = "atw" -> o_.atw
                      [] part_ = "aim" -> o_.aim [] part_ = "c" -> o_.c
\* arrays a caller may scribble over (AtomGrid.points is a temporary: the edit is lost)
EditParts(o_) == CASE o_.k = "Mol" -> {"p", "w", "atw", "aim"}
                   [] o_.k = "none" -> {}
                   [] OTHER -> {"p", "w"}
Overlap(r1_, r2_) == /\ r1_[1] # 0 /\ r1_[1] = r2_[1]
                     /\ r1_[2] < r2_[2] + r2_[3] /\ r2_[2] < r1_[2] + r1_[3]
Sub(r_, lo_, n_) == <<r_[1], r_[2] + lo_, n_>>

\* ---- state records s_ = [heap, cache, objs] ----------------------------------------------------
Live(s_) == {i_ \in 1..MaxObjs : s_.objs[i_].k # "none"}
HasSlot(s_) == \E i_ \in 1..MaxObjs : s_.objs[i_].k = "none"
RECURSIVE FirstSlot(_, _)
FirstSlot(oo_, i_) == IF oo_[i_].k = "none" THEN i_ ELSE FirstSlot(oo_, i_ + 1)
FreeSlot(s_) == FirstSlot(s_.objs, 1)
AllParts(s_) == UNION {{<<i_, pt_>> : pt_ \in PartsOf(s_.objs[i_])} : i_ \in Live(s_)}
PRef(s_, x_) == RefOf(s_.objs[x_[1]], x_[2])
FreeIds(h_) == {b_ \in 1..NBuf : h_[b_].own = "free"}
Room(s_, n_) == Cardinality(FreeIds(s_.heap)) >= n_
RECURSIVE FirstFree(_, _)
FirstFree(h_, b_) == IF h_[b_].own = "free" THEN b_ ELSE FirstFree(h_, b_ + 1)
MinFree(h_) == FirstFree(h_, 1)
Put(h_, own_, cells_) ==
    LET b == MinFree(h_)
    IN [h |-> [h_ EXCEPT ![b] = [own |-> own_, c |-> cells_, ver |-> 0]], r |-> <<b, 0, Len(cells_)>>]
Content(h_, r_) == SubSeq(h_[r_[1]].c, r_[2] + 1, r_[2] + r_[3])
Write(h_, r_, cells_) ==
    LET old == h_[r_[1]]
    IN [h_ EXCEPT ![r_[1]] =
          [own |-> old.own, ver |-> old.ver + 1,
           c |-> [k_ \in 1..Len(old.c) |-> IF k_ > r_[2] /\ k_ <= r_[2] + r_[3] THEN cells_[k_ - r_[2]] ELSE old.c[k_]]]]
PtsOf(s_, o_) == IF o_.k = "Atom" THEN o_.pc ELSE Content(s_.heap, o_.p)
WtsOf(s_, o_) == Content(s_.heap, o_.w)
ContentOf(s_, x_) == Content(s_.heap, PRef(s_, x_))
CurVer(s_, o_) == IF o_.k = "Atom" THEN 0 ELSE s_.heap[o_.p[1]].ver
CacheBufs(s_) == UNION {{s_.cache[md_].p, s_.cache[md_].w} : md_ \in MD} \ {0}
\* buffers nobody can reach any more are released
Gc(s_) == LET keep == {PRef(s_, x_)[1] : x_ \in AllParts(s_)} \cup CacheBufs(s_)
          IN [s_ EXCEPT !.heap = [b_ \in 1..NBuf |-> IF b_ \in keep THEN s_.heap[b_] ELSE Free]]
AddObj(s_, o_) == [s_ EXCEPT !.objs = [@ EXCEPT ![FreeSlot(s_)] = o_]]
\* an array of a result: the source array itself (a reference into an existing buffer) or a new buffer
Mk(h_, share_, srcref_, own_, cells_) == IF share_ THEN [h |-> h_, r |-> srcref_] ELSE Put(h_, own_, cells_)
\* an argument array created by the caller for this call: kept by the result, or copied
Given(h_, keep_, cells_) == Put(h_, IF keep_ THEN "caller" ELSE "lib", cells_)

NoObs == [kind |-> "none", act |-> "", o |-> 0, part |-> "", what |-> <<>>, fresh |-> {}, given |-> {}, ret |-> 0,
          val |-> 0, idx |-> <<>>, q |-> <<>>, r |-> 0, tv |-> 0, cv |-> 0, hit |-> {}]

\* ---- the internal AngularGrid(degree, method, cache=flag): source arrays and cache afterwards ----
Hit(s_, md_) == s_.cache[md_].p # 0
AngSrc(s_, md_, flag_) ==
    IF Hit(s_, md_)
      THEN [s |-> s_, P |-> s_.heap[s_.cache[md_].p].c, W |-> s_.heap[s_.cache[md_].w].c]
      ELSE IF flag_
        THEN LET a == Put(s_.heap, "cache", Tab.angp[md_])
                 b == Put(a.h, "cache", Tab.angwraw[md_])
             IN [s |-> [s_ EXCEPT !.heap = b.h, !.cache = [@ EXCEPT ![md_] = [p |-> a.r[1], w |-> b.r[1]]]],
                 P |-> Tab.angp[md_], W |-> Tab.angwraw[md_]]
        ELSE [s |-> s_, P |-> Tab.angp[md_], W |-> Tab.angwraw[md_]]
ScaleW(md_, raw_) == IF md_[1] \in Scaled
                       THEN (IF raw_ = Tab.angwraw[md_] THEN Tab.angw[md_] ELSE DirtyW(Len(raw_)))
                       ELSE raw_
\* everything derived from an angular grid is the tabulated derivation of the shipped data - if the
\* source arrays were the shipped data
DerW(ok_, cells_) == IF ok_ THEN cells_ ELSE DirtyW(Len(cells_))
DerP(ok_, cells_) == IF ok_ THEN cells_ ELSE DirtyP(Len(cells_))

\* ============================ actions ============================================================
\* <<"NewAngular", m, d, f>>   AngularGrid(degree=d, method=m, cache=(f = 1))
DoNewAngular(s_, a_) ==
    LET md == <<a_[2], a_[3]>>
        src == AngSrc(s_, md, a_[4] = 1)
        s1 == src.s
        pal == Aliasing = "asShipped" /\ Hit(s1, md)
        wal == pal /\ md[1] \notin Scaled
        x == Mk(s1.heap, pal, <<s1.cache[md].p, 0, Len(src.P)>>, "lib", src.P)
        y == Mk(x.h, wal, <<s1.cache[md].w, 0, Len(src.W)>>, "lib", ScaleW(md, src.W))
        slot == FreeSlot(s_)
    IN [s |-> AddObj([s1 EXCEPT !.heap = y.h], [Blank EXCEPT !.k = "Ang", !.p = x.r, !.w = y.r, !.m = md[1], !.d = md[2]]),
        obs |-> [NoObs EXCEPT !.kind = "new", !.o = slot, !.what = <<"Ang", md[1], md[2]>>,
                              !.fresh = {<<slot, "p">>, <<slot, "w">>}]]

\* <<"NewGrid", vp, vw, n>>    Grid(P, W) on arrays the caller has just made
DoNewGrid(s_, a_) ==
    LET x == Given(s_.heap, Shares.GridP, PatP(a_[2], a_[4]))
        y == Given(x.h, Shares.GridW, PatW(a_[3], a_[4]))
        slot == FreeSlot(s_)
    IN [s |-> AddObj([s_ EXCEPT !.heap = y.h], [Blank EXCEPT !.k = "Grid", !.p = x.r, !.w = y.r]),
        obs |-> [NoObs EXCEPT !.kind = "new", !.o = slot,
                              !.given = (IF Shares.GridP THEN {<<slot, "p">>} ELSE {}) \cup (IF Shares.GridW THEN {<<slot, "w">>} ELSE {})]]

\* <<"NewGridFrom", o>>        Grid(o.points, o.weights): the arrays another object hands out
DoNewGridFrom(s_, a_) ==
    LET src == s_.objs[a_[2]]
        x == IF src.k = "Atom" THEN Put(s_.heap, "lib", src.pc)          \* a temporary of the library
             ELSE Mk(s_.heap, Shares.GridP, src.p, "lib", PtsOf(s_, src))
        y == Mk(x.h, Shares.GridW, src.w, "lib", WtsOf(s_, src))
        slot == FreeSlot(s_)
    IN [s |-> AddObj([s_ EXCEPT !.heap = y.h], [Blank EXCEPT !.k = "Grid", !.p = x.r, !.w = y.r]),
        obs |-> [NoObs EXCEPT !.kind = "new", !.o = slot, !.ret = a_[2],
                              !.given = (IF Shares.GridP THEN {<<slot, "p">>} ELSE {}) \cup (IF Shares.GridW THEN {<<slot, "w">>} ELSE {})]]

\* <<"SetPoints", o, v>>  /  <<"SetWeights", o, v>>   assignment of an array the caller has just made
DoSetPoints(s_, a_) ==
    LET o == s_.objs[a_[2]]
        x == Given(s_.heap, Shares.SetP, PatP(a_[3], o.p[3]))
    IN [s |-> [s_ EXCEPT !.heap = x.h, !.objs = [@ EXCEPT ![a_[2]] = [o EXCEPT !.p = x.r, !.tree = -1]]],
        obs |-> [NoObs EXCEPT !.kind = "set", !.o = a_[2], !.part = "p",
                              !.given = IF Shares.SetP THEN {<<a_[2], "p">>} ELSE {}]]
DoSetWeights(s_, a_) ==
    LET o == s_.objs[a_[2]]
        x == Given(s_.heap, Shares.SetW, PatW(a_[3], o.w[3]))
    IN [s |-> [s_ EXCEPT !.heap = x.h, !.objs = [@ EXCEPT ![a_[2]] = [o EXCEPT !.w = x.r]]],
        obs |-> [NoObs EXCEPT !.kind = "set", !.o = a_[2], !.part = "w",
                              !.given = IF Shares.SetW THEN {<<a_[2], "w">>} ELSE {}]]

\* <<"Edit", o, part, v>>      arr = o.<part>; arr[...] = pattern   (through the array the object hands out)
DoEdit(s_, a_) ==
    LET o == s_.objs[a_[2]]
        r == RefOf(o, a_[3])
        cells == IF a_[3] = "p" THEN PatP(a_[4], r[3]) ELSE PatW(a_[4], r[3])
        s1 == IF o.k = "Atom" /\ a_[3] = "p" THEN s_                      \* the edit hits a temporary
              ELSE [s_ EXCEPT !.heap = Write(s_.heap, r, cells)]
    IN [s |-> s1,
        obs |-> [NoObs EXCEPT !.kind = "edit", !.o = a_[2], !.part = a_[3],
                              !.hit = {x_ \in AllParts(s_) : ContentOf(s1, x_) # ContentOf(s_, x_)}]]

\* <<"Query", o, q, R, idx>>   o.get_localgrid(q, sqrt(R/2)); idx = the indices reported (any order)
TreeOk(s_, o_) == o_.tree = -1 \/ o_.tree = CurVer(s_, o_)
QIdx(s_, o_, q_, r_) == IF r_ = Inf THEN [k_ \in 1..Len(PtsOf(s_, o_)) |-> k_ - 1]
                        ELSE SetToSortedSeq(BallSet(PtsOf(s_, o_), q_, r_))
DoQuery(s_, a_) ==
    LET o == s_.objs[a_[2]]
        inf == a_[4] = Inf
        pts == PtsOf(s_, o)
        wts == WtsOf(s_, o)
        x == IF inf THEN (IF o.k = "Atom" THEN Put(s_.heap, "lib", pts)
                          ELSE Mk(s_.heap, Shares.QInfP, o.p, "lib", pts))
             ELSE Mk(s_.heap, Shares.QFinP, NoRef, "lib", Gather(pts, a_[5]))
        y == IF inf THEN Mk(x.h, Shares.QInfW, o.w, "lib", wts)
             ELSE Mk(x.h, Shares.QFinW, NoRef, "lib", Gather(wts, a_[5]))
        z == Given(y.h, Shares.LocC, <<a_[3]>>)
        tr == IF inf THEN o.tree ELSE IF o.tree = -1 THEN CurVer(s_, o) ELSE o.tree
        slot == FreeSlot(s_)
        s1 == [s_ EXCEPT !.heap = z.h, !.objs = [@ EXCEPT ![a_[2]] = [o EXCEPT !.tree = tr]]]
    IN [s |-> AddObj(s1, [Blank EXCEPT !.k = "Loc", !.p = x.r, !.w = y.r, !.c = z.r]),
        obs |-> [NoObs EXCEPT !.kind = "query", !.o = slot, !.ret = a_[2], !.idx = a_[5], !.q = a_[3], !.r = a_[4],
                              !.tv = tr, !.cv = CurVer(s_, o),
                              !.given = IF Shares.LocC THEN {<<slot, "c">>} ELSE {},
                              !.fresh = IF inf THEN (IF o.k = "Atom" THEN {<<slot, "p">>} ELSE {})
                                        ELSE {<<slot, "p">>, <<slot, "w">>}]]

\* <<"GetItem", o, sel>>       o[sel] on a plain Grid
DoGetItem(s_, a_) ==
    LET o == s_.objs[a_[2]]
        ix == SelIdx(a_[3], o.w[3])
        sl == a_[3][1] = "slice"
        x == Mk(s_.heap, Shares.ItemP /\ sl, Sub(o.p, ix[1], Len(ix)), "lib", Gather(PtsOf(s_, o), ix))
        y == Mk(x.h, Shares.ItemW /\ sl, Sub(o.w, ix[1], Len(ix)), "lib", Gather(WtsOf(s_, o), ix))
        slot == FreeSlot(s_)
    IN [s |-> AddObj([s_ EXCEPT !.heap = y.h], [Blank EXCEPT !.k = "Grid", !.p = x.r, !.w = y.r]),
        obs |-> [NoObs EXCEPT !.kind = "item", !.o = slot, !.ret = a_[2], !.idx = ix,
                              !.fresh = (IF Shares.ItemP /\ sl THEN {} ELSE {<<slot, "p">>})
                                        \cup (IF Shares.ItemW /\ sl THEN {} ELSE {<<slot, "w">>})]]

\* <<"NewAtom", m, d, ci>>     AtomGrid(rgrid, degrees=[d], method=m, center=cen[ci])
DoNewAtom(s_, a_) ==
    LET md == <<a_[2], a_[3]>>
        src == AngSrc(s_, md, TRUE)
        okp == src.P = Tab.angp[md]
        okw == ScaleW(md, src.W) = Tab.angw[md]
        x == Put(src.s.heap, "lib", DerW(okw, Tab.atomw[md]))
        y == Given(x.h, Shares.AtomC, <<Tab.cen[a_[4]]>>)
        slot == FreeSlot(s_)
    IN [s |-> AddObj([src.s EXCEPT !.heap = y.h],
                     [Blank EXCEPT !.k = "Atom", !.w = x.r, !.c = y.r, !.m = md[1], !.d = md[2],
                                   !.pc = DerP(okp, Tab.atomp[<<md[1], md[2], a_[4]>>])]),
        obs |-> [NoObs EXCEPT !.kind = "new", !.o = slot, !.what = <<"Atom", md[1], md[2], a_[4]>>,
                              !.fresh = {<<slot, "w">>},
                              !.given = IF Shares.AtomC THEN {<<slot, "c">>} ELSE {}]]

\* <<"GetShell", o, i, rsq>>   o.get_shell_grid(i - 1, r_sq = (rsq = 1)) on an AtomGrid
DoGetShell(s_, a_) ==
    LET o == s_.objs[a_[2]]
        md == <<o.m, o.d>>
        src == AngSrc(s_, md, TRUE)
        okp == src.P = Tab.angp[md]
        okw == ScaleW(md, src.W) = Tab.angw[md]
        x == Put(src.s.heap, "lib", DerP(okp, Tab.shellp[<<md[1], md[2], a_[3]>>]))
        y == Put(x.h, "lib", DerW(okw, Tab.shellw[<<md[1], md[2], a_[3], a_[4]>>]))
        slot == FreeSlot(s_)
    IN [s |-> AddObj([src.s EXCEPT !.heap = y.h], [Blank EXCEPT !.k = "Ang", !.p = x.r, !.w = y.r, !.m = md[1], !.d = md[2]]),
        obs |-> [NoObs EXCEPT !.kind = "new", !.o = slot, !.ret = a_[2], !.what = <<"Shell", md[1], md[2], a_[3], a_[4]>>,
                              !.fresh = {<<slot, "p">>, <<slot, "w">>}]]

\* <<"NewMol", o1, o2, av, st>>  MolGrid(atnums, [o1, o2], aim, store=(st = 1)), aim an integer array
DoNewMol(s_, a_) ==
    LET o1 == s_.objs[a_[2]]
        o2 == s_.objs[a_[3]]
        pp == o1.pc \o o2.pc
        atw == WtsOf(s_, o1) \o WtsOf(s_, o2)
        aim == AimPat(a_[4], Len(atw))
        x == Put(s_.heap, "lib", pp)
        y == Put(x.h, "lib", atw)
        z == Put(y.h, "lib", [k_ \in 1..Len(atw) |-> MulW(atw[k_], aim[k_])])
        u == Put(z.h, "lib", Content(s_.heap, o1.c) \o Content(s_.heap, o2.c))
        v == Given(u.h, Shares.MolAim, aim)
        slot == FreeSlot(s_)
    IN [s |-> AddObj([s_ EXCEPT !.heap = v.h],
                     [Blank EXCEPT !.k = "Mol", !.p = x.r, !.atw = y.r, !.w = z.r, !.c = u.r, !.aim = v.r,
                                   !.st = (a_[5] = 1), !.at = IF a_[5] = 1 THEN <<a_[2], a_[3]>> ELSE <<>>,
                                   !.seg = <<0, Len(o1.pc), Len(pp)>>]),
        obs |-> [NoObs EXCEPT !.kind = "new", !.o = slot, !.what = <<"Mol">>,
                              !.fresh = {<<slot, "p">>, <<slot, "atw">>, <<slot, "w">>, <<slot, "c">>},
                              !.given = IF Shares.MolAim THEN {<<slot, "aim">>} ELSE {}]]

\* <<"GetAtomic", o, i>>  o.get_atomic_grid(i - 1);   <<"MolItem", o, i>>  o[i - 1]  (store=False only:
\* with store=True the documentation and the code of mol[i] disagree - known finding of C07)
SegLo(o_, i_) == o_.seg[i_]
SegN(o_, i_) == o_.seg[i_ + 1] - o_.seg[i_]
DoAtomicLoc(s_, a_, shp_, shw_, shc_, wref_) ==
    LET o == s_.objs[a_[2]]
        i == a_[3]
        x == Mk(s_.heap, shp_, Sub(o.p, SegLo(o, i), SegN(o, i)), "lib", Content(s_.heap, Sub(o.p, SegLo(o, i), SegN(o, i))))
        y == Mk(x.h, shw_, Sub(wref_, SegLo(o, i), SegN(o, i)), "lib", Content(s_.heap, Sub(wref_, SegLo(o, i), SegN(o, i))))
        z == Mk(y.h, shc_, Sub(o.c, i - 1, 1), "lib", Content(s_.heap, Sub(o.c, i - 1, 1)))
        slot == FreeSlot(s_)
    IN [s |-> AddObj([s_ EXCEPT !.heap = z.h], [Blank EXCEPT !.k = "Loc", !.p = x.r, !.w = y.r, !.c = z.r]),
        obs |-> [NoObs EXCEPT !.kind = "atomic", !.o = slot, !.ret = a_[2],
                              !.fresh = (IF shp_ THEN {} ELSE {<<slot, "p">>}) \cup (IF shw_ THEN {} ELSE {<<slot, "w">>})
                                        \cup (IF shc_ THEN {} ELSE {<<slot, "c">>})]]
DoGetAtomic(s_, a_) ==
    LET o == s_.objs[a_[2]]
    IN IF o.st
         THEN [s |-> s_, obs |-> [NoObs EXCEPT !.kind = "stored", !.o = a_[2], !.ret = IF Shares.Stored THEN o.at[a_[3]] ELSE 0]]
         ELSE DoAtomicLoc(s_, a_, Shares.AtLocP, Shares.AtLocW, Shares.AtLocC, o.atw)
DoMolItem(s_, a_) == DoAtomicLoc(s_, a_, Shares.ItLocP, Shares.ItLocW, Shares.ItLocC, s_.objs[a_[2]].w)

\* <<"Integrate", o, fv>>      o.integrate(f), f an integer-valued function
IntegralOf(ww_, ff_) == IF \A k_ \in 1..Len(ww_) : ~OpaqueW(ww_[k_]) THEN Dot(ww_, ff_, 1) ELSE BIG
DoIntegrate(s_, a_) ==
    LET ww == WtsOf(s_, s_.objs[a_[2]])
    IN [s |-> s_, obs |-> [NoObs EXCEPT !.kind = "integral", !.o = a_[2], !.r = a_[3], !.val = IntegralOf(ww, FPat(a_[3], Len(ww)))]]

\* <<"Drop", o>>               the caller forgets an object
DoDrop(s_, a_) == [s |-> [s_ EXCEPT !.objs = [@ EXCEPT ![a_[2]] = Blank]], obs |-> [NoObs EXCEPT !.kind = "drop", !.o = a_[2]]]

\* <<"Reject", o, kind>>       a documented argument error: raises ValueError, changes nothing
RejectKinds == {"bad-weights", "bad-points", "neg-radius", "bad-center"}
DoReject(s_, a_) == [s |-> s_, obs |-> [NoObs EXCEPT !.kind = "rejected", !.o = a_[2]]]

\* ---- enabling conditions ----------------------------------------------------------------------------
IsLive(s_, i_) == i_ \in 1..MaxObjs /\ s_.objs[i_].k # "none"
StoredSomewhere(s_, i_) == \E j_ \in Live(s_) : s_.objs[j_].k = "Mol" /\ s_.objs[j_].st /\ i_ \in SeqSet(s_.objs[j_].at)
En(s_, a_) ==
    CASE a_[1] = "NewAngular"  -> HasSlot(s_) /\ Room(s_, 4)
      [] a_[1] = "NewGrid"     -> HasSlot(s_) /\ Room(s_, 2)
      [] a_[1] = "NewGridFrom" -> IsLive(s_, a_[2]) /\ HasSlot(s_) /\ Room(s_, 2)
      [] a_[1] = "SetPoints"   -> IsLive(s_, a_[2]) /\ s_.objs[a_[2]].k # "Atom" /\ Room(s_, 1)
      [] a_[1] = "SetWeights"  -> IsLive(s_, a_[2]) /\ Room(s_, 1)
      [] a_[1] = "Edit"        -> IsLive(s_, a_[2]) /\ a_[3] \in EditParts(s_.objs[a_[2]])
      [] a_[1] = "Query"       -> /\ IsLive(s_, a_[2]) /\ HasSlot(s_) /\ Room(s_, 3)
                                  /\ (a_[4] = Inf \/ Decidable(PtsOf(s_, s_.objs[a_[2]])))
                                  \* (a finite radius on an EMPTY grid raises in the library - reshape(0, -1) - and is
                                  \* documented nowhere: left out)
                                  /\ (a_[4] = Inf \/ s_.objs[a_[2]].w[3] > 0)
                                  /\ (Discipline /\ a_[4] # Inf => TreeOk(s_, s_.objs[a_[2]]))
      [] a_[1] = "GetItem"     -> /\ IsLive(s_, a_[2]) /\ s_.objs[a_[2]].k = "Grid" /\ HasSlot(s_) /\ Room(s_, 2)
                                  /\ SelOk(a_[3], s_.objs[a_[2]].w[3])
      [] a_[1] = "NewAtom"     -> HasSlot(s_) /\ Room(s_, 4)
      [] a_[1] = "GetShell"    -> IsLive(s_, a_[2]) /\ s_.objs[a_[2]].k = "Atom" /\ a_[3] \in 1..Tab.nsh /\ HasSlot(s_) /\ Room(s_, 4)
      [] a_[1] = "NewMol"      -> /\ IsLive(s_, a_[2]) /\ IsLive(s_, a_[3]) /\ s_.objs[a_[2]].k = "Atom" /\ s_.objs[a_[3]].k = "Atom"
                                  /\ HasSlot(s_) /\ Room(s_, 5)
      [] a_[1] = "GetAtomic"   -> /\ IsLive(s_, a_[2]) /\ s_.objs[a_[2]].k = "Mol" /\ a_[3] \in 1..2
                                  /\ (s_.objs[a_[2]].st \/ (HasSlot(s_) /\ Room(s_, 3)))
      [] a_[1] = "MolItem"     -> /\ IsLive(s_, a_[2]) /\ s_.objs[a_[2]].k = "Mol" /\ ~s_.objs[a_[2]].st /\ a_[3] \in 1..2
                                  /\ HasSlot(s_) /\ Room(s_, 3)
      [] a_[1] = "Integrate"   -> IsLive(s_, a_[2])
      [] a_[1] = "Drop"        -> IsLive(s_, a_[2]) /\ ~StoredSomewhere(s_, a_[2])
      [] a_[1] = "Reject"      -> IsLive(s_, a_[2]) /\ a_[3] \in RejectKinds /\ (a_[3] = "bad-points" => s_.objs[a_[2]].k # "Atom")
      [] OTHER -> FALSE
Do0(s_, a_) ==
    CASE a_[1] = "NewAngular"  -> DoNewAngular(s_, a_)
      [] a_[1] = "NewGrid"     -> DoNewGrid(s_, a_)
      [] a_[1] = "NewGridFrom" -> DoNewGridFrom(s_, a_)
      [] a_[1] = "SetPoints"   -> DoSetPoints(s_, a_)
      [] a_[1] = "SetWeights"  -> DoSetWeights(s_, a_)
      [] a_[1] = "Edit"        -> DoEdit(s_, a_)
      [] a_[1] = "Query"       -> DoQuery(s_, a_)
      [] a_[1] = "GetItem"     -> DoGetItem(s_, a_)
      [] a_[1] = "NewAtom"     -> DoNewAtom(s_, a_)
      [] a_[1] = "GetShell"    -> DoGetShell(s_, a_)
      [] a_[1] = "NewMol"      -> DoNewMol(s_, a_)
      [] a_[1] = "GetAtomic"   -> DoGetAtomic(s_, a_)
      [] a_[1] = "MolItem"     -> DoMolItem(s_, a_)
      [] a_[1] = "Integrate"   -> DoIntegrate(s_, a_)
      [] a_[1] = "Drop"        -> DoDrop(s_, a_)
      [] a_[1] = "Reject"      -> DoReject(s_, a_)
Do(s_, a_) == LET r == Do0(s_, a_) IN [s |-> Gc(r.s), obs |-> [r.obs EXCEPT !.act = a_[1]]]

\* ============================ the state machine ======================================================
VARIABLES heap, cache, objs, obs
vars == <<heap, cache, objs, obs>>
S == [heap |-> heap, cache |-> cache, objs |-> objs]
S0 == [heap |-> [b_ \in 1..NBuf |-> Free], cache |-> [md_ \in MD |-> [p |-> 0, w |-> 0]], objs |-> [i_ \in 1..MaxObjs |-> Blank]]
Become(r_) == heap' = r_.s.heap /\ cache' = r_.s.cache /\ objs' = r_.s.objs /\ obs' = r_.obs
Step(a_) == En(S, a_) /\ \E r_ \in {Do(S, a_)} : Become(r_)     \* (the bound variable makes TLC evaluate Do once)
Init == heap = S0.heap /\ cache = S0.cache /\ objs = S0.objs /\ obs = NoObs

Slots == 1..MaxObjs
Bit == {0, 1}
ANewAngular == \E mm_ \in Methods, dd_ \in Degrees, ff_ \in Bit : Step(<<"NewAngular", mm_, dd_, ff_>>)
ANewGrid == \E v1_ \in Vals, v2_ \in Vals, nn_ \in GridSizes : Step(<<"NewGrid", v1_, v2_, nn_>>)
ANewGridFrom == \E i_ \in Slots : Step(<<"NewGridFrom", i_>>)
ASetPoints == \E i_ \in Slots, vv_ \in Vals : Step(<<"SetPoints", i_, vv_>>)
ASetWeights == \E i_ \in Slots, vv_ \in Vals : Step(<<"SetWeights", i_, vv_>>)
AEdit == \E i_ \in Slots, pt_ \in {"p", "w", "atw", "aim"}, vv_ \in Vals : Step(<<"Edit", i_, pt_, vv_>>)
AQuery == \E i_ \in Slots, qq_ \in QCen, rr_ \in Radii :
              /\ IsLive(S, i_) /\ (rr_ = Inf \/ Decidable(PtsOf(S, objs[i_])))
              /\ Step(<<"Query", i_, qq_, rr_, QIdx(S, objs[i_], qq_, rr_)>>)
AGetItem == \E i_ \in Slots, sl_ \in Sels : Step(<<"GetItem", i_, sl_>>)
ANewAtom == \E mm_ \in Methods, dd_ \in Degrees, ci_ \in 1..NCen : Step(<<"NewAtom", mm_, dd_, ci_>>)
AGetShell == \E i_ \in Slots, sh_ \in 1..Tab.nsh, rq_ \in Bit : Step(<<"GetShell", i_, sh_, rq_>>)
ANewMol == \E i_ \in Slots, j_ \in Slots, av_ \in AimVals, st_ \in Bit : Step(<<"NewMol", i_, j_, av_, st_>>)
AGetAtomic == \E i_ \in Slots, k_ \in 1..2 : Step(<<"GetAtomic", i_, k_>>)
AMolItem == \E i_ \in Slots, k_ \in 1..2 : Step(<<"MolItem", i_, k_>>)
AIntegrate == \E i_ \in Slots, fv_ \in FVals : Step(<<"Integrate", i_, fv_>>)
ADrop == \E i_ \in Slots : Step(<<"Drop", i_>>)
AReject == \E i_ \in Slots, kd_ \in RejectKinds : Step(<<"Reject", i_, kd_>>)
Next == \/ ANewAngular \/ ANewGrid \/ ANewGridFrom \/ ASetPoints \/ ASetWeights \/ AEdit \/ AQuery \/ AGetItem
        \/ ANewAtom \/ AGetShell \/ ANewMol \/ AGetAtomic \/ AMolItem \/ AIntegrate \/ ADrop \/ AReject
Spec == Init /\ [][Next]_vars

\* ============================ properties ==============================================================
\* ---- from CacheSys (C19) ----
Expected(what_) ==     \* contents of a library-built object named by obs.what: <<points, weights>>
    CASE what_[1] = "Ang"   -> <<Tab.angp[<<what_[2], what_[3]>>], Tab.angw[<<what_[2], what_[3]>>]>>
      [] what_[1] = "Atom"  -> <<Tab.atomp[<<what_[2], what_[3], what_[4]>>], Tab.atomw[<<what_[2], what_[3]>>]>>
      [] what_[1] = "Shell" -> <<Tab.shellp[<<what_[2], what_[3], what_[4]>>], Tab.shellw[<<what_[2], what_[3], what_[4], what_[5]>>]>>
FreshIsShipped ==
    obs.kind = "new" /\ obs.what # <<>> /\ obs.what[1] # "Mol" =>
        /\ PtsOf(S, objs[obs.o]) = Expected(obs.what)[1]
        /\ WtsOf(S, objs[obs.o]) = Expected(obs.what)[2]
CacheClean == \A md_ \in MD : Hit(S, md_) =>
                 /\ heap[cache[md_].p] = [own |-> "cache", c |-> Tab.angp[md_], ver |-> 0]
                 /\ heap[cache[md_].w] = [own |-> "cache", c |-> Tab.angwraw[md_], ver |-> 0]
NoAliasCacheUser == \A x_ \in AllParts(S) : PRef(S, x_)[1] \notin CacheBufs(S)
CacheMonotone == [][\A md_ \in MD : Hit(S, md_) => cache'[md_] = cache[md_]]_vars
\* ---- from LocalGridSys (C10) ----
TreeFresh == obs.kind = "query" /\ obs.r # Inf => obs.tv = obs.cv
QueryCorrect ==
    obs.kind = "query" =>
        LET par == objs[obs.ret]
            loc == objs[obs.o]
        IN /\ SeqSet(obs.idx) = BallSet(PtsOf(S, par), obs.q, obs.r)
           /\ Cardinality(SeqSet(obs.idx)) = Len(obs.idx)
           /\ PtsOf(S, loc) = Gather(PtsOf(S, par), obs.idx)
           /\ WtsOf(S, loc) = Gather(WtsOf(S, par), obs.idx)
ItemCorrect ==
    obs.kind = "item" => /\ PtsOf(S, objs[obs.o]) = Gather(PtsOf(S, objs[obs.ret]), obs.idx)
                         /\ WtsOf(S, objs[obs.o]) = Gather(WtsOf(S, objs[obs.ret]), obs.idx)
\* ---- from CallFrame (C20): a caller-owned buffer changes only when the caller edits it ----
CallerFrame ==
    [][\A b_ \in 1..NBuf : heap[b_].own = "caller" /\ heap'[b_].own = "caller" /\ heap'[b_] # heap[b_] => obs'.kind = "edit"]_vars
\* ---- cross-subsystem laws ----
RefValid(r_) == /\ r_[1] \in 1..NBuf /\ heap[r_[1]].own # "free" /\ r_[2] >= 0 /\ r_[2] + r_[3] <= Len(heap[r_[1]].c)
Whole(r_) == r_[2] = 0 /\ r_[3] = Len(heap[r_[1]].c)
OwnerOf(x_) == heap[PRef(S, x_)[1]].own
OwnershipDiscipline ==
    /\ \A x_ \in AllParts(S) : RefValid(PRef(S, x_)) /\ OwnerOf(x_) \in {"caller", "lib"}
    \* only local grids cut out of a molecular grid - and plain grids the caller builds from the arrays of
    \* such a local grid - hold views of a PART of an array; angular, atomic and molecular grids never do
    /\ \A x_ \in AllParts(S) : ~Whole(PRef(S, x_)) => objs[x_[1]].k \in {"Loc", "Grid"}
    \* the arrays of one object are pairwise disjoint
    /\ \A x_ \in AllParts(S), y_ \in AllParts(S) : x_[1] = y_[1] /\ x_[2] # y_[2] => ~Overlap(PRef(S, x_), PRef(S, y_))
    \* what the library computes for a molecule belongs to the library, whole and unshared at birth
    /\ \A i_ \in Live(S) : objs[i_].k = "Mol" => OwnerOf(<<i_, "atw">>) = "lib" /\ OwnerOf(<<i_, "c">>) = "lib" /\ Whole(objs[i_].atw)
    \* an array made by the caller and kept by a result stays the caller's; an array taken from another
    \* object and kept by a result is that object's array
    /\ \A x_ \in obs.given : x_[1] \in Live(S) =>
          IF obs.act = "NewGridFrom"
            THEN objs[obs.ret].k = "none" \/ (objs[obs.ret].k = "Atom" /\ x_[2] = "p") \/ PRef(S, x_)[3] = 0 \/ Overlap(PRef(S, x_), RefOf(objs[obs.ret], x_[2]))
            ELSE OwnerOf(x_) = "caller"
\* a FRESH array of a result shares memory with nothing else that is reachable
FreshIsFresh == \A x_ \in obs.fresh : \A y_ \in AllParts(S) : y_ # x_ => ~Overlap(PRef(S, x_), PRef(S, y_))
\* whatever an action does, the content of an array of an object that exists before and after changes only
\* if (a) the action is an in-place edit of an array that shares memory with it, or (b) the action
\* assigns that very attribute
Touched(x_) == \/ obs'.kind = "edit" /\ Overlap(RefOf(objs[obs'.o], obs'.part), RefOf(objs[x_[1]], x_[2]))
               \/ obs'.kind = "set" /\ obs'.o = x_[1] /\ obs'.part = x_[2]
Survives(i_) == objs[i_].k # "none" /\ objs'[i_].k = objs[i_].k /\ ~(obs'.kind \in {"new", "query", "item", "atomic"} /\ obs'.o = i_)
NoSpookyAction ==
    [][\A i_ \in 1..MaxObjs : Survives(i_) =>
          /\ objs'[i_].pc = objs[i_].pc
          /\ \A pt_ \in PartsOf(objs[i_]) :
                Content(heap', RefOf(objs'[i_], pt_)) # Content(heap, RefOf(objs[i_], pt_)) => Touched(<<i_, pt_>>)]_vars
\* the converse for edits: every array that shares memory with the edited one shows the new content
EditReachesAliases ==
    [][obs'.kind = "edit" /\ ~(objs[obs'.o].k = "Atom" /\ obs'.part = "p") =>
          \A x_ \in AllParts(S) : Overlap(RefOf(objs[obs'.o], obs'.part), PRef(S, x_)) => heap'[PRef(S, x_)[1]].ver = heap[PRef(S, x_)[1]].ver + 1]_vars
\* a rejected call changes nothing
RejectIsAtomic == [][obs'.kind = "rejected" => heap' = heap /\ cache' = cache /\ objs' = objs]_vars
\* (3) integrals are the sum over the CURRENT content of the weights
RECURSIVE SumOver(_, _, _)
SumOver(ks_, ww_, ff_) == IF ks_ = {} THEN 0 ELSE LET k == CHOOSE x_ \in ks_ : TRUE IN ww_[k] * ff_[k] + SumOver(ks_ \ {k}, ww_, ff_)
IntegralCorrect ==
    obs.kind = "integral" =>
        LET ww == WtsOf(S, objs[obs.o])
        IN IF \E k_ \in 1..Len(ww) : OpaqueW(ww[k_]) THEN obs.val = BIG
           ELSE obs.val = SumOver(1..Len(ww), ww, FPat(obs.r, Len(ww)))
\* the molecular weights are the product of the atomic weights AT CONSTRUCTION and the aim weights given
MolWeightsAtBirth ==
    obs.kind = "new" /\ obs.what = <<"Mol">> =>
        LET o == objs[obs.o]
        IN \A k_ \in 1..o.w[3] : WtsOf(S, o)[k_] = MulW(Content(heap, o.atw)[k_], Content(heap, o.aim)[k_])

\* ---- witnesses (negated in their configurations: TLC must reach them) ----
\* get_atomic_grid under store=True shows weights that differ from the molecule's atweights segment
WitnessStoreVisible ==
    ~(obs.kind = "stored" /\ obs.ret # 0 /\
      \E k_ \in 1..2 : objs[obs.o].at[k_] = obs.ret /\
           WtsOf(S, objs[obs.ret]) # Content(heap, Sub(objs[obs.o].atw, SegLo(objs[obs.o], k_), SegN(objs[obs.o], k_))))
\* an in-place edit through one object changes what an object of another kind shows
WitnessCrossEdit == ~(obs.kind = "edit" /\ \E x_ \in obs.hit : x_[1] # obs.o /\ objs[x_[1]].k # objs[obs.o].k)
\* an angular grid is rebuilt after an earlier one of the same (method, degree) was scribbled over
WitnessEditThenRebuild ==
    ~(obs.kind = "new" /\ obs.what # <<>> /\ obs.what[1] = "Ang" /\
      \E i_ \in Live(S) : i_ # obs.o /\ objs[i_].k = "Ang" /\ objs[i_].m = obs.what[2] /\ objs[i_].d = obs.what[3]
                          /\ PtsOf(S, objs[i_]) # PtsOf(S, objs[obs.o]))
=============================================================================
