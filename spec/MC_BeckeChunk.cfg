CONSTANT Variant = "code"
INIT InitChunk
NEXT NextChunk
INVARIANT OwnerUnique
INVARIANT ChunkedEqualsDefinition
INVARIANT NeverTwiceNeverForeign
INVARIANT ChunkPrefix
INVARIANT ChunkLengths
INVARIANT ObsConforms
INVARIANT ObsConformsX
