----------------------------- MODULE CallFrame ------------------------------
(***************************************************************************)
(* Frame condition of library calls (property C20): after any public       *)
(* operation returns or raises, every caller-owned buffer - arrays, lists, *)
(* option dictionaries passed in, arrays of grid/transform objects passed  *)
(* in, and every array a user callback returned - is unchanged, read-only  *)
(* inputs are accepted, and aliasing between inputs does not change the    *)
(* result.                                                                  *)
(*                                                                          *)
(* Tables_api (generated at check time from the harness's operation table, *)
(* vf/api_table.py - the single place where operations are declared) gives  *)
(*   Api : sequence of [op, kinds, pairs, cbs]                              *)
(*     kinds : sequence of slot kinds "A" array | "L" list | "D" dict |     *)
(*             "G" object carrying arrays                                    *)
(*     pairs : set of <<i, j>>, i < j, slots that may hold the SAME buffer   *)
(*     cbs   : set of callback-return modes the operation admits, subset of  *)
(*             {"fresh", "arg", "cached"} ({} = no callback)                 *)
(*     dts   : set of floating types, besides "f8", in which the float64     *)
(*             array arguments are ALSO handed over ("f4" single, "g"        *)
(*             extended precision): conversions such as asarray(x, dtype=T)  *)
(*             copy for one input type and alias for another                 *)
(*                                                                          *)
(* A PROGRAM is <<k, share, ro, cb, dt>>: operation Api[k]; share = <<0,0>>  *)
(* or a pair of slots bound to one buffer; ro = bit mask of write-protected  *)
(* slots; cb = callback mode or "none"; dt = floating type of the array      *)
(* arguments ("f8", or a member of Api[k].dts - then only with nothing or    *)
(* everything write-protected).                                              *)
(*                                                                          *)
(* State machine: the caller's heap maps a buffer to a version; Call leaves  *)
(* every version alone (CallerFrame).  The variant Writes = "asShipped"      *)
(* bumps the version of a callback-returned buffer in the two ODE solvers    *)
(* and of the option dictionary in the two Poisson solvers, as the library   *)
(* did before 4615105/667b7d1; TLC refutes CallerFrame on it.                *)
(***************************************************************************)
EXTENDS Integers, Sequences, FiniteSets, TLC, Tables_api

CONSTANTS Writes,       \* "none" | "asShipped"
          FullMasks     \* BOOLEAN: every subset of array slots write-protected (thorough) or a selection (quick)

NSlots(k_) == Len(Api[k_].kinds)
Shares(k_) == {<<0, 0>>} \cup Api[k_].pairs
ArraySlots(k_) == {i_ \in 1..NSlots(k_) : Api[k_].kinds[i_] \in {"A", "G"}}
\* read-only masks are bit masks over the slots (bit i-1 set = slot i write-protected).  FullMasks =
\* FALSE (quick tier): nothing, everything, each single array slot; TRUE (thorough): every subset.
RECURSIVE Pow2(_)
Pow2(n_) == IF n_ = 0 THEN 1 ELSE 2 * Pow2(n_ - 1)
RECURSIVE MaskOf(_)
MaskOf(ss_) == IF ss_ = {} THEN 0 ELSE LET x_ == CHOOSE y_ \in ss_ : TRUE IN Pow2(x_ - 1) + MaskOf(ss_ \ {x_})
Ros(k_) == IF FullMasks THEN {MaskOf(ss_) : ss_ \in SUBSET ArraySlots(k_)}
           ELSE {0, MaskOf(ArraySlots(k_))} \cup {Pow2(i_ - 1) : i_ \in ArraySlots(k_)}
Cbs(k_) == IF Api[k_].cbs = {} THEN {"none"} ELSE Api[k_].cbs
Dts(k_) == {"f8"} \cup Api[k_].dts
RosOf(k_, dt_) == IF dt_ = "f8" THEN Ros(k_) ELSE {0, MaskOf(ArraySlots(k_))}
WellFormed(p_) ==
    /\ p_[1] \in 1..Len(Api)
    /\ p_[2] \in Shares(p_[1])
    /\ p_[5] \in Dts(p_[1])
    /\ p_[3] \in RosOf(p_[1], p_[5])
    /\ p_[4] \in Cbs(p_[1])

\* buffers of a program: one per slot (slot j of a shared pair <<i,j>> uses buffer i), plus
\* buffer 0 for what the callback returns
BufOf(p_, s_) == IF p_[2] # <<0, 0>> /\ s_ = p_[2][2] THEN p_[2][1] ELSE s_
Buffers(p_) == {BufOf(p_, s_) : s_ \in 1..NSlots(p_[1])} \cup (IF p_[4] = "none" THEN {} ELSE {0})

VARIABLES pc, prog, heap, obs
vars == <<pc, prog, heap, obs>>
NoProg == <<0, <<0, 0>>, 0, "none", "f8">>
Init == pc = "idle" /\ prog = NoProg /\ heap = [b_ \in 0..8 |-> 0] /\ obs = "none"

PickOp == /\ pc = "idle"
          /\ \E k_ \in 1..Len(Api) : prog' = <<k_, <<0, 0>>, 0, "none", "f8">>
          /\ pc' = "op" /\ UNCHANGED <<heap, obs>>
PickProgram ==
    /\ pc = "op"
    /\ \E sh_ \in Shares(prog[1]), dt_ \in Dts(prog[1]), cb_ \in Cbs(prog[1]) :
          \E ro_ \in RosOf(prog[1], dt_) : prog' = <<prog[1], sh_, ro_, cb_, dt_>>
    /\ pc' = "bound" /\ UNCHANGED <<heap, obs>>

OdeOps == {"solve_ode_ivp", "solve_ode_bvp"}
PoissonOps == {"solve_poisson_ivp", "solve_poisson_bvp"}
WrittenBy(p_) ==   \* buffers the as-shipped library wrote
    IF Writes = "asShipped"
      THEN (IF Api[p_[1]].op \in OdeOps /\ p_[4] # "none" THEN {0} ELSE {})
           \cup (IF Api[p_[1]].op \in PoissonOps
                   THEN {BufOf(p_, s_) : s_ \in {t_ \in 1..NSlots(p_[1]) : Api[p_[1]].kinds[t_] = "D"}} ELSE {})
      ELSE {}
Call ==
    /\ pc = "bound"
    /\ heap' = [b_ \in 0..8 |-> IF b_ \in WrittenBy(prog) THEN heap[b_] + 1 ELSE heap[b_]]
    /\ obs' = IF \E b_ \in WrittenBy(prog) : b_ \in Buffers(prog) THEN "caller-buffer-written" ELSE "ok"
    /\ pc' = "done" /\ UNCHANGED prog
Next == PickOp \/ PickProgram \/ Call
Spec == Init /\ [][Next]_vars

\* ---- properties ------------------------------------------------------------------------------
CallerFrame == [][pc = "bound" => \A b_ \in Buffers(prog) : heap'[b_] = heap[b_]]_vars
FrameObserved == pc = "done" => obs = "ok"
ProgramsWellFormed == pc \in {"bound", "done"} => WellFormed(prog)
\* completeness of the enumeration: every array slot of every operation occurs write-protected,
\* every shareable pair occurs shared, every callback mode occurs
Complete ==
    \A k_ \in 1..Len(Api) :
        /\ \A s_ \in ArraySlots(k_) : WellFormed(<<k_, <<0, 0>>, Pow2(s_ - 1), CHOOSE c_ \in Cbs(k_) : TRUE, "f8">>)
        /\ \A dt_ \in Api[k_].dts : dt_ \in {"f4", "g"} /\ \E s_ \in 1..NSlots(k_) : Api[k_].kinds[s_] = "A"
        /\ \A pr_ \in Api[k_].pairs : pr_[1] < pr_[2] /\ pr_[2] <= NSlots(k_)
                                      /\ Api[k_].kinds[pr_[1]] = Api[k_].kinds[pr_[2]]
Emit == pc = "bound" => PrintT(<<"PROG", prog[1], Api[prog[1]].op, prog[2], prog[3], prog[4], prog[5]>>)

\* ---- judging the recorded events (Obs from obs_c20.json, one record per executed program) ------
\* Obs[i] = [k, share, ro, cb, dt, changed (sequence of names of changed caller buffers), exc, same,
\*           basexc (exception of the plain call - nothing shared, nothing protected - with arrays of type dt)]
Verdict(e_) ==
    IF ~WellFormed(<<e_.k, <<e_.share[1], e_.share[2]>>, e_.ro, e_.cb, e_.dt>>) THEN "harness-ran-a-program-outside-the-specification"
    ELSE IF Len(e_.changed) > 0 THEN "caller-buffer-modified"       \* also when the call raised
    \* an operation that does not take arrays of this floating type at all has nothing further to answer for
    ELSE IF e_.dt # "f8" /\ e_.basexc # "" THEN "ok"
    ELSE IF e_.exc = "read-only" THEN "read-only-input-rejected"
    ELSE IF e_.exc # "" THEN "raised:" \o e_.exc
    ELSE IF ~e_.same THEN "result-depends-on-aliasing"
    ELSE "ok"
=============================================================================
