------------------------------- MODULE Poisson -------------------------------
(***************************************************************************)
(* Oracles, laws and the configuration space of the Poisson solvers (C16). *)
(*                                                                         *)
(* The solvers expand rho = sum_lm rho_lm(r) Y_lm around an atom and solve, *)
(* per channel, the radial equation for u = r V_lm                          *)
(*        u'' - l(l+1)/r^2 u = -4 pi r rho_lm ,   u(0) = 0,                 *)
(*        u(oo) = total charge / Y_00 (l = 0),  0 (l > 0).                  *)
(* This module states that equation in the {erf, E} differential algebra of *)
(* Coulomb.tla (now with LAURENT coefficients) and derives, for the pure    *)
(* channel densities  rho = H_l(x,y,z) exp(-alpha r^2)  (H_l a solid        *)
(* harmonic of degree l <= 2), the potential                                *)
(*        V = pi sqrt(pi/alpha) * H_l * utilde_l(r) / r^(l+1),              *)
(*        utilde_l = A r^(-l) erf + B_l(r) E                                *)
(* with A fixed by the multipole-moment law (the generalisation of          *)
(* "coefficient of erf/r = total charge") and B_l solved for by TLC on a    *)
(* rational lattice; regularity at the origin is checked through the        *)
(* verified power series erf = E * S(r).  l = 0 reproduces Coulomb!SpecU.   *)
(* Together with the s-type potentials at arbitrary centres these are the   *)
(* oracles of C16; the module also derives the Laplacians (Expr!D) used for *)
(* interpolate_laplacian, states linearity and the robust-solver law, and   *)
(* enumerates the configuration space (cases) that the harness replays.     *)
(***************************************************************************)
EXTENDS Coulomb

\* ---- power series erf = E * S,  S = sum_k 2^(k+1) alpha^k r^(2k+1) / (2k+1)!! --------
RECURSIVE DFact(_)
DFact(n_) == IF n_ <= 1 THEN 1 ELSE n_ * DFact(n_ - 2)
RECURSIVE IPow2(_)
IPow2(k_) == IF k_ = 0 THEN 1 ELSE 2 * IPow2(k_ - 1)
NSer == 4
SerS(al_) == {<<2 * k_ + 1, QMul(Q(IPow2(k_ + 1), DFact(2 * k_ + 1)), QPow(al_, k_))>> : k_ \in 0..NSer}
\* D(E S) = E (S' - 2 alpha r S) must be 2E:  S' - 2 alpha r S = 2 up to the truncation order
SeriesOK(al_) ==
    LET lhs_ == PSub(PDer(SerS(al_)), PScale(QMul(QI(2), al_), PShift(SerS(al_), 1)))
    IN \A e_ \in 0..(2 * NSer + 1) : PCoef(lhs_, e_) = (IF e_ = 0 THEN QI(2) ELSE QZero)

\* ---- the channel equation ------------------------------------------------------------
EShift(u_, n_) == El(PShift(u_.a, n_), PShift(u_.b, n_))
ChanOp(al_, l_, u_) == EAdd(DD2(al_, u_), EScale(QI(-(l_ * (l_ + 1))), EShift(u_, -2)))
\* rho_lm = r^l exp(-alpha r^2) = sqrt(pi/alpha) r^l E;  u = pi sqrt(pi/alpha) utilde:
\*     ChanOp(utilde) = -4 r^(l+1) E
ChanPoisson(al_, l_, u_) == ChanOp(al_, l_, u_) = El({}, PMono(QI(-4), l_ + 1))
\* multipole law: u -> 4 pi/(2l+1) r^(-l) int rho_l s^(l+2) ds  ==> A = 4 Moment(l+1)/(2l+1)
ChanA(al_, l_) == QDiv(QMul(QI(4), Moment(al_, l_ + 1)), QI(2 * l_ + 1))
\* ansatz for B_l: exponents -l+1, -l+3, .., l-1, coefficient c_e * alpha^(-(l+1) + (e+l-1)/2)
BExps(l_) == {e_ \in (1 - l_)..(l_ - 1) : (e_ + l_ - 1) % 2 = 0}
QLattice == {Q(n_, 4) : n_ \in -8..8}
BPoly(al_, l_, c_) == PNorm({<<e_, QMul(c_[e_], QPow(al_, (e_ + l_ - 1) \div 2 - (l_ + 1)))>> : e_ \in BExps(l_)})
ChanU(al_, l_, c_) == El(PMono(ChanA(al_, l_), -l_), BPoly(al_, l_, c_))
ChanSolve(al_, l_) == {c_ \in [BExps(l_) -> QLattice] : ChanPoisson(al_, l_, ChanU(al_, l_, c_))}
Ls == {0, 1, 2}
ChanCoef == Force([l_ \in Ls |-> CHOOSE c_ \in [BExps(l_) -> QLattice] : c_ \in ChanSolve(QOne, l_)])
\* regular at the origin: (A r^-l S + B) E = O(r^(l+1))
ChanRegular(al_, l_) ==
    LET u_ == ChanU(al_, l_, ChanCoef[l_])
        w_ == PAdd(PMul(u_.a, SerS(al_)), u_.b)
    IN /\ \A e_ \in (-l_ - 1)..l_ : PCoef(w_, e_) = QZero
       /\ PCoef(w_, l_ + 1) # QZero

\* ---- solid harmonics (expression trees in x, y, z relative to the atom) -----------------
X == V("x")  Y == V("y")  Z == V("z")
R2 == Add(Add(Sq(X), Sq(Y)), Sq(Z))
Harm == [l_ \in Ls |->
           IF l_ = 0 THEN << CI(1) >>
           ELSE IF l_ = 1 THEN << Z, X, Y >>
           ELSE << Mul(X, Y), Mul(Y, Z), Mul(X, Z), Sub(Sq(X), Sq(Y)),
                   Sub(Mul(CI(2), Sq(Z)), Add(Sq(X), Sq(Y))) >>]
Lap3(e_) == Add(Add(Dn(e_, "x", 2), Dn(e_, "y", 2)), Dn(e_, "z", 2))
Grad(e_) == <<D(e_, "x"), D(e_, "y"), D(e_, "z")>>
TestPts == { [n_ \in {"x", "y", "z"} |-> IF n_ = "x" THEN p_[1] ELSE IF n_ = "y" THEN p_[2] ELSE p_[3]] :
             p_ \in { <<QI(1), QI(2), QI(-1)>>, <<Q(1, 2), QI(0), QI(3)>>, <<QI(-2), Q(3, 2), QI(1)>> } }
\* harmonic and homogeneous of degree l (Euler: x . grad H = l H)
HarmonicOK ==
    \A l_ \in Ls : \A i_ \in 1..Len(Harm[l_]) : \A p_ \in TestPts :
        LET h_ == Harm[l_][i_] g_ == Grad(h_) IN
        /\ EvalQ(Lap3(h_), p_) = QZero
        /\ QAdd(QAdd(QMul(p_["x"], EvalQ(g_[1], p_)), QMul(p_["y"], EvalQ(g_[2], p_))), QMul(p_["z"], EvalQ(g_[3], p_)))
             = QMul(QI(l_), EvalQ(h_, p_))

\* ---- trees (variables x, y, z relative to the centre, r = |(x,y,z)|, alpha) --------------
Gauss3 == Exp(Neg(Mul(Alpha, R2)))
ChanRhoTree(l_, i_) == Mul(Harm[l_][i_], Gauss3)
RECURSIVE BTreeF(_, _)
BTreeF(s_, l_) == IF s_ = {} THEN CI(0)
                  ELSE LET e_ == CHOOSE x_ \in s_ : \A y_ \in s_ : x_ >= y_
                       IN Add(BTreeF(s_ \ {e_}, l_),
                              Mul(Mul(CQ(ChanCoef[l_][e_]), Pow(Alpha, (e_ + l_ - 1) \div 2 - (l_ + 1))), Pow(R, e_)))
UChanTree(l_) == Add(Mul(Mul(Mul(CQ(ChanA(QOne, l_)), Pow(Alpha, -(l_ + 1))), Pow(R, -l_)), ErfTree),
                     Mul(BTreeF(BExps(l_), l_), ETree))
\* V = pi sqrt(pi/alpha) H utilde / r^(l+1)          (r > 0)
ChanVTree(l_, i_) == Mul(Mul(Mul(Pi, Sqrt(Div(Pi, Alpha))), Harm[l_][i_]), Div(UChanTree(l_), Pow(R, l_ + 1)))
\* Laplacians for interpolate_laplacian: of the normalised s-Gaussian (radial form) and of the
\* channel functions (Cartesian form), derived symbolically
LapSTree == Div(Dn(Mul(R, RhoDocTree("s")), "r", 2), R)
LapChanTree(l_, i_) == Lap3(ChanRhoTree(l_, i_))

PTrees == [chan |-> [l_ \in Ls |-> [i_ \in 1..Len(Harm[l_]) |->
                        [rho |-> ChanRhoTree(l_, i_), pot |-> ChanVTree(l_, i_), lap |-> LapChanTree(l_, i_)]]],
           laps |-> LapSTree]
EmitP == JsonSerialize("poisson_trees.json", PTrees)
ASSUME EmitP

\* ---- configuration space ---------------------------------------------------------------------
\* radial grids: GaussLegendre(n) mapped by BeckeRTransform(rmin, R); angular degree deg
\* envelope of exponents resolved by these grids (calibrated): 1/2 <= alpha <= 3
Env == << <<1, 2>>, <<1, 1>>, <<2, 1>>, <<3, 1>> >>
\* map = radial transformation of the GaussLegendre(n) nodes: "Becke" = BeckeRTransform(rmin, R),
\* "Handy2" = HandyRTransform(rmin, R, 2) (first radial point ~1e-9: needed when include_origin = FALSE,
\* because the solver then imposes u = 0 at the FIRST radial point)
GridsOrigin == << [map |-> "Becke", n |-> 100, rmin |-> <<0, 1>>, R |-> <<3, 2>>, deg |-> 7],
                  [map |-> "Becke", n |-> 100, rmin |-> <<1, 100000>>, R |-> <<1, 1>>, deg |-> 7],
                  [map |-> "Becke", n |-> 120, rmin |-> <<0, 1>>, R |-> <<3, 2>>, deg |-> 5],
                  [map |-> "Handy2", n |-> 200, rmin |-> <<0, 1>>, R |-> <<1, 1>>, deg |-> 7] >>
GridsNoOrigin == << [map |-> "Handy2", n |-> 200, rmin |-> <<0, 1>>, R |-> <<1, 1>>, deg |-> 7],
                    [map |-> "Handy2", n |-> 200, rmin |-> <<0, 1>>, R |-> <<3, 2>>, deg |-> 5] >>
Centres == << <<QI(0), QI(0), QI(0)>>, <<Q(1, 2), Q(-1, 4), QI(1)>> >>
CoefSets == << <<QI(1)>>, <<QI(2), QI(-1)>>, <<QI(1), Q(1, 2), Q(-1, 4)>> >>
Bool == <<TRUE, FALSE>>
Pick(s_, n_) == s_[(n_ % Len(s_)) + 1]
MaxAlphaOf(key_) == ParamMaxAlpha[CHOOSE i_ \in 1..Len(ParamKeys) : ParamKeys[i_] = key_]
\* a spherical term [l |-> 0, i |-> 1, c, alpha, d (displacement from the atom)] or a channel term
STerm(c_, a_, d_) == [l |-> 0, i |-> 1, c |-> c_, alpha |-> a_, d |-> d_]
CTerm(l_, i_, c_, a_) == [l |-> l_, i |-> i_, c |-> c_, alpha |-> a_, d |-> <<QI(0), QI(0), QI(0)>>]
Zero3 == <<QI(0), QI(0), QI(0)>>
Half1 == <<1, 2>>
VAdd(p_, q_) == <<QAdd(p_[1], q_[1]), QAdd(p_[2], q_[2]), QAdd(p_[3], q_[3])>>
Case(n_) ==
    LET kind_ == Pick(<<"bvp_s", "bvp_chan", "lin", "ivp_s", "robust_exact", "robust_smooth", "lap", "mol", "bvp_off", "robust_core">>, n_)
        m_ == n_ \div 10
        ctr_ == Pick(Centres, m_ \div 3)
        l1_ == CTerm(1, (m_ % 3) + 1, Pick(<<QI(1), QI(-2), Q(3, 2)>>, m_), Pick(Env, m_ + 1))
        l2_ == CTerm(2, (m_ % 5) + 1, Pick(<<Q(1, 2), QI(1), QI(-1)>>, m_ \div 2), Pick(Env, m_ + 2))
        off_ == Pick(<< <<QI(0), QI(0), Q(1, 10)>>, <<Q(1, 10), Q(-1, 10), QI(0)>> >>, m_)
        sep_ == Pick(<<QI(8), QI(10), QI(7)>>, m_)
        nat_ == IF kind_ = "mol" THEN Pick(<<2, 2, 3>>, m_ \div 3)
                ELSE IF kind_ \in {"robust_exact", "robust_smooth", "robust_core"} /\ m_ % 4 = 3 THEN 2
                \* Laplacian of a function sampled on a molecular grid: sum over atoms of the Laplacians of w_A f
                ELSE IF kind_ = "lap" /\ m_ % 3 = 2 THEN Pick(<<2, 3>>, m_ \div 3) ELSE 1
        \* molecules: at least one Gaussian per atom (term k sits on atom ((k-1) mod nat) + 1)
        cs_ == IF kind_ = "mol" THEN (IF nat_ = 3 THEN CoefSets[3] ELSE Pick(<<CoefSets[2], CoefSets[3]>>, m_))
               ELSE Pick(CoefSets, m_ \div 2)
        sterms_ == [k_ \in 1..Len(cs_) |-> STerm(cs_[k_], Pick(Env, m_ + k_), Zero3)]
        atoms_ == [j_ \in 1..nat_ |-> IF j_ = 1 THEN ctr_
                                       ELSE IF j_ = 2 THEN VAdd(ctr_, <<sep_, QI(0), QI(0)>>)
                                       ELSE VAdd(ctr_, <<QI(0), sep_, QI(0)>>)]
        origin_ == IF kind_ \in {"bvp_s", "robust_exact", "robust_smooth", "robust_core"} /\ nat_ = 1 THEN Pick(Bool, m_ \div 2) ELSE FALSE
        g_ == IF origin_ THEN Pick(GridsOrigin, m_) ELSE Pick(GridsNoOrigin, m_)
        smoothEls_ == SelectSeq(ParamKeys, LAMBDA k_ : MaxAlphaOf(k_) <= 30000)
    IN [id |-> n_, kind |-> kind_, grid |-> g_, centre |-> ctr_, atoms |-> atoms_,
        \* the ODE variable is always the grid's own map (as in the library's tests); an unrelated map
        \* (Becke inverse on Handy2 nodes) puts mesh points 1e-9 from the end point and solve_bvp gives up
        ode |-> "inverse-of-grid-map",
        \* robust_smooth: only elements whose core model the radial grids resolve (largest exponent <= 3e4)
        elements |-> [j_ \in 1..nat_ |-> IF kind_ = "robust_smooth" THEN Pick(smoothEls_, m_ + j_ - 1)
                                          ELSE Pick(ParamKeys, m_ + j_ - 1)],
        \* include_origin = TRUE only for spherical densities on one atom: with l > 0 content the library's
        \* r = 0 node (coefficient -l(l+1)/1e-20) makes scipy.solve_bvp thrash (36 000 nodes, NaN residuals,
        \* ~50 s per channel, non-convergence at tol 1e-8) - performance, not in the property
        origin |-> origin_,
        boundary |-> IF nat_ = 1 THEN Pick(<<"auto", "exact">>, m_ \div 4) ELSE "auto",
        split2 |-> Pick(Bool, m_),
        \* remove_large_pts: radial points beyond it are dropped, the boundary value is then imposed at the
        \* last remaining point (~40 bohr instead of ~1e8, where it has no influence on V) - spherical cases only
        rcut |-> IF kind_ = "bvp_s" THEN Pick(<<0, 40, 0, 60>>, m_ \div 2) ELSE 0,
        sep |-> sep_,
        lin |-> <<Pick(<<QI(2), QI(-1), Q(1, 2)>>, m_), Pick(<<QI(-3), QI(1), QI(2)>>, m_ \div 3)>>,
        \* robust_exact: rho = fitted core model of the elements; robust_core: core model + terms;
        \* robust_smooth: terms only (the solver still subtracts the core model)
        terms |-> CASE kind_ \in {"bvp_s", "ivp_s", "robust_smooth", "robust_core", "mol"} -> sterms_
                    [] kind_ = "bvp_chan" -> sterms_ \o (IF m_ % 2 = 0 THEN <<l1_>> ELSE <<l1_, l2_>>)
                    [] kind_ = "lin" -> << sterms_[1], l1_ >>
                    [] kind_ = "lap" -> (IF m_ % 2 = 0 THEN << sterms_[1] >> ELSE << sterms_[1], l1_ >>)
                    [] kind_ = "bvp_off" -> << STerm(QI(1), Pick(<<Half1, QOne>>, m_), off_) >>
                    [] OTHER -> << >>]
NCases == 600

\* admissibility of a case: exponents inside the envelope, displacement small against the band
\* limit of the angular grid (alpha |d| <= 1/5), molecule centres >= 6 bohr apart
InEnv(a_) == QLe(<<1, 2>>, a_) /\ QLe(a_, <<3, 1>>)
Norm1(d_) == QAdd(QAdd(QAbs(d_[1]), QAbs(d_[2])), QAbs(d_[3]))
CaseAdmissible(c_) ==
    /\ \A k_ \in 1..Len(c_.terms) :
          /\ InEnv(c_.terms[k_].alpha)
          /\ QLe(QMul(c_.terms[k_].alpha, Norm1(c_.terms[k_].d)), <<1, 5>>)
          /\ c_.terms[k_].l \in Ls /\ c_.terms[k_].i \in 1..Len(Harm[c_.terms[k_].l])
          /\ c_.terms[k_].c # QZero
    /\ (c_.kind = "mol" => QLe(QI(6), c_.sep) /\ Len(c_.terms) >= Len(c_.atoms))
    /\ (c_.rcut # 0 => c_.rcut >= 40 /\ \A k_ \in 1..Len(c_.terms) : c_.terms[k_].l = 0)
    /\ c_.grid.deg \div 2 >= 2                 \* channels l <= 2 are inside the expansion
    /\ (~c_.origin => c_.grid.map = "Handy2")   \* u(first radial point) = 0 is then accurate to ~1e-9
    /\ (c_.origin => Len(c_.atoms) = 1 /\ \A k_ \in 1..Len(c_.terms) : c_.terms[k_].l = 0 /\ c_.terms[k_].d = Zero3)
    /\ (c_.kind = "robust_smooth" => \A j_ \in 1..Len(c_.elements) : MaxAlphaOf(c_.elements[j_]) <= 30000)

VARIABLES pp, cidx
pvars == <<ck, ca, pp, cidx>>
PInit == Init /\ pp = "idle" /\ cidx = 0
PAlphaSet == {<<1, 2>>, <<1, 1>>, <<2, 1>>, <<3, 1>>, <<7, 3>>, <<5, 1>>}
PickAlpha == /\ pp = "idle" /\ \E a_ \in PAlphaSet : ca' = a_
             /\ pp' = "alg" /\ UNCHANGED <<ck, cidx>>
PickCase == /\ pp = "idle" /\ \E n_ \in 0..NCases - 1 : cidx' = n_
            /\ pp' = "case" /\ UNCHANGED <<ck, ca>>
PNext == PickAlpha \/ PickCase
PSpec == PInit /\ [][PNext]_pvars

\* (P1) series, (P2) channel potentials derived: unique on the lattice, alpha-scaling as assumed,
\*      regular at the origin, l = 0 is Coulomb's s-type potential times its normalisation
ChannelsDerived ==
    pp = "alg" =>
        /\ SeriesOK(ca) /\ AntiderCorrect(ca)
        /\ \A l_ \in Ls : /\ ChanSolve(ca, l_) = {ChanCoef[l_]}
                          /\ ChanRegular(ca, l_)
        /\ ChanU(ca, 0, ChanCoef[0]) = EScale(QMul(QI(4), Moment(ca, 1)), SpecU("s"))
\* (P3) linearity of the channel equation (same alpha): a u1 + b u2 solves a f1 + b f2
ChannelLinear ==
    pp = "alg" => \A l_ \in Ls : \A c1_, c2_ \in Coefs :
        ChanOp(ca, l_, EAdd(EScale(QI(c1_), ChanU(ca, l_, ChanCoef[l_])), EScale(QI(c2_), ChanU(ca, l_, ChanCoef[l_]))))
            = EScale(QI(c1_ + c2_), El({}, PMono(QI(-4), l_ + 1)))
ChanLiteral == /\ ChanCoef[1] = [e_ \in {0} |-> <<-1, 1>>]
               /\ ChanCoef[2] = [e_ \in {-1, 1} |-> IF e_ = -1 THEN <<-3, 2>> ELSE <<-1, 1>>]
               /\ ChanA(QOne, 1) = <<1, 2>> /\ ChanA(QOne, 2) = <<3, 4>>
CasesSound == pp = "case" => CaseAdmissible(Case(cidx)) /\ PrintT(<<"CASE", Case(cidx)>>)
=============================================================================
