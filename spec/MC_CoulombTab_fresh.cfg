SPECIFICATION CSpec
CONSTANTS
  Fitted = {1, 17}
  Spell = {"int", "lower"}
  RefusedKinds = {"unknown-symbol", "not-fitted"}
  MaxObjs = 3
  Handout = "fresh"
INVARIANT EveryCallEqual
INVARIANT TableClean
INVARIANT NoAliasTableUser
