----------------------------- MODULE MC_CubicCube -----------------------------
(***************************************************************************)
(* C13, cube files.  TLC decides, for every data length 1..MaxN (hence      *)
(* every length modulo six), that the reader loop applied to the output of *)
(* the writer loop is the identity on the data positions and that the      *)
(* writer produces the declarative layout (full lines of six, one shorter  *)
(* last line); it emits the file cases (shapes covering every residue      *)
(* modulo six, 1..3 atoms) and the unit factor, and judges the line layout *)
(* (tokens per line) observed in the files written by the implementation.  *)
(* CubeExtraCases: forms of the data / geometry arrays, a file without     *)
(* atoms, wide coordinates, a file name written twice (same judge).        *)
(***************************************************************************)
EXTENDS Cubic, Json, Obs_cube      \* CubeObs (generated; <<>> when emitting)

CONSTANTS MaxN, Emit

CubeShapes == << <<2, 2, 2>>, <<2, 2, 3>>, <<3, 3, 3>>, <<2, 2, 4>>, <<5, 5, 5>>, <<5, 5, 7>>, <<2, 3, 5>>,
                 <<7, 7, 7>>, <<3, 5, 7>>, <<4, 3, 2>>, <<2, 7, 3>> >>
ASSUME {NPoints(CubeShapes[x_]) % PerLine : x_ \in 1..Len(CubeShapes)} = 0..PerLine - 1
CubeCases == [x_ \in 1..Len(CubeShapes) |-> [shape |-> CubeShapes[x_], natom |-> 1 + (x_ % 3)]]
\* "all data arrays": the forms in which the data / the geometry can be handed to the writer, the
\* boundary case of a file without atoms, coordinates wider than the 11.6f field, and a file name
\* that is written a second time (the file must be replaced, not appended to or partly overwritten)
DataForms == <<"cube3d", "fortran", "strided", "float32", "int", "int-geometry", "no-atoms", "wide-geometry", "rewrite">>
ExtraShapes == << <<2, 3, 5>>, <<3, 2, 2>>, <<2, 2, 4>>, <<3, 3, 3>>, <<4, 3, 2>>, <<2, 7, 3>>, <<2, 2, 3>>, <<3, 5, 7>>, <<2, 2, 2>> >>
CubeExtraCases == [x_ \in 1..Len(DataForms) |->
                      [shape |-> ExtraShapes[x_], natom |-> IF DataForms[x_] = "no-atoms" THEN 0 ELSE 1 + (x_ % 3),
                       form |-> DataForms[x_]]]
ASSUME Len(ExtraShapes) = Len(DataForms)
ASSUME Emit => JsonSerialize("cases_cube.json", [cases |-> CubeCases, extra |-> CubeExtraCases, angstrom_to_bohr |-> AngstromToBohr])

VARIABLES kpc, kn
Init == kpc = "idle" /\ kn = 0
PickLength == /\ kpc = "idle" /\ ~Emit
              /\ \E n_ \in 1..MaxN : kn' = n_
              /\ kpc' = "length"
PickFile == /\ kpc = "idle" /\ ~Emit
            /\ \E x_ \in 1..Len(CubeObs) : kn' = x_
            /\ kpc' = "file"
Next == PickLength \/ PickFile
Spec == Init /\ [][Next]_<<kpc, kn>>

AtLength == kpc = "length"
RECURSIVE Flatten(_)
Flatten(lines_) == IF lines_ = <<>> THEN <<>> ELSE Head(lines_) \o Flatten(Tail(lines_))
ReadOfWriteIsIdentity == AtLength => ReadData(WriteData(kn), kn) = [x_ \in 1..kn |-> x_]
WriterLayout ==
    AtLength => /\ Len(WriteData(kn)) = DataLineCount(kn)
                /\ [l_ \in 1..Len(WriteData(kn)) |-> Len(WriteData(kn)[l_])] = DataLineLengths(kn)
                /\ Flatten(WriteData(kn)) = [x_ \in 1..kn |-> x_]
                /\ \A l_ \in 1..DataLineCount(kn) : DataLineLengths(kn)[l_] \in 1..PerLine
                /\ ISumTo(DataLineLengths(kn), DataLineCount(kn)) = kn
\* the reader does not depend on the line structure: any re-chunking of the same tokens reads the same
RECURSIVE Rechunk(_, _)
Rechunk(tokens_, w_) ==
    IF Len(tokens_) <= w_ THEN <<tokens_>> ELSE <<SubSeq(tokens_, 1, w_)>> \o Rechunk(SubSeq(tokens_, w_ + 1, Len(tokens_)), w_)
ReaderIgnoresChunking ==
    AtLength => \A w_ \in {1, 5, 7} : ReadData(Rechunk([x_ \in 1..kn |-> x_], w_), kn) = [x_ \in 1..kn |-> x_]

AtFile == kpc = "file"
File == CubeObs[kn]
JudgeFileLayout ==
    AtFile => File.counts = FileTokenCounts(File.natom, NPoints(File.shape))
                \/ PrintT(<<"MISMATCH", kn, "tokens-per-line", FileTokenCounts(File.natom, NPoints(File.shape)), File.counts>>)
=============================================================================
