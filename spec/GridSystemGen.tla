--------------------------- MODULE GridSystemGen ---------------------------
(***************************************************************************)
(* Behaviour generation for X03 (run with -simulate): the machine of        *)
(* GridSystem over the abstract data of MC_GridSystem, with a history       *)
(* variable.  A step first picks an action CLASS (weighted), then one       *)
(* enabled instance of it, so that simulation does not drown the rare        *)
(* constructors in the many instances of Query / Edit.  Behaviours start     *)
(* from the empty state or from one of the scenario prefixes.  Every         *)
(* (three sub-steps: class, instance, execution - one evaluation of Do per  *)
(* call instead of one per enabled instance.)  Every                         *)
(* behaviour that reaches MaxLen calls is printed once; the harness replays  *)
(* it on real objects (the indices of a Query are taken from the real run    *)
(* and judged by GridSystemTrace).                                           *)
(***************************************************************************)
EXTENDS MC_GridSystem
CONSTANTS MaxLen
VARIABLES hist, pick, cand
gvars == <<vars, hist, pick, cand, calls>>
NoPick == <<"", 0>>
Weight == [NewAngular |-> 2, NewGrid |-> 1, NewGridFrom |-> 2, SetPoints |-> 1, SetWeights |-> 2, Edit |-> 5,
           Query |-> 3, GetItem |-> 2, NewAtom |-> 3, GetShell |-> 2, NewMol |-> 3, GetAtomic |-> 3, MolItem |-> 3,
           Integrate |-> 2, Drop |-> 2, Reject |-> 1]
Picks == UNION {{<<ActNames[k_], j_>> : j_ \in 1..Weight[ActNames[k_]]} : k_ \in 1..Len(ActNames)}
GSlots == Live(S)
ActsOf(c_) ==
    CASE c_ = "NewAngular"  -> {<<c_, mm_, dd_, ff_>> : mm_ \in Methods, dd_ \in Degrees, ff_ \in Bit}
      [] c_ = "NewGrid"     -> {<<c_, v1_, v2_, nn_>> : v1_ \in Vals, v2_ \in Vals, nn_ \in GridSizes}
      [] c_ = "NewGridFrom" -> {<<c_, i_>> : i_ \in GSlots}
      [] c_ = "SetPoints"   -> {<<c_, i_, vv_>> : i_ \in GSlots, vv_ \in Vals}
      [] c_ = "SetWeights"  -> {<<c_, i_, vv_>> : i_ \in GSlots, vv_ \in Vals}
      [] c_ = "Edit"        -> {<<c_, i_, pt_, vv_>> : i_ \in GSlots, pt_ \in {"p", "w", "atw", "aim"}, vv_ \in Vals}
      [] c_ = "Query"       -> {<<c_, i_, qq_, rr_, IF rr_ = Inf \/ Decidable(PtsOf(S, objs[i_])) THEN QIdx(S, objs[i_], qq_, rr_) ELSE <<>>>> :
                                    i_ \in GSlots, qq_ \in QCen, rr_ \in Radii}
      [] c_ = "GetItem"     -> {<<c_, i_, sl_>> : i_ \in GSlots, sl_ \in Sels}
      [] c_ = "NewAtom"     -> {<<c_, mm_, dd_, ci_>> : mm_ \in Methods, dd_ \in Degrees, ci_ \in 1..NCen}
      [] c_ = "GetShell"    -> {<<c_, i_, sh_, rq_>> : i_ \in GSlots, sh_ \in 1..Tab.nsh, rq_ \in Bit}
      [] c_ = "NewMol"      -> {<<c_, i_, j_, av_, st_>> : i_ \in GSlots, j_ \in GSlots, av_ \in AimVals, st_ \in Bit}
      [] c_ = "GetAtomic"   -> {<<c_, i_, k_>> : i_ \in GSlots, k_ \in 1..2}
      [] c_ = "MolItem"     -> {<<c_, i_, k_>> : i_ \in GSlots, k_ \in 1..2}
      [] c_ = "Integrate"   -> {<<c_, i_, fv_>> : i_ \in GSlots, fv_ \in FVals}
      [] c_ = "Drop"        -> {<<c_, i_>> : i_ \in GSlots}
      [] c_ = "Reject"      -> {<<c_, i_, kd_>> : i_ \in GSlots, kd_ \in RejectKinds}
Short(a_) == IF a_[1] = "Query" THEN <<a_[1], a_[2], a_[3], a_[4]>> ELSE a_
Scenarios == {0, 0, 1, 2, 3, 5, 6}
GInit == \E sc_ \in Scenarios :
            LET r == RunSeq(S0, PrefixOf(sc_), 1)
            IN /\ heap = r.s.heap /\ cache = r.s.cache /\ objs = r.s.objs /\ obs = r.obs
               /\ hist = [k_ \in 1..Len(PrefixOf(sc_)) |-> Short(PrefixOf(sc_)[k_])] /\ pick = NoPick /\ cand = <<>> /\ calls = 0
GNext ==
    /\ Len(hist) < MaxLen /\ UNCHANGED calls
    /\ \/ /\ pick = NoPick /\ pick' \in Picks /\ UNCHANGED <<vars, hist, cand>>
       \/ /\ pick # NoPick /\ cand = <<>>
          /\ IF \E a_ \in ActsOf(pick[1]) : En(S, a_)
               THEN cand' \in {a_ \in ActsOf(pick[1]) : En(S, a_)} /\ UNCHANGED <<vars, hist, pick>>
               ELSE pick' = NoPick /\ UNCHANGED <<vars, hist, cand>>
       \/ /\ cand # <<>>
          /\ Become(Do(S, cand)) /\ hist' = Append(hist, Short(cand))
          /\ pick' = NoPick /\ cand' = <<>>
GSpec == GInit /\ [][GNext]_gvars
Emit == Len(hist) = MaxLen /\ pick = NoPick => PrintT(<<"BEH", hist>>)
=============================================================================
