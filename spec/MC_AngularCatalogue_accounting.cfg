SPECIFICATION CSpec
INVARIANT RecordsAreCatalogued
INVARIANT AllRequiredDischarged
INVARIANT RecordsClean
