SPECIFICATION CSpec
INVARIANT RecordsAreCatalogued
INVARIANT AllRequiredDischarged
INVARIANT RecordsClean
INVARIANT AllRoutesRun
INVARIANT RoutesClean
