\* C04, quick tier, second model: arbitrary rules, chains, object reuse, integrands
SPECIFICATION Spec5
CONSTANT Tier = "quick"
CONSTANT EmitFile = ""
CONSTANT EmitExt = "transform1d_ext.json"
INVARIANT DomainOrderedG
INVARIANT NodesInDomainG
INVARIANT WeightSignKept
INVARIANT ZeroWeightKept
INVARIANT PermutationLaw
INVARIANT HandBaseExact
INVARIANT HandExactnessTransport
INVARIANT SubDomainInside
INVARIANT ChainLaw
INVARIANT ChainIdentityInner
INVARIANT FirstHitsRmax
INVARIANT SecondUsesFirstB
INVARIANT SameRuleSameGrid
INVARIANT SumRuleExact
INVARIANT PositiveIntegrands
INVARIANT EmitHand
INVARIANT EmitChain
INVARIANT EmitReuse
