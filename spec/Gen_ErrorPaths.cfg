SPECIFICATION GSpec
CONSTANTS
  Kinds = {"Grid", "OneDGrid", "PeriodicGrid", "AtomGrid", "Scaled"}
  Validate = TRUE
  MaxLen = 3
INVARIANT EmitBeh
INVARIANT SizeConsistent
PROPERTY RejectIsAtomic
