--------------------------- MODULE ErrorPathsJudge ---------------------------
(***************************************************************************)
(* X01 - the judge.  obs_x01.json holds one record per call the harness    *)
(* made on the real library:                                               *)
(*   op, a     the entry point and the abstract argument (a CASE line of   *)
(*             the enumerator, handed back unchanged)                      *)
(*   exc       "" or the class name of the exception the call raised       *)
(*   mro       the class names of the exception's ancestors (so that a     *)
(*             subclass of the documented class is accepted)               *)
(*   changed   "" or the name of the first observable attribute of the     *)
(*             receiver / the first caller buffer that is not bit-identical*)
(*             to what it was before the call                              *)
(*   gain      number of entries the module-level caches gained            *)
(* Every observation is visited (block-wise, so that the initial state set *)
(* is a singleton) and judged against ErrorPaths; all mismatches are       *)
(* printed, none stops the run.                                            *)
(***************************************************************************)
EXTENDS ErrorPaths, Json
Obs == JsonDeserialize("obs_x01.json")
VARIABLES blk, idx
jvars == <<evars, blk, idx>>
BlockSize == 64
NBlocks == (Len(Obs) + BlockSize - 1) \div BlockSize

JInit == EInit /\ blk = 0 /\ idx = 0
JPickBlock == /\ phase = "idle"
              /\ \E b_ \in 1..NBlocks : blk' = b_
              /\ phase' = "op" /\ UNCHANGED <<cop, carg, idx>>
JPickObs == /\ phase = "op"
            /\ \E j_ \in 1..BlockSize :
                 LET i == (blk - 1) * BlockSize + j_ IN
                 /\ i <= Len(Obs)
                 /\ idx' = i /\ cop' = Obs[i].op /\ carg' = Obs[i].a
            /\ phase' = "case" /\ UNCHANGED blk
JNext == JPickBlock \/ JPickObs
JSpec == JInit /\ [][JNext]_jvars

O == Obs[idx]
V == Verdict(cop, carg)
Bad(what_) == PrintT(<<"MISMATCH", idx, what_, cop, carg, V.cls, V.rule, O.exc, O.changed, O.gain>>)

\* the observation is an observation of a case of the model
InModel == AtCase => (cop \in Ops /\ carg \in Dom(cop)) \/ Bad("not-a-case-of-the-model")
\* raised <=> Rejects
RaisesIffRejects ==
    AtCase => \/ (O.exc # "") = Rejects(cop, carg)
              \/ Bad(IF O.exc = "" THEN "accepted-but-specified-to-raise" ELSE "raised-but-specified-to-accept")
\* ... and WHICH exception class (a subclass of the specified class conforms)
ClassAgrees ==
    AtCase /\ O.exc # "" /\ Rejects(cop, carg) /\ V.cls # ANY =>
        \/ V.cls \in {O.mro[k_] : k_ \in 1..Len(O.mro)}
        \/ Bad("wrong-exception-class")
\* atomic failure: a call that raised left every observable attribute of the receiver and every caller buffer
\* bit-identical; so does an accepted call of an entry point that is not a mutator
AtomicFailure == AtCase /\ O.exc # "" => O.changed = "" \/ Bad("state-changed-by-rejected-call")
PureWhenAccepted == AtCase /\ O.exc = "" /\ Pure(cop) => O.changed = "" \/ Bad("state-changed-by-non-mutating-call")
\* caches: a rejected constructor adds nothing; cache=False adds nothing; cache=True adds the one grid
CacheAgrees ==
    AtCase /\ CacheJudged(cop) => O.gain = CacheGain(cop, carg, O.exc # "") \/ Bad("module-cache-entries-gained")
\* completeness: every case of the model has an observation (checked once, in the initial state)
Complete ==
    phase = "idle" =>
        \A o_ \in Ops :
            Cardinality({Obs[i_].a : i_ \in {j_ \in 1..Len(Obs) : Obs[j_].op = o_}}) = Cardinality(Dom(o_))
            \/ PrintT(<<"INCOMPLETE", o_>>)
=============================================================================
