----------------------------- MODULE SuiteTrace -----------------------------
(***************************************************************************)
(* Events recorded while the repository's own tests run under the external *)
(* instrumentation vf/record.py (suite_events.json: a sequence of events). *)
(* The existing tests drive the library through many more call patterns    *)
(* than the replays; their assertions do not look at what is judged here.  *)
(*                                                                         *)
(*   Query  one Grid.get_localgrid call: fresh (the neighbour tree was     *)
(*          built from the points the grid has now - hashes compared),     *)
(*          set_ok / pts_ok / wts_ok (brute-force check of the result)      *)
(*   New    one AngularGrid construction: p, w ("ok"/"dirty" against the    *)
(*          shipped file), pa, wa (shares memory with a cached array),      *)
(*          clean (cached entry still equals the shipped data)              *)
(*   Call   one public call during which a caller-owned buffer changed or   *)
(*          a read-only input was rejected (only irregular calls are logged)*)
(* The clauses are the ones of LocalGridSys (QueryCorrect, TreeFresh),      *)
(* CacheSys (FreshIsShipped, NoAliasCacheUser, CacheClean) and CallFrame    *)
(* (CallerFrame, read-only inputs accepted).                                *)
(***************************************************************************)
EXTENDS Integers, Sequences, TLC, Json
Events == JsonDeserialize("suite_events.json")
VARIABLE pos
Clause(e_) ==
    CASE e_.ev = "Query" ->
            IF e_.exc # "" THEN "raised:" \o e_.exc
            ELSE IF ~e_.fresh THEN "neighbour-tree-built-from-other-points"
            ELSE IF ~e_.set_ok THEN "wrong-point-set"
            ELSE IF ~e_.pts_ok THEN "points-not-parent-points-at-indices"
            ELSE IF ~e_.wts_ok THEN "weights-not-parent-weights-at-indices"
            ELSE "ok"
      [] e_.ev = "New" ->
            IF e_.p # "ok" THEN "points-differ-from-shipped-data"
            ELSE IF e_.w # "ok" THEN "weights-differ-from-shipped-data"
            ELSE IF e_.pa THEN "points-array-aliases-cache"
            ELSE IF e_.wa THEN "weights-array-aliases-cache"
            ELSE IF ~e_.clean THEN "cached-array-modified"
            ELSE "ok"
      [] e_.ev = "Call" ->
            IF Len(e_.changed) > 0 THEN "caller-buffer-modified"
            ELSE IF e_.exc = "read-only" THEN "read-only-input-rejected"
            ELSE "ok"
      [] OTHER -> "unknown-event"
Init == pos = 1
Next == /\ pos <= Len(Events)
        /\ IF Clause(Events[pos]) = "ok" THEN TRUE
           ELSE PrintT(<<"REJECT", pos, Events[pos].ev, Clause(Events[pos])>>)
        /\ pos' = pos + 1
Spec == Init /\ [][Next]_pos
Finished == pos = Len(Events) + 1 => PrintT(<<"JUDGED", Len(Events)>>)
=============================================================================
