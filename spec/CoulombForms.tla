---------------------------- MODULE CoulombForms ----------------------------
(***************************************************************************)
(* C17, quantifier: "for ALL alpha > 0 ..., ALL r >= 0 ..., ALL centre /    *)
(* coefficient sets, EVERY element symbol / number".                       *)
(*                                                                          *)
(* Coulomb.tla states WHAT the potentials are.  This module states over    *)
(* which REQUESTS the statement is made, and what a conforming answer to   *)
(* each request looks like, so that the harness cannot choose (or skip)    *)
(* the awkward ones:                                                        *)
(*                                                                          *)
(*  Part A  coulomb_gaussian_s / _p (r, alpha, normalized): the potential  *)
(*    is a function of the mathematical VALUES of its arguments, element   *)
(*    by element.  A request is (kind, form of r, composition of r with    *)
(*    respect to the small-r switch and the Gaussian width, form of alpha, *)
(*    form of the flag).  The answer has the shape of r (at least 1-d), is *)
(*    a fresh float64 array, every element equals the potential at the     *)
(*    value of that radius (tolerance class decided here), the arguments   *)
(*    are left as they were and the same request repeated with the same    *)
(*    objects gives the same answer.                                       *)
(*  Part B  coulomb_potential: a request is (set of s functions, set of p  *)
(*    functions, layout / aliasing of the arrays, number of points, form   *)
(*    of the arrays, form of the flag, call style).  The answer has one    *)
(*    entry per point and equals the coefficient-weighted superposition;   *)
(*    the shipped per-element sets are centre sets of the statement, so    *)
(*    they go through the same routine (and r V -> sum of coefficients).   *)
(*  Part C  the value lattice: decades of alpha, the exponents of every    *)
(*    shipped set, radii up to the largest floats.                         *)
(*                                                                          *)
(* CoulombFormsGen emits the request tables, the harness realises them on  *)
(* the implementation, CoulombFormsJudge (TLC) judges what was observed and *)
(* that nothing was left out.                                               *)
(***************************************************************************)
EXTENDS Integers, Sequences, FiniteSets, TLC

Range(s_) == {s_[i_] : i_ \in 1..Len(s_)}
IndexIn(s_, x_) == CHOOSE i_ \in 1..Len(s_) : s_[i_] = x_

Kinds == <<"s", "p">>

\* ---- Part A: radius classes ----------------------------------------------------------------
\*   Z  r = 0                         B  0 < r < switch threshold (down to the smallest float)
\*   T  r = the threshold, bit for bit A  threshold <= r <= 1e100 (mostly the erf region)
\*   F  as A, and sqrt(alpha) r >= FarX (far field: r V = total charge)
\*   H  1e150 <= r < infinity (r^2 overflows)          I  r = infinity
RClasses == {"Z", "B", "T", "A", "F", "H", "I"}

\* forms of the radius argument and what they can represent
RFormSeq == <<"f8", "list", "tuple", "i8", "f4", "f2", "longdouble", "strided", "readonly",
              "2d", "fortran2d", "3d", "0d", "pyfloat", "pyint", "npfloat">>
RDom(f_) == CASE f_ \in {"i8", "pyint"} -> "int"
              [] f_ = "f4" -> "f4"
              [] f_ = "f2" -> "f2"
              [] OTHER -> "any"
Repr(d_) == CASE d_ = "int" -> {"Z", "A", "F"}
              [] d_ = "f4" -> {"Z", "B", "A", "F", "I"}
              [] d_ = "f2" -> {"Z", "A", "F", "I"}
              [] OTHER -> RClasses
RShape(f_) == CASE f_ \in {"0d", "pyfloat", "pyint", "npfloat"} -> "one"
                [] f_ \in {"2d", "fortran2d"} -> "mat"
                [] f_ = "3d" -> "cube"
                [] OTHER -> "vec"

\* compositions: which classes sit together in one array.  A switch implemented on the whole
\* array (any / all) instead of element by element shows only in the homogeneous ones.
CompSeq == <<"mixed", "above", "below", "zeros", "far", "empty",
             "one-Z", "one-B", "one-T", "one-A", "one-F", "one-H", "one-I">>
CompSlots(c_) ==
    CASE c_ = "mixed" -> <<"Z", "B", "T", "A", "A", "F", "B", "H", "I", "A">>
      [] c_ = "above" -> <<"T", "A", "A", "F", "H", "F">>
      [] c_ = "below" -> <<"Z", "B", "B", "Z", "B", "B">>
      [] c_ = "zeros" -> <<"Z", "Z">>
      [] c_ = "far"   -> <<"F", "H", "I", "F">>
      [] c_ = "empty" -> <<>>
      [] c_ = "one-Z" -> <<"Z">>
      [] c_ = "one-B" -> <<"B">>
      [] c_ = "one-T" -> <<"T">>
      [] c_ = "one-A" -> <<"A">>
      [] c_ = "one-F" -> <<"F">>
      [] c_ = "one-H" -> <<"H">>
      [] c_ = "one-I" -> <<"I">>
IsOne(c_) == c_ \in {"one-Z", "one-B", "one-T", "one-A", "one-F", "one-H", "one-I"}
Filtered(rf_, c_) == SelectSeq(CompSlots(c_), LAMBDA x_ : x_ \in Repr(RDom(rf_)))
\* the radii of the request, in order (matrices / cubes need an even count)
Slots(rf_, c_) ==
    LET f_ == Filtered(rf_, c_)
        n_ == Len(f_)
    IN CASE RShape(rf_) = "one" -> IF n_ >= 1 THEN SubSeq(f_, 1, 1) ELSE <<>>
         [] RShape(rf_) \in {"mat", "cube"} -> SubSeq(f_, 1, 2 * (n_ \div 2))
         [] OTHER -> f_
ValidRC(rf_, c_) ==
    CASE RShape(rf_) = "one" -> IsOne(c_) /\ Len(Filtered(rf_, c_)) = 1
      [] RShape(rf_) \in {"mat", "cube"} -> c_ = "empty" \/ (~IsOne(c_) /\ Len(Slots(rf_, c_)) >= 2)
      [] OTHER -> \/ c_ = "empty"
                  \/ IsOne(c_) /\ Len(Filtered(rf_, c_)) = 1
                  \/ ~IsOne(c_) /\ Len(Slots(rf_, c_)) >= 2
\* shape of a conforming answer: the shape of r, a scalar counts as one radius
ExpShape(rf_, c_) ==
    LET n_ == Len(Slots(rf_, c_))
    IN CASE RShape(rf_) = "one" -> <<1>>
         [] RShape(rf_) = "mat" -> <<2, n_ \div 2>>
         [] RShape(rf_) = "cube" -> <<1, 2, n_ \div 2>>
         [] OTHER -> <<n_>>

\* forms of the exponent.  Every form holds its value EXACTLY (integers are numbers, not a
\* precision), so the answer is the potential for that value to double precision; only a
\* float32 exponent is judged with the precision it announces.
AFormSeq == <<"pyfloat", "pyint", "np.float64", "np.int64", "np.int32", "np.float32", "0d-f8", "0d-i8",
              "np.int16", "np.uint16", "np.int8", "np.uint8">>
ADom(f_) == CASE f_ \in {"pyint", "np.int64", "np.int32", "0d-i8"} -> "int"
              [] f_ \in {"np.int16", "np.uint16", "np.int8", "np.uint8"} -> "smallint"
              [] f_ = "np.float32" -> "f4"
              [] OTHER -> "any"
\* exponent pools (rationals), every member exactly representable in the forms of the domain
APool(d_) == CASE d_ = "int" -> <<<<2, 1>>, <<3, 1>>, <<50, 1>>, <<1000000, 1>>>>
               [] d_ = "smallint" -> <<<<2, 1>>, <<3, 1>>, <<50, 1>>>>
               [] d_ = "f4" -> <<<<1, 16>>, <<1, 2>>, <<2, 1>>, <<3, 1>>, <<50, 1>>, <<1000000, 1>>>>
               [] OTHER -> <<<<1, 16>>, <<1, 2>>, <<2, 1>>, <<3, 1>>, <<7, 3>>, <<50, 1>>, <<1000000, 1>>>>
ATol(f_) == IF f_ = "np.float32" THEN "single" ELSE "exact"
\* tolerance classes as powers of ten (relative).  exact: the tolerance of the value lattice.
\* single: sqrt, pi/alpha, (.)^1.5 or alpha^2.5 and one product are carried out in float32 when alpha
\* is one: <= 6 roundings of 2^-24 = 3.6e-7, each entering V with sensitivity <= 2.5 -> 9e-7 (measured on
\* the pinned tree: 9.6e-8 .. 1.4e-7); 1e-4 leaves three orders above the measurement and is still below
\* what a half-precision intermediate costs (>= 1.5e-4 for every exponent of the pool without an exact root).
TolExp == [exact |-> -12, single |-> -4]

\* forms of the flag
NFormSeq == <<"omitted", "pos-true", "pos-false", "kw-true", "kw-false", "np-true", "np-false">>
Truth(n_) == n_ \in {"omitted", "pos-true", "kw-true", "np-true"}     \* the documented default is True
NormFac(n_) == IF Truth(n_) THEN "one" ELSE "N"

ValidA(c_) == /\ c_.kind \in Range(Kinds) /\ c_.rform \in Range(RFormSeq) /\ c_.comp \in Range(CompSeq)
              /\ c_.aform \in Range(AFormSeq) /\ c_.nform \in Range(NFormSeq)
              /\ ValidRC(c_.rform, c_.comp)
RCPairs == {<<rf_, c_>> \in Range(RFormSeq) \X Range(CompSeq) : ValidRC(rf_, c_)}
ACases == {[kind |-> k_, rform |-> p_[1], comp |-> p_[2], aform |-> a_, nform |-> n_] :
             k_ \in Range(Kinds), p_ \in RCPairs, a_ \in Range(AFormSeq), n_ \in Range(NFormSeq)}

\* ---- Part B: requests to coulomb_potential ---------------------------------------------------
SSetSeq == <<"none", "one", "few", "many", "element", "molecule">>
PSetSeq == <<"omitted", "nones", "empty", "one", "few", "many">>
\* number of functions of the synthetic sets (element / molecule: the lengths of the shipped sets)
KFixed(x_) == CASE x_ \in {"none", "omitted", "nones", "empty"} -> 0
                [] x_ = "one" -> 1
                [] x_ = "few" -> 3
                [] x_ = "many" -> 24
PPresent(p_) == p_ \notin {"omitted", "nones"}
\* layouts: which arrays coincide, by value or as objects
\*   distinct            all centres different
\*   p-on-s              every p centre equals (by value) one of the s centres (shells of one atom)
\*   p-alias-s           centers_p IS centers_s (the same object), hence as many p as s functions
\*   one-centre          every centre, s and p, is the same point (an atom)
\*   points-are-centres  points IS centers_s (the potential at the nuclei), hence N = Ks
\*   coef-alias-alpha    coeffs_s IS alphas_s (coefficient = exponent, one object)
LayoutSeq == <<"distinct", "p-on-s", "p-alias-s", "one-centre", "points-are-centres", "coef-alias-alpha">>
NPtsSeq == <<0, 1, 6, 1500>>
DFormSeq == <<"f8", "lists", "ints", "f4", "fortran", "strided", "readonly">>
BNFormSeq == <<"omitted", "true", "false", "np-true", "np-false">>
BTruth(n_) == n_ \in {"omitted", "true", "np-true"}
StyleSeq == <<"positional", "keyword">>
BDims == <<"sset", "pset", "layout", "npts", "dform", "nform", "style">>
BPool(d_) == CASE d_ = "sset" -> SSetSeq [] d_ = "pset" -> PSetSeq [] d_ = "layout" -> LayoutSeq
               [] d_ = "npts" -> NPtsSeq [] d_ = "dform" -> DFormSeq [] d_ = "nform" -> BNFormSeq
               [] d_ = "style" -> StyleSeq
\* points judged against the specification's superposition (the rest against the law
\* "sum of the single-centre functions" only): the first JudgedMax points
JudgedMax == 4

\* ---- Part C: the value lattice -----------------------------------------------------------------
AlphaDecades == -10..10            \* 10^k for every k: "many orders of magnitude"
HugeRadiiExp == {150, 200, 300}     \* 10^k: "very large r" beyond the overflow of r^2
=============================================================================
