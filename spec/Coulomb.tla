------------------------------- MODULE Coulomb -------------------------------
(***************************************************************************)
(* Closed-form Coulomb potentials of Gaussian charge densities (C17) and   *)
(* the oracle potentials of the Poisson solvers (C16).                     *)
(*                                                                         *)
(* THE ALGEBRA.  For a fixed exponent alpha > 0 let                        *)
(*      erf := erf(sqrt(alpha) r),   E := sqrt(alpha/pi) exp(-alpha r^2).  *)
(* An element  [a |-> A, b |-> B]  denotes  A(r) erf + B(r) E  with A, B   *)
(* (Laurent) polynomials in r over Q (CPoly.tla).  The two rules           *)
(*      D erf = 2 E          D E = -2 alpha r E                            *)
(* make this a differential algebra, so d/dr is the exact operator DD.     *)
(* erf and E are linearly independent over the rational functions, hence   *)
(* an identity between elements holds for EVERY r iff the coefficient      *)
(* polynomials agree - which is what TLC compares.                         *)
(*                                                                         *)
(* WHAT IS STATED.  Only the densities (as the library documents them) and *)
(* the radial Poisson equation.  With U = r V:                             *)
(*      (1/r) U'' = -4 pi rho   <=>   DD(DD(U)) = -4 pi r rho              *)
(* The potential is DERIVED: TLC solves the equation for the coefficient   *)
(* of the Gaussian tail on a rational lattice (SolveSet) and checks        *)
(* uniqueness, regularity at the origin, the value V(0), the total charge  *)
(* and the normalisation constants (through verified antiderivatives of    *)
(* r^2m E).  The formulas the library documents are transcribed as CodeU   *)
(* and judged against the same equation.                                   *)
(*                                                                         *)
(* Trees emitted for the harness (variables "r", "alpha") are built from   *)
(* the verified elements, never from the code.                             *)
(***************************************************************************)
EXTENDS CPoly, TLC, Json, Tables_coulomb

Force(f_) == IF f_ = f_ THEN f_ ELSE f_

Kinds == {"s", "p"}
LOf(kind_) == IF kind_ = "s" THEN 0 ELSE 1          \* density ~ r^(2l) exp(-alpha r^2)
AlphaSet == {<<1, 10>>, <<1, 2>>, <<1, 1>>, <<2, 1>>, <<3, 1>>, <<7, 3>>, <<20, 1>>, <<50, 1>>}

\* ---- the differential algebra -------------------------------------------------
El(a_, b_) == [a |-> a_, b |-> b_]
EZero == El({}, {})
EAdd(u_, w_) == El(PAdd(u_.a, w_.a), PAdd(u_.b, w_.b))
EScale(c_, u_) == El(PScale(c_, u_.a), PScale(c_, u_.b))
\* d/dr (A erf + B E) = A' erf + (2A + B' - 2 alpha r B) E
DD(al_, u_) == El(PDer(u_.a),
                  PAdd(PAdd(PScale(QI(2), u_.a), PDer(u_.b)),
                       PScale(QMul(QI(-2), al_), PShift(u_.b, 1))))
DD2(al_, u_) == DD(al_, DD(al_, u_))
DD3(al_, u_) == DD(al_, DD2(al_, u_))

\* ---- Gaussian moments from verified antiderivatives ------------------------------
\* F_m with F_m' = r^(2m) E :  F_0 = erf/2,  F_m = -r^(2m-1) E/(2 alpha) + (2m-1)/(2 alpha) F_(m-1)
RECURSIVE Antider(_, _)
Antider(al_, m_) ==
    IF m_ = 0 THEN El(PConst(<<1, 2>>), {})
    ELSE EAdd(El({}, PMono(QDiv(QI(-1), QMul(QI(2), al_)), 2 * m_ - 1)),
              EScale(QDiv(QI(2 * m_ - 1), QMul(QI(2), al_)), Antider(al_, m_ - 1)))
\* int_0^oo r^(2m) E dr = F_m(oo) - F_m(0) = coefficient of erf (B E vanishes at oo; F_m(0) = 0)
Moment(al_, m_) == PCoef(Antider(al_, m_).a, 0)
MaxM == 3
AntiderCorrect(al_) ==
    \A m_ \in 0..MaxM :
        LET f_ == Antider(al_, m_) IN
        /\ DD(al_, f_) = El({}, PMono(QOne, 2 * m_))          \* it IS an antiderivative
        /\ f_.a = PConst(Moment(al_, m_))                      \* erf coefficient constant
        /\ IsOrdinary(f_.b) /\ PCoef(f_.b, 0) = QZero          \* F_m(0) = 0
        /\ QMul(Moment(al_, m_), QPow(al_, m_)) = Moment(QOne, m_)   \* Moment = c_m / alpha^m

\* ---- the documented densities -------------------------------------------------------
\*   s:  (alpha/pi)^(3/2) exp(-alpha r^2)                 = (1/pi) alpha          E
\*   p:  (2/3) alpha^(5/2) pi^(-3/2) r^2 exp(-alpha r^2)  = (1/pi) (2/3) alpha^2 r^2 E
\* rho = (1/pi) * alpha^RhoJ * RhoP0(r) * E   (the harness checks numerically that this is the
\* documented expression, tree RhoDocTree below; TLC cannot see pi).
RhoJ(kind_) == IF kind_ = "s" THEN 1 ELSE 2
RhoP0(kind_) == IF kind_ = "s" THEN PInt(1) ELSE PMono(<<2, 3>>, 2)
RhoPoly(kind_, al_) == PScale(QPow(al_, RhoJ(kind_)), RhoP0(kind_))
\* right-hand side of the equation for U = r V :  -4 pi r rho
Rhs(kind_, al_) == El({}, PScale(QI(-4), PShift(RhoPoly(kind_, al_), 1)))
Poisson(al_, u_, kind_) == DD2(al_, u_) = Rhs(kind_, al_)

\* total charge 4 pi int rho r^2 dr = 4 sum_k c_k Moment((k+2)/2)   (even k only)
RECURSIVE ChargeF(_, _)
ChargeF(s_, al_) == IF s_ = {} THEN QZero
                    ELSE LET t_ == CHOOSE x_ \in s_ : TRUE
                         IN QAdd(QMul(QMul(QI(4), t_[2]), Moment(al_, (t_[1] + 2) \div 2)),
                                 ChargeF(s_ \ {t_}, al_))
Charge(kind_, al_) == ChargeF(RhoPoly(kind_, al_), al_)

\* ---- deriving the potential -------------------------------------------------------------
\* Ansatz U = Q erf + c r E (Q the total charge): the only form with V ~ Q/r at infinity,
\* U(0) = 0 and a Gaussian tail of the density's parity.  TLC solves for c on a lattice.
Lattice == {Q(n_, d_) : n_ \in -12..12, d_ \in {1, 2, 3}}
Ansatz(q_, c_) == El(PConst(q_), PMono(c_, 1))
SolveSet(kind_, al_) == {c_ \in Lattice : Poisson(al_, Ansatz(Charge(kind_, al_), c_), kind_)}
SpecCoef == Force([k_ \in Kinds |-> CHOOSE c_ \in Lattice : c_ \in SolveSet(k_, QOne)])
SpecU(kind_) == Ansatz(Charge(kind_, QOne), SpecCoef[kind_])

\* The formulas the library documents (docstrings of coulomb_gaussian_s / coulomb_gaussian_p),
\* transcribed:  s: erf/r          p: erf/r + (4/3) sqrt(alpha/pi) exp(-alpha r^2)
\* and the constants of the r < 1e-12 branch, in units of sqrt(alpha/pi):  s: 2   p: 10/3
CodeU(kind_) == IF kind_ = "s" THEN El(PInt(1), {}) ELSE El(PInt(1), PMono(<<4, 3>>, 1))
CodeV0(kind_) == IF kind_ = "s" THEN <<2, 1>> ELSE <<10, 3>>

\* behaviour at the origin: U = A erf + B E is regular with U(0) = 0 iff A, B ordinary and
\* B(0) = 0; then V(0) = U'(0) = [coefficient of E in DD(U)](0) * sqrt(alpha/pi)
RegularAtOrigin(u_) == IsOrdinary(u_.a) /\ IsOrdinary(u_.b) /\ PCoef(u_.b, 0) = QZero
V0Coef(al_, u_) == PCoef(DD(al_, u_).b, 0)
\* V is even in r (U'' (0) = 0), so V(r) = V(0) + O(alpha r^2): the constant used below the
\* switch threshold is continuous with the formula.  V2Coef: V(r) = sqrt(alpha/pi)(V0 + V2 r^2 + ..)
EvenAtOrigin(al_, u_) == PCoef(DD2(al_, u_).b, 0) = QZero
V2Coef(al_, u_) == QDiv(PCoef(DD3(al_, u_).b, 0), QI(6))

\* ---- the model: one state per obligation (kind, alpha) ----------------------------------
VARIABLES ck, ca
vars == <<ck, ca>>
Init == ck = "none" /\ ca = QOne
Next == \E k_ \in Kinds, a_ \in AlphaSet : ck' = k_ /\ ca' = a_
Spec == Init /\ [][Next]_vars
On == ck # "none"

\* (1) the derived potential solves the radial Poisson equation of the documented density
SpecSolvesPoisson == On => Poisson(ca, SpecU(ck), ck)
\* (2) it is the only solution of the ansatz on the lattice, for every alpha (so SpecU does not
\*     depend on alpha and the emitted trees are valid for symbolic alpha)
SolutionUnique == On => SolveSet(ck, ca) = {SpecCoef[ck]}
\* (3) r V -> 0 at the origin, V(0) finite, V even
SpecRegular == On => /\ RegularAtOrigin(SpecU(ck))
                     /\ EvenAtOrigin(ca, SpecU(ck))
                     /\ V0Coef(ca, SpecU(ck)) = V0Coef(QOne, SpecU(ck))
\* (4) coefficient of erf/r = total charge = 1 (the documented densities are normalised)
ErfCoefIsCharge == On => SpecU(ck).a = PConst(Charge(ck, ca)) /\ Charge(ck, ca) = QOne
\* (5) moments / antiderivatives
MomentsVerified == On => AntiderCorrect(ca)
\* (6) unnormalised density r^(2l) exp(-alpha r^2) = N * rho with N = 4 pi sqrt(pi/alpha) Moment(l+1):
\*     4 Moment(l+1) RhoPoly = r^(2l)   (exp(-alpha r^2) = sqrt(pi/alpha) E)
UnnormIsMultiple == On => PScale(QMul(QI(4), Moment(ca, LOf(ck) + 1)), RhoPoly(ck, ca)) = PMono(QOne, 2 * LOf(ck))
\* (7) superposition: the equation is linear (same alpha)
Coefs == {-2, -1, 0, 1, 3}
Superposition ==
    On => \A c1_, c2_ \in Coefs :
            DD2(ca, EAdd(EScale(QI(c1_), SpecU("s")), EScale(QI(c2_), SpecU("p"))))
              = EAdd(EScale(QI(c1_), Rhs("s", ca)), EScale(QI(c2_), Rhs("p", ca)))
\* (8) the library's documented formulas against the same equation
CodeSatisfiesPoisson == On => Poisson(ca, CodeU(ck), ck)          \* expected: violated for "p"
CodeSIsSpec == CodeU("s") = SpecU("s")
CodePRefuted == (On /\ ck = "p") => /\ ~Poisson(ca, CodeU("p"), "p")
                                    /\ CodeU("p") # SpecU("p")
\*     ... while the constant of the code's small-r branch IS the limit of the code's formula
CodeBranchContinuous == On => V0Coef(ca, CodeU(ck)) = CodeV0(ck) /\ RegularAtOrigin(CodeU(ck))
\* (9) literal values, for the record
Literal == /\ SpecU("s") = El(PInt(1), {})
           /\ SpecU("p") = El(PInt(1), PMono(<<-2, 3>>, 1))
           /\ V0Coef(QOne, SpecU("s")) = <<2, 1>>
           /\ V0Coef(QOne, SpecU("p")) = <<4, 3>>
           /\ Moment(QOne, 1) = <<1, 4>> /\ Moment(QOne, 2) = <<3, 8>>
\* (10) "the unnormalised variants differ by the documented constant factor": the docstrings give
\*      s: (pi/alpha)^(3/2)          p: 3 pi^(3/2) / (2 alpha^(5/2))
\*      i.e.  DocNormCoef * pi^(3/2) * alpha^-(l + 3/2); the factor DERIVED in (6) is
\*      4 pi sqrt(pi/alpha) Moment(alpha, l+1) = 4 Moment(1, l+1) * pi^(3/2) * alpha^-(l + 3/2)
DocNormCoef(kind_) == IF kind_ = "s" THEN <<1, 1>> ELSE <<3, 2>>
DocNormIsDerived == On => /\ QMul(QI(4), Moment(QOne, LOf(ck) + 1)) = DocNormCoef(ck)
                          /\ QMul(Moment(ca, LOf(ck) + 1), QPow(ca, LOf(ck) + 1)) = Moment(QOne, LOf(ck) + 1)
\* (11) "tend to total charge over r at large r":  r V - Q = Q (erf - 1) + B(r) E with B a polynomial
\*      (no erf-free, E-free remainder), so |r V / Q - 1| <= erfc(x) + |B(r)| E, x = sqrt(alpha) r.
\*      For the derived potentials B(r) = c r with |c| <= 2/3, for the documented ones |c| <= 4/3:
\*      |c| r E = |c| x exp(-x^2) / sqrt(pi).  At x >= FarX = 7: erfc(7) < 5e-23, (4/3) 7 exp(-49)/sqrt(pi)
\*      < 3e-21 and both decrease, i.e. r V = Q to every digit a float can hold - whichever tail
\*      coefficient the implementation uses.  The harness states this as a clause of its own.
FarX == 7
FarFieldForm == On => /\ SpecU(ck).a = PConst(QOne) /\ CodeU(ck).a = PConst(QOne)
                      /\ \A u_ \in {SpecU(ck), CodeU(ck)} :
                            /\ IsOrdinary(u_.b) /\ \A t_ \in u_.b : t_[1] = 1
                            /\ QLe(QAbs(PCoef(u_.b, 1)), <<4, 3>>)
\* non-vacuity: the lattice contains non-solutions and the code's coefficient
NonVacuous == /\ <<4, 3>> \in Lattice /\ <<-2, 3>> \in Lattice /\ QZero \in Lattice
              /\ Cardinality(Lattice) > 40

\* ---- trees for the harness --------------------------------------------------------------
Alpha == V("alpha")
R == V("r")
ETree == Mul(Sqrt(Div(Alpha, Pi)), Exp(Neg(Mul(Alpha, Sq(R)))))
ErfTree == Erf(Mul(Sqrt(Alpha), R))
UTree(u_) == Add(Mul(PExpr(u_.a, "r"), ErfTree), Mul(PExpr(u_.b, "r"), ETree))
VTree(u_) == Div(UTree(u_), R)                                   \* r > 0
V0Tree(u_) == Mul(CQ(V0Coef(QOne, u_)), Sqrt(Div(Alpha, Pi)))   \* r = 0
\* density: algebra form and the documented form
RhoAlgTree(kind_) == Div(Mul(Mul(Pow(Alpha, RhoJ(kind_)), PExpr(RhoP0(kind_), "r")), ETree), Pi)
RhoDocTree(kind_) ==
    IF kind_ = "s" THEN Mul(PowR(Div(Alpha, Pi), C(3, 2)), Exp(Neg(Mul(Alpha, Sq(R)))))
    ELSE Mul(Mul(Mul(C(2, 3), Div(PowR(Alpha, C(5, 2)), PowR(Pi, C(3, 2)))), Sq(R)),
             Exp(Neg(Mul(Alpha, Sq(R)))))
UnnormRhoDocTree(kind_) == Mul(Pow(R, 2 * LOf(kind_)), Exp(Neg(Mul(Alpha, Sq(R)))))
\* N(kind): unnormalised = N * normalised;  N = 4 pi sqrt(pi/alpha) c_(l+1) / alpha^(l+1)
NormTree(kind_) == Mul(Mul(CI(4), Pi),
                       Mul(Sqrt(Div(Pi, Alpha)),
                           Div(CQ(Moment(QOne, LOf(kind_) + 1)), Pow(Alpha, LOf(kind_) + 1))))
\* the constant the docstrings give for the unnormalised variants (clause (10))
DocNormTree(kind_) == Div(Mul(CQ(DocNormCoef(kind_)), PowR(Pi, C(3, 2))), PowR(Alpha, C(2 * LOf(kind_) + 3, 2)))
\* distance of the point (x,y,z) from the centre (X,Y,Z)
DistTree == Sqrt(Add(Add(Sq(Sub(V("x"), V("X"))), Sq(Sub(V("y"), V("Y")))), Sq(Sub(V("z"), V("Z")))))

Trees == [k_ \in Kinds |->
            [Vr |-> VTree(SpecU(k_)), V0 |-> V0Tree(SpecU(k_)),
             CodeV |-> VTree(CodeU(k_)), CodeV0 |-> Mul(CQ(CodeV0(k_)), Sqrt(Div(Alpha, Pi))),
             V2 |-> CQ(V2Coef(QOne, SpecU(k_))),
             RhoAlg |-> RhoAlgTree(k_), RhoDoc |-> RhoDocTree(k_),
             UnnormRhoDoc |-> UnnormRhoDocTree(k_), Norm |-> NormTree(k_),
             DocNorm |-> DocNormTree(k_), VInf |-> CI(0), FarX |-> CI(FarX)]]
Emit == JsonSerialize("coulomb_trees.json", [s |-> Trees["s"], p |-> Trees["p"], dist |-> DistTree])
ASSUME Emit

\* ---- load_atomic_gaussian_params: TLC judges the recorded observations ------------------
Symbol == <<"H", "He", "Li", "Be", "B", "C", "N", "O", "F", "Ne", "Na", "Mg", "Al", "Si", "P",
  "S", "Cl", "Ar", "K", "Ca", "Sc", "Ti", "V", "Cr", "Mn", "Fe", "Co", "Ni", "Cu", "Zn", "Ga",
  "Ge", "As", "Se", "Br", "Kr", "Rb", "Sr", "Y", "Zr", "Nb", "Mo", "Tc", "Ru", "Rh", "Pd", "Ag",
  "Cd", "In", "Sn", "Sb", "Te", "I", "Xe", "Cs", "Ba", "La", "Ce", "Pr", "Nd", "Pm", "Sm", "Eu",
  "Gd", "Tb", "Dy", "Ho", "Er", "Tm", "Yb", "Lu", "Hf", "Ta", "W", "Re", "Os", "Ir", "Pt", "Au",
  "Hg", "Tl", "Pb", "Bi", "Po", "At", "Rn", "Fr", "Ra", "Ac", "Th", "Pa", "U", "Np", "Pu", "Am",
  "Cm", "Bk", "Cf", "Es", "Fm", "Md", "No", "Lr", "Rf", "Db", "Sg", "Bh", "Hs", "Mt", "Ds", "Rg",
  "Cn", "Nh", "Fl", "Mc", "Lv", "Ts", "Og">>
KeySet == {ParamKeys[i_] : i_ \in 1..Len(ParamKeys)}
LenOf(key_) == ParamLen[CHOOSE i_ \in 1..Len(ParamKeys) : ParamKeys[i_] = key_]
\* An observation: [route, canon, z, status, lenc, lena, bad, matches, stable]
\*   route   "symbol" (canon = canonical symbol the argument is a case/whitespace variant of,
\*           "" for a string that is no element symbol) | "number" (z = the integer passed)
\*   status  "ok" | name of the exception class
\*   lenc/lena lengths of the returned arrays, bad = number of exponents or coefficients that are
\*           not finite and > 0, matches = key whose JSON arrays equal the returned ones, stable =
\*           1 iff a second call returned equal arrays and editing the first result did not leak
CanonOf(o_) == IF o_.route = "number"
               THEN (IF o_.z \in 1..Len(Symbol) THEN Symbol[o_.z] ELSE "")
               ELSE o_.canon
ParamExpected(o_) ==
    LET c_ == CanonOf(o_) IN
    IF c_ \in KeySet
    THEN /\ o_.status = "ok" /\ o_.matches = c_
         /\ o_.lenc = LenOf(c_) /\ o_.lena = LenOf(c_) /\ o_.bad = 0 /\ o_.stable = 1
    ELSE o_.status = "ValueError"
ParamsConform ==
    ck = "none" => \A i_ \in 1..Len(ParamObs) :
                      ParamExpected(ParamObs[i_]) \/ PrintT(<<"MISMATCH", i_, ParamObs[i_], CanonOf(ParamObs[i_])>>)
\* the lazily loaded table is STATE (anchor "lazy parameter cache"): an observation may carry
\*   cold = 1 iff the same lookup made again right after the table was forgotten (first use in a
\*          fresh process) gave the same outcome - the same arrays, or the same refusal; -1 = not taken
\*   coldnext = 1 iff a lookup of a fitted element made right after that one (table loaded by a lookup
\*          that may have been refused) returned the arrays of the shipped file; -1 = not taken
ParamColdExpected(o_) == /\ ("cold" \in DOMAIN o_ => o_.cold \in {1, -1})
                         /\ ("coldnext" \in DOMAIN o_ => o_.coldnext \in {1, -1})
ParamsColdConform ==
    ck = "none" => \A i_ \in 1..Len(ParamObs) :
                      ParamColdExpected(ParamObs[i_]) \/ PrintT(<<"COLDMISMATCH", i_, ParamObs[i_], CanonOf(ParamObs[i_])>>)
ParamsTableSane == /\ Len(ParamKeys) >= 1 /\ KeySet \subseteq {Symbol[i_] : i_ \in 1..Len(Symbol)}
                   /\ \A i_ \in 1..Len(ParamKeys) : ParamLen[i_] >= 1
=============================================================================
