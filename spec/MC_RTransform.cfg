\* C03, quick tier: exact identities of the radial transforms on the small lattice
SPECIFICATION Spec
CONSTANT Tier = "quick"
CONSTANT EmitFile = "rtransform_trees.json"
INVARIANT RoundTrip
INVARIANT InverseDeriv1
INVARIANT InverseDeriv2
INVARIANT InverseDeriv3
INVARIANT ForwardFromInverse
INVARIANT DirectionDecided
INVARIANT DerivSign
INVARIANT Monotone
INVARIANT Interior
INVARIANT EndPoints
INVARIANT UseInsideDomain
INVARIANT EmitValues
INVARIANT EmitEnds
