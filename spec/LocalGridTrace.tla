--------------------------- MODULE LocalGridTrace ---------------------------
(***************************************************************************)
(* Trace validation for C10.  traces_c10.json holds a sequence of traces   *)
(* recorded from the implementation; each trace is a sequence of events,   *)
(* the first being "New" (class, actual points, weight tokens).  Every     *)
(* event is replayed through the action of LocalGridSys with the logged    *)
(* arguments, and the logged observation must be the one the specification *)
(* allows.  A rejected trace is reported (trace id, position, clause) and  *)
(* the next trace is started, so every trace gets a verdict.               *)
(***************************************************************************)
EXTENDS LocalGridSys, Json
Traces == JsonDeserialize("traces_c10.json")
VARIABLES tid, l
tvars == <<vars, tid, l>>

Ev == Traces[tid][l]
SeqSet(q_) == {q_[k_] : k_ \in 1..Len(q_)}
InRange(q_, n_) == \A k_ \in 1..Len(q_) : q_[k_] \in 0..n_ - 1

\* ---- conformance clauses; each returns the name of the first failing clause or "ok" ----
QueryClause(e_) ==
    IF e_.exc # "" THEN "raised:" \o e_.exc
    ELSE IF ~InRange(e_.idx, Len(pts)) THEN "index-out-of-range"
    ELSE IF SeqSet(e_.idx) # SeqSet(QueryIdx(e_.c, e_.r)) THEN "wrong-point-set"
    ELSE IF Cardinality(SeqSet(e_.idx)) # Len(e_.idx) THEN "duplicate-point"
    ELSE IF e_.lp # Gather(pts, e_.idx) THEN "points-not-parent-points-at-indices"
    ELSE IF e_.lw # Gather(wts, e_.idx) THEN "weights-not-parent-weights-at-indices"
    ELSE IF e_.lc # e_.c THEN "center-not-recorded"
    ELSE IF e_.typ # "LocalGrid" THEN "not-a-LocalGrid"
    ELSE "ok"
SelOf(e_) == [kind |-> e_.kind, i |-> e_.i, a |-> e_.a, b |-> e_.b, st |-> e_.st, arr |-> e_.arr]
ItemClause(e_) ==
    IF e_.exc # "" THEN "raised:" \o e_.exc
    ELSE IF ~SelAdmissible(SelOf(e_), Len(pts)) THEN "harness-generated-inadmissible-selection"
    ELSE IF e_.rp # Gather(pts, SelIdx(SelOf(e_), Len(pts))) THEN "selected-points"
    ELSE IF e_.rw # Gather(wts, SelIdx(SelOf(e_), Len(pts))) THEN "selected-weights"
    ELSE IF ~e_.sametype THEN "result-type-differs"
    ELSE IF ~e_.sameextra THEN "domain-or-lattice-not-kept"
    ELSE "ok"
SetClause(e_) == IF e_.exc # "" THEN "raised:" \o e_.exc ELSE "ok"
\* a rejected call must raise ValueError and leave the observable state as the specification has it
RejectClause(e_) ==
    IF e_.kind \notin RejectKinds THEN "unknown-reject-kind"
    ELSE IF e_.exc = "" THEN "bad-argument-accepted"
    ELSE IF e_.exc # "ValueError" THEN "raised:" \o e_.exc
    ELSE IF e_.ptsafter # pts THEN "points-changed-by-rejected-call"
    ELSE IF e_.wtsafter # wts THEN "weights-changed-by-rejected-call"
    ELSE "ok"
Clause(e_) ==
    CASE e_.ev = "Query" -> QueryClause(e_)
      [] e_.ev = "GetItem" -> ItemClause(e_)
      [] e_.ev \in {"SetPoints", "SetWeights"} -> SetClause(e_)
      [] e_.ev = "Reject" -> RejectClause(e_)
      [] OTHER -> "unknown-event"

Apply(e_) ==
    CASE e_.ev = "Query" -> Query(e_.c, e_.r)
      [] e_.ev = "GetItem" -> GetItem(SelOf(e_))
      [] e_.ev = "SetPoints" -> SetPoints(e_.pts)
      [] e_.ev = "SetWeights" -> SetWeights(e_.wts)
      [] e_.ev = "Reject" -> Reject(e_.kind)

StartTrace(t_) ==
    /\ tid' = t_ /\ l' = 2
    /\ IF t_ <= Len(Traces)
         THEN /\ pts' = Traces[t_][1].pts /\ wts' = Traces[t_][1].wts
         ELSE /\ pts' = <<>> /\ wts' = <<>>
    /\ tree' = None /\ obs' = NoObs

TInit == /\ tid = 1 /\ l = 2
         /\ pts = Traces[1][1].pts /\ wts = Traces[1][1].wts /\ tree = None /\ obs = NoObs

TNext ==
    /\ tid <= Len(Traces)
    /\ IF l > Len(Traces[tid])
         THEN PrintT(<<"ACCEPT", tid>>) /\ StartTrace(tid + 1)
         ELSE IF Clause(Ev) = "ok"
                THEN Apply(Ev) /\ l' = l + 1 /\ tid' = tid
                ELSE PrintT(<<"REJECT", tid, l, Ev.ev, Clause(Ev)>>) /\ StartTrace(tid + 1)
TSpec == TInit /\ [][TNext]_tvars
\* the specification's own invariants are evaluated in every state of every trace as well
=============================================================================
