SPECIFICATION Spec
CONSTANTS
    NSeq <- ThoroughN
    AlphaSeq <- ThoroughAlpha
    StepSeq <- ThoroughStep
    DSeq <- AllD
    RhoSeq <- ThoroughRho
    BaseSeq <- ThoroughBase
    MaxExactN = 25
    MaxChebN = 128
    FamilyDeg = 5
    OutFile = "oned_emitted.json"
INVARIANT RationalExact
INVARIANT SeriesRuleExact
INVARIANT SeriesTight
INVARIANT ChebyshevGaussExact
INVARIANT WellFormedRational
INVARIANT WellFormedAngle
INVARIANT WellFormedSubst
INVARIANT CaseAdmissible
INVARIANT FamiliesOrthogonal
INVARIANT SausageLaws
INVARIANT Emission
