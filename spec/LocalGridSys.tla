---------------------------- MODULE LocalGridSys ----------------------------
(***************************************************************************)
(* State machine of ONE grid object as far as local grids and selection    *)
(* are concerned (property C10).                                            *)
(*                                                                          *)
(* State that survives a call:  the current points and weights, and the     *)
(* lazily built neighbour tree, which remembers the points it was built     *)
(* from.  Points are integer vectors; a radius is given as R = 2 r^2        *)
(* (R odd => no lattice point lies on the sphere, R = 0 is the exact        *)
(* radius 0) or R = Inf.  Weights are opaque integer tokens.                *)
(*                                                                          *)
(* One action per public entry point:                                       *)
(*   Query(c, R)      grid.get_localgrid(center, radius)                    *)
(*   SetPoints(P)     grid.points = P     (classes with a points setter)    *)
(*   SetWeights(W)    grid.weights = W                                      *)
(*   GetItem(sel)     grid[sel]           (classes that support selection)  *)
(*                                                                          *)
(* InvalidateOnSet = TRUE is the design the property demands (a points      *)
(* reassignment discards the tree).  FALSE models the library before the    *)
(* repair (tree kept): TLC refutes QueryCorrect on it in three steps; that  *)
(* instance exists only to show the specification can see the defect.       *)
(***************************************************************************)
EXTENDS Integers, Sequences, FiniteSets, TLC, LocalGridBase

CONSTANTS PAlts,            \* set of alternative point sequences (same length, same dimension)
          WAlts,            \* set of alternative weight-token sequences
          Centers,          \* set of query centres
          Radii,            \* set of radii R (R = 2 r^2, or Inf)
          Sels,             \* set of selections for GetItem
          InvalidateOnSet,  \* BOOLEAN
          CanSetPoints      \* BOOLEAN (AtomGrid has no points setter)

Min2(a_, b_) == IF a_ <= b_ THEN a_ ELSE b_
Max2(a_, b_) == IF a_ >= b_ THEN a_ ELSE b_
RECURSIVE SumSq(_, _, _)
SumSq(p_, c_, i_) == IF i_ > Len(p_) THEN 0
                     ELSE (p_[i_] - c_[i_]) * (p_[i_] - c_[i_]) + SumSq(p_, c_, i_ + 1)
Dist2(p_, c_) == SumSq(p_, c_, 1)
InBall(p_, c_, r_) == r_ = Inf \/ 2 * Dist2(p_, c_) <= r_

\* ---- declarative content of a local grid -------------------------------------------
\* indices (0-based, as the library reports them) of the points of P inside the ball
BallSet(pp_, c_, r_) == {i_ - 1 : i_ \in {j_ \in 1..Len(pp_) : InBall(pp_[j_], c_, r_)}}
\* ascending enumeration of a finite set of integers
RECURSIVE SetToSortedSeq(_)
SetToSortedSeq(s_) == IF s_ = {} THEN <<>>
                      ELSE LET mn == CHOOSE x_ \in s_ : \A y_ \in s_ : x_ <= y_
                           IN <<mn>> \o SetToSortedSeq(s_ \ {mn})
Gather(seq_, idx_) == [k_ \in 1..Len(idx_) |-> seq_[idx_[k_] + 1]]

\* ---- declarative content of a selection (Python/NumPy indexing semantics) -----------
\* sel is a record [kind, i, a, b, st, arr]:
\*   kind "int"/"npint": i (may be negative)      kind "slice": a, b, st (NoneV = None)
\*   kind "array": arr = sequence of ints          kind "mask": arr = sequence of 0/1
Norm(i_, n_) == IF i_ < 0 THEN i_ + n_ ELSE i_
Clamp(v_, n_, lo_, up_) == IF v_ < 0 THEN Max2(v_ + n_, lo_) ELSE Min2(v_, up_)
RECURSIVE Range(_, _, _)
Range(a_, b_, st_) == IF (st_ > 0 /\ a_ >= b_) \/ (st_ < 0 /\ a_ <= b_) THEN <<>>
                      ELSE <<a_>> \o Range(a_ + st_, b_, st_)
SliceIdx(a_, b_, st0_, n_) ==
    LET st == IF st0_ = NoneV THEN 1 ELSE st0_
        lo == IF st > 0 THEN 0 ELSE -1
        up == IF st > 0 THEN n_ ELSE n_ - 1
        aa == IF a_ = NoneV THEN (IF st > 0 THEN lo ELSE up) ELSE Clamp(a_, n_, lo, up)
        bb == IF b_ = NoneV THEN (IF st > 0 THEN up ELSE lo) ELSE Clamp(b_, n_, lo, up)
    IN Range(aa, bb, st)
RECURSIVE MaskIdx(_, _)
MaskIdx(mk_, i_) == IF i_ > Len(mk_) THEN <<>>
                    ELSE (IF mk_[i_] = 1 THEN <<i_ - 1>> ELSE <<>>) \o MaskIdx(mk_, i_ + 1)
SelIdx(sel_, n_) ==
    CASE sel_.kind \in {"int", "npint"} -> <<Norm(sel_.i, n_)>>
      [] sel_.kind = "slice" -> SliceIdx(sel_.a, sel_.b, sel_.st, n_)
      [] sel_.kind = "array" -> [k_ \in 1..Len(sel_.arr) |-> Norm(sel_.arr[k_], n_)]
      [] sel_.kind = "mask"  -> MaskIdx(sel_.arr, 1)
\* Selections that select nothing are left out: the statement promises "the selected points",
\* and a grid type with a domain (OneDGrid) or a cell (PeriodicGrid) cannot be built empty.
SelWellFormed(sel_, n_) ==
    CASE sel_.kind \in {"int", "npint"} -> -n_ <= sel_.i /\ sel_.i < n_
      [] sel_.kind = "slice" -> sel_.st # 0
      [] sel_.kind = "array" -> \A k_ \in 1..Len(sel_.arr) : -n_ <= sel_.arr[k_] /\ sel_.arr[k_] < n_
      [] sel_.kind = "mask"  -> Len(sel_.arr) = n_
SelAdmissible(sel_, n_) == SelWellFormed(sel_, n_) /\ Len(SelIdx(sel_, n_)) > 0

\* ---- the state machine ---------------------------------------------------------------
VARIABLES pts, wts, tree, obs
vars == <<pts, wts, tree, obs>>

NoObs == [kind |-> "none", c |-> <<>>, r |-> 0, idx |-> <<>>, lp |-> <<>>, lw |-> <<>>]

Init == /\ pts \in PAlts /\ wts \in WAlts /\ tree = None /\ obs = NoObs

\* what a query answers in the current state: the tree (built now if absent) selects the
\* indices, the CURRENT arrays are gathered at those indices
TreeAfterQuery(r_) == IF r_ = Inf THEN tree ELSE IF tree = None THEN pts ELSE tree
QueryIdx(c_, r_) == IF r_ = Inf THEN [k_ \in 1..Len(pts) |-> k_ - 1]
                    ELSE SetToSortedSeq(BallSet(TreeAfterQuery(r_), c_, r_))
Query(c_, r_) ==
    /\ tree' = TreeAfterQuery(r_)
    /\ obs' = [kind |-> "query", c |-> c_, r |-> r_, idx |-> QueryIdx(c_, r_),
               lp |-> Gather(pts, QueryIdx(c_, r_)), lw |-> Gather(wts, QueryIdx(c_, r_))]
    /\ UNCHANGED <<pts, wts>>

SetPoints(pp_) ==
    /\ CanSetPoints
    /\ pts' = pp_
    /\ tree' = IF InvalidateOnSet THEN None ELSE tree
    /\ obs' = NoObs
    /\ UNCHANGED wts

SetWeights(ww_) ==
    /\ wts' = ww_ /\ obs' = NoObs /\ UNCHANGED <<pts, tree>>

GetItem(sel_) ==
    /\ SelAdmissible(sel_, Len(pts))
    /\ LET ix == SelIdx(sel_, Len(pts)) IN
       obs' = [kind |-> "item", c |-> <<>>, r |-> 0, idx |-> ix,
               lp |-> Gather(pts, ix), lw |-> Gather(wts, ix)]
    /\ UNCHANGED <<pts, wts, tree>>

\* Rejected calls (documented argument errors) are atomic: they raise and leave points, weights
\* and the neighbour tree exactly as they were.
\*   "neg-radius"  get_localgrid(c, -1.0)        "nan-radius"   get_localgrid(c, nan)
\*   "bad-center"  centre of the wrong shape     "bad-points"   points assignment of the wrong shape
\*   "bad-weights" weights assignment of the wrong shape
RejectKinds == {"neg-radius", "nan-radius", "bad-center", "bad-points", "bad-weights"}
Reject(kind_) ==
    /\ kind_ \in RejectKinds
    /\ obs' = [NoObs EXCEPT !.kind = "rejected"]
    /\ UNCHANGED <<pts, wts, tree>>

Next == \/ \E c_ \in Centers, r_ \in Radii : Query(c_, r_)
        \/ \E k_ \in RejectKinds : Reject(k_)
        \/ \E pp_ \in PAlts : SetPoints(pp_)
        \/ \E ww_ \in WAlts : SetWeights(ww_)
        \/ \E s_ \in Sels : GetItem(s_)

Spec == Init /\ [][Next]_vars

\* ---- properties (C10) ------------------------------------------------------------------
\* what the statement demands of the LAST query, in terms of the CURRENT points and weights
QueryCorrect ==
    obs.kind = "query" =>
        /\ {obs.idx[k_] : k_ \in 1..Len(obs.idx)} = BallSet(pts, obs.c, obs.r)   \* exactly those points
        /\ Cardinality({obs.idx[k_] : k_ \in 1..Len(obs.idx)}) = Len(obs.idx)    \* each once
        /\ obs.lp = Gather(pts, obs.idx)                                        \* index maps back
        /\ obs.lw = Gather(wts, obs.idx)                                        \* parent's weights
InfIsWholeGrid == obs.kind = "query" /\ obs.r = Inf => obs.lp = pts /\ obs.lw = wts
TreeFresh == tree # None => tree = pts
ItemCorrect ==
    obs.kind = "item" => /\ Len(obs.lp) = Len(obs.idx) /\ Len(obs.lw) = Len(obs.idx)
                         /\ \A k_ \in 1..Len(obs.idx) : obs.idx[k_] \in 0..Len(pts) - 1
\* a rejected call changes nothing (action property)
RejectIsAtomic == [][obs'.kind = "rejected" => pts' = pts /\ wts' = wts /\ tree' = tree]_vars
\* non-vacuity witnesses (negated in the .cfg of the witness run: TLC must find them)
WitnessEmptyBall == ~(obs.kind = "query" /\ obs.r # Inf /\ Len(obs.idx) = 0)
WitnessReuseAfterSet == ~(obs.kind = "query" /\ tree # None /\ Len(obs.idx) > 0 /\ Len(obs.idx) < Len(pts))
=============================================================================
