------------------------------ MODULE RTransform ------------------------------
(***************************************************************************)
(* Radial transforms (property C03) and the transformation of a 1D         *)
(* quadrature grid (property C04).                                         *)
(*                                                                         *)
(* WHAT IS WRITTEN HERE, per transform class (DESIGN.md Appendix H): the   *)
(* forward map F as an expression tree in "x" and the parameters, the      *)
(* inverse map G as a tree in "r", the domain, the codomain, the reference *)
(* end points, the admissibility conditions.  NOTHING ELSE: the three      *)
(* derivatives are D(F), D(D(F)), D(D(D(F))); the derivatives of the       *)
(* inverse are D(G), ... (NOT the inverse-function-theorem formulas the    *)
(* library uses); the direction of the map is read off the images of the   *)
(* reference end points; the Jacobian weight of a transformed grid is      *)
(* |D(F)|.  InverseRTransform is the role swap F <-> G.                    *)
(*                                                                         *)
(* WHAT TLC DECIDES (exactly, on a rational lattice of parameters/points): *)
(*   G(F(x)) = x,  D(G)(F(x)) * D(F)(x) = 1,  the second and third order   *)
(*   inverse-function identities between D^n(G) and D^n(F), strict         *)
(*   monotonicity in the derived direction, sign of D(F), images of the    *)
(*   reference end points (extended arithmetic with +-infinity, ExprX),    *)
(*   interior points map into the interior of the codomain, and for C04    *)
(*   the complete transformed grid of every rational rule: non-negative    *)
(*   weights, nodes inside the ordered image domain, exactness transport   *)
(*   through the linear map.                                               *)
(* WHAT IS EMITTED for the conformance harness: every derived tree (the    *)
(*   harness evaluates them with vf/expr_eval.py at float points and       *)
(*   parameters), the lattices, the exact values TLC computed at the       *)
(*   lattice points, the exact transformed grids, the Gauss-Legendre       *)
(*   exactness obligations.                                                *)
(*                                                                         *)
(* Exponent parameters (k of Knowles, m of Handy / modified Handy): an     *)
(* instance is a pair (class, ip); ip = 0 keeps the exponent symbolic      *)
(* (real power, V("k") / V("m"); only emitted), ip >= 1 instantiates the   *)
(* integer exponent so that the trees are rational functions (or contain   *)
(* one logarithm / one exact root) and TLC can evaluate them.              *)
(***************************************************************************)
EXTENDS ExprX, TLC, FiniteSets, Json

CONSTANTS Tier,       \* "quick" | "thorough": size of the lattices
          EmitFile    \* "" or the name of the JSON file the derived trees are written to

Force(f_) == IF f_ = f_ THEN f_ ELSE f_     \* makes TLC tabulate a constant function

xE == V("x")
rE == V("r")
One == CI(1)
Two == CI(2)
PRmin == V("rmin")
PRmax == V("rmax")
PR == V("R")
PA == V("a")
PB == V("b")

\* exponent helpers: symbolic (ip = 0) or integer (ip >= 1)
PowP(e_, nm_, ip_)  == IF ip_ = 0 THEN PowR(e_, V(nm_)) ELSE Pow(e_, ip_)
RootP(e_, nm_, ip_) == IF ip_ = 0 THEN PowR(e_, Div(One, V(nm_)))
                       ELSE IF ip_ = 1 THEN e_ ELSE PowR(e_, C(1, ip_))
TwoToP(nm_, ip_)    == IF ip_ = 0 THEN PowR(Two, V(nm_)) ELSE CI(IPow(2, ip_))
TwoToMinusP(nm_, ip_) == IF ip_ = 0 THEN PowR(Two, Neg(V(nm_))) ELSE C(1, IPow(2, ip_))

(***************************************************************************)
(* The catalogue: forward map r = F(x) and inverse map x = G(r).           *)
(***************************************************************************)
SizeR == Sub(PRmax, PRmin)                                       \* rmax - rmin
LogRatio == Log(Div(PRmax, PRmin))                               \* ln(rmax / rmin)
PowerP == Div(LogRatio, Log(Add(PB, One)))                       \* ln(rmax/rmin) / ln(b+1)

Forward(cls_, ip_) ==
    CASE cls_ = "Becke" -> Add(Div(Mul(PR, Add(One, xE)), Sub(One, xE)), PRmin)
      [] cls_ = "LinearFinite" -> Add(Div(Mul(SizeR, Add(One, xE)), Two), PRmin)
      [] cls_ = "Identity" -> xE
      [] cls_ = "LinearInfinite" -> Add(Div(Mul(SizeR, xE), PB), PRmin)
      [] cls_ = "Exp" -> Mul(PRmin, Exp(Div(Mul(xE, LogRatio), PB)))
      [] cls_ = "Power" -> Mul(PRmin, PowR(Add(xE, One), PowerP))
      [] cls_ = "Hyperbolic" -> Div(Mul(PA, xE), Sub(One, Mul(PB, xE)))
      [] cls_ = "MultiExp" -> Add(Neg(Mul(PR, Log(Div(Add(xE, One), Two)))), PRmin)
      [] cls_ = "Knowles" ->
            Sub(PRmin, Mul(PR, Log(Sub(One, Mul(TwoToMinusP("k", ip_), PowP(Add(xE, One), "k", ip_))))))
      [] cls_ = "Handy" -> Add(Mul(PR, PowP(Div(Add(One, xE), Sub(One, xE)), "m", ip_)), PRmin)
      [] cls_ = "HandyMod" ->
            LET q_ == PowP(Add(One, xE), "m", ip_)
                t_ == TwoToP("m", ip_)
            IN Add(Div(Mul(q_, SizeR),
                       Sub(Mul(t_, Add(Sub(One, t_), SizeR)), Mul(q_, Sub(SizeR, t_)))), PRmin)

Inverse(cls_, ip_) ==
    CASE cls_ = "Becke" -> Div(Sub(Sub(rE, PRmin), PR), Add(Sub(rE, PRmin), PR))
      [] cls_ = "LinearFinite" -> Div(Sub(Sub(Mul(Two, rE), PRmax), PRmin), SizeR)
      [] cls_ = "Identity" -> rE
      [] cls_ = "LinearInfinite" -> Div(Mul(Sub(rE, PRmin), PB), SizeR)
      [] cls_ = "Exp" -> Div(Mul(PB, Log(Div(rE, PRmin))), LogRatio)
      [] cls_ = "Power" -> Sub(PowR(Div(rE, PRmin), Div(One, PowerP)), One)
      [] cls_ = "Hyperbolic" -> Div(rE, Add(PA, Mul(PB, rE)))
      [] cls_ = "MultiExp" -> Sub(Mul(Two, Exp(Neg(Div(Sub(rE, PRmin), PR)))), One)
      [] cls_ = "Knowles" ->
            Sub(Mul(Two, RootP(Sub(One, Exp(Neg(Div(Sub(rE, PRmin), PR)))), "k", ip_)), One)
      [] cls_ = "Handy" ->
            LET rho_ == RootP(Div(Sub(rE, PRmin), PR), "m", ip_)
            IN Div(Sub(rho_, One), Add(rho_, One))
      [] cls_ = "HandyMod" ->
            LET t_ == TwoToP("m", ip_)
                u_ == Sub(rE, PRmin)
                w_ == Div(Mul(u_, Add(Sub(SizeR, t_), One)), Add(Mul(u_, Sub(SizeR, t_)), SizeR))
            IN Sub(Mul(Two, RootP(w_, "m", ip_)), One)

(***************************************************************************)
(* Declared data of each class.                                            *)
(*   pnames  real parameters (the exponent parameter is in ename)          *)
(*   dom     declared domain <<lo, hi>>  (trees; PInfE = +infinity)        *)
(*   use     domain of use: where F is defined and monotone (differs from  *)
(*           dom only for Hyperbolic: x < 1/b)                             *)
(*   cod     declared codomain <<lo, hi>>                                  *)
(*   ref     reference end points whose images are the codomain ends       *)
(*   adm     admissibility: every listed tree must be > 0                  *)
(*   trims   the class has the trim_inf switch                             *)
(*   binfer  b may be omitted and is then the largest point of the first   *)
(*           argument (not modelled here; C04 instantiates b = max node)   *)
(***************************************************************************)
MinusOne == CI(-1)
Zero == CI(0)
Decl(cls_, ip_) ==
    CASE cls_ = "Becke" ->
            [pnames |-> <<"rmin", "R">>, ename |-> "", dom |-> <<MinusOne, One>>, use |-> <<MinusOne, One>>,
             cod |-> <<PRmin, PInfE>>, ref |-> <<MinusOne, One>>, adm |-> <<PR>>, trims |-> TRUE, binfer |-> FALSE]
      [] cls_ = "LinearFinite" ->
            [pnames |-> <<"rmin", "rmax">>, ename |-> "", dom |-> <<MinusOne, One>>, use |-> <<MinusOne, One>>,
             cod |-> <<PRmin, PRmax>>, ref |-> <<MinusOne, One>>, adm |-> <<SizeR>>, trims |-> FALSE, binfer |-> FALSE]
      [] cls_ = "Identity" ->
            [pnames |-> <<>>, ename |-> "", dom |-> <<Zero, PInfE>>, use |-> <<Zero, PInfE>>,
             cod |-> <<Zero, PInfE>>, ref |-> <<Zero, PInfE>>, adm |-> <<>>, trims |-> FALSE, binfer |-> FALSE]
      [] cls_ = "LinearInfinite" ->
            [pnames |-> <<"rmin", "rmax", "b">>, ename |-> "", dom |-> <<Zero, PInfE>>, use |-> <<Zero, PInfE>>,
             cod |-> <<PRmin, PRmax>>, ref |-> <<Zero, PB>>, adm |-> <<SizeR, PB>>, trims |-> FALSE, binfer |-> TRUE]
      [] cls_ = "Exp" ->
            [pnames |-> <<"rmin", "rmax", "b">>, ename |-> "", dom |-> <<Zero, PInfE>>, use |-> <<Zero, PInfE>>,
             cod |-> <<PRmin, PRmax>>, ref |-> <<Zero, PB>>, adm |-> <<PRmin, SizeR, PB>>, trims |-> FALSE, binfer |-> TRUE]
      [] cls_ = "Power" ->
            [pnames |-> <<"rmin", "rmax", "b">>, ename |-> "", dom |-> <<Zero, PInfE>>, use |-> <<Zero, PInfE>>,
             cod |-> <<PRmin, PRmax>>, ref |-> <<Zero, PB>>, adm |-> <<PRmin, SizeR, PB>>, trims |-> FALSE, binfer |-> TRUE]
      [] cls_ = "Hyperbolic" ->
            [pnames |-> <<"a", "b">>, ename |-> "", dom |-> <<Zero, PInfE>>, use |-> <<Zero, Div(One, PB)>>,
             cod |-> <<Zero, PInfE>>, ref |-> <<Zero, Div(One, PB)>>, adm |-> <<PA, PB>>, trims |-> FALSE, binfer |-> FALSE]
      [] cls_ = "MultiExp" ->
            [pnames |-> <<"rmin", "R">>, ename |-> "", dom |-> <<MinusOne, One>>, use |-> <<MinusOne, One>>,
             cod |-> <<PRmin, PInfE>>, ref |-> <<MinusOne, One>>, adm |-> <<PR>>, trims |-> TRUE, binfer |-> FALSE]
      [] cls_ = "Knowles" ->
            [pnames |-> <<"rmin", "R">>, ename |-> "k", dom |-> <<MinusOne, One>>, use |-> <<MinusOne, One>>,
             cod |-> <<PRmin, PInfE>>, ref |-> <<MinusOne, One>>,
             adm |-> IF ip_ = 0 THEN <<PR, V("k")>> ELSE <<PR>>, trims |-> TRUE, binfer |-> FALSE]
      [] cls_ = "Handy" ->
            [pnames |-> <<"rmin", "R">>, ename |-> "m", dom |-> <<MinusOne, One>>, use |-> <<MinusOne, One>>,
             cod |-> <<PRmin, PInfE>>, ref |-> <<MinusOne, One>>,
             adm |-> IF ip_ = 0 THEN <<PR, V("m")>> ELSE <<PR>>, trims |-> TRUE, binfer |-> FALSE]
      [] cls_ = "HandyMod" ->
            \* the denominator of F must stay positive on [-1, 1]:  rmax - rmin > 2^m - 1
            [pnames |-> <<"rmin", "rmax">>, ename |-> "m", dom |-> <<MinusOne, One>>, use |-> <<MinusOne, One>>,
             cod |-> <<PRmin, PRmax>>, ref |-> <<MinusOne, One>>,
             adm |-> IF ip_ = 0 THEN <<Sub(SizeR, Sub(TwoToP("m", ip_), One)), V("m")>>
                     ELSE <<Sub(SizeR, Sub(TwoToP("m", ip_), One))>>,
             trims |-> TRUE, binfer |-> FALSE]

(***************************************************************************)
(* Instances and the table of derived trees (computed once by TLC).        *)
(***************************************************************************)
Inst(cls_, ip_) == [cls |-> cls_, ip |-> ip_]
InstSeq ==
    <<Inst("Becke", 0), Inst("LinearFinite", 0), Inst("Identity", 0), Inst("LinearInfinite", 0),
      Inst("Exp", 0), Inst("Power", 0), Inst("Hyperbolic", 0), Inst("MultiExp", 0),
      Inst("Knowles", 0), Inst("Knowles", 1), Inst("Knowles", 2), Inst("Knowles", 3), Inst("Knowles", 4), Inst("Knowles", 5),
      Inst("Handy", 0), Inst("Handy", 1), Inst("Handy", 2), Inst("Handy", 3), Inst("Handy", 4), Inst("Handy", 5), Inst("Handy", 6),
      Inst("HandyMod", 0), Inst("HandyMod", 1), Inst("HandyMod", 2), Inst("HandyMod", 3), Inst("HandyMod", 4),
      Inst("HandyMod", 5), Inst("HandyMod", 6)>>
NInst == Len(InstSeq)

Alt1(p1_) == Div(One, p1_)
Alt2(p1_, p2_) == Neg(Div(p2_, Pow(p1_, 3)))
Alt3(p1_, p2_, p3_) == Div(Sub(Mul(CI(3), Pow(p2_, 2)), Mul(p1_, p3_)), Pow(p1_, 5))
TreesOf(c_) ==
    LET f_ == Forward(c_.cls, c_.ip)
        g_ == Inverse(c_.cls, c_.ip)
        d1_ == D(f_, "x")  d2_ == D(d1_, "x")  d3_ == D(d2_, "x")
        g1_ == D(g_, "r")  g2_ == D(g1_, "r")  g3_ == D(g2_, "r")
    IN [F |-> f_, G |-> g_, d1 |-> d1_, d2 |-> d2_, d3 |-> d3_, g1 |-> g1_, g2 |-> g2_, g3 |-> g3_,
        \* the inverse-function-theorem expressions of D^n(G) in terms of D^n(F) (trees in x, to be
        \* taken at x = G(r)) and of D^n(F) in terms of D^n(G) (trees in r, at r = F(x)): TLC checks
        \* that they equal g1, g2, g3 (InverseDeriv1..3); the harness uses them only to estimate
        \* the rounding error of an implementation that computes the derivatives this way
        a1 |-> Alt1(d1_), a2 |-> Alt2(d1_, d2_), a3 |-> Alt3(d1_, d2_, d3_),
        b1 |-> Alt1(g1_), b2 |-> Alt2(g1_, g2_), b3 |-> Alt3(g1_, g2_, g3_)]
Trees == Force([j_ \in 1..NInst |-> TreesOf(InstSeq[j_])])
Decls == Force([j_ \in 1..NInst |-> Decl(InstSeq[j_].cls, InstSeq[j_].ip)])

\* InverseRTransform(tf): the role swap.  transform = G, inverse = F, deriv = D(G), ...
InverseTrees(t_) == [F |-> Subst(t_.G, "r", xE), G |-> Subst(t_.F, "x", rE),
                     d1 |-> Subst(t_.g1, "r", xE), d2 |-> Subst(t_.g2, "r", xE), d3 |-> Subst(t_.g3, "r", xE),
                     g1 |-> Subst(t_.d1, "x", rE), g2 |-> Subst(t_.d2, "x", rE), g3 |-> Subst(t_.d3, "x", rE),
                     a1 |-> Subst(t_.b1, "r", xE), a2 |-> Subst(t_.b2, "r", xE), a3 |-> Subst(t_.b3, "r", xE),
                     b1 |-> Subst(t_.a1, "x", rE), b2 |-> Subst(t_.a2, "x", rE), b3 |-> Subst(t_.a3, "x", rE)]
InverseDecl(dc_) == [dc_ EXCEPT !.dom = dc_.cod, !.cod = dc_.dom]

(***************************************************************************)
(* Lattices.  Rational parameter sets and interior points per instance.    *)
(* Small numerators and denominators: the larger the numbers, the more    *)
(* identities are left undecided by the 32-bit arithmetic (ExprX: XOvf).   *)
(***************************************************************************)
Thorough == Tier = "thorough"

\* sequence of all records <<n1: s1[i], n2: s2[j]>> etc.
Cross2(n1_, s1_, n2_, s2_) ==
    [i_ \in 1..(Len(s1_) * Len(s2_)) |->
        (n1_ :> s1_[((i_ - 1) \div Len(s2_)) + 1]) @@ (n2_ :> s2_[((i_ - 1) % Len(s2_)) + 1])]

RminSeq == IF Thorough THEN <<Q(0, 1), Q(1, 10), Q(1, 2), Q(1, 1), Q(2, 1)>> ELSE <<Q(0, 1), Q(1, 10), Q(1, 1)>>
RSeq    == IF Thorough THEN <<Q(1, 4), Q(1, 2), Q(1, 1), Q(3, 2), Q(2, 1), Q(7, 3), Q(5, 1), Q(10, 1)>>
           ELSE <<Q(1, 2), Q(3, 2)>>
SizeSeq == IF Thorough THEN <<Q(1, 2), Q(1, 1), Q(3, 1), Q(9, 2), Q(10, 1), Q(20, 1), Q(70, 1), Q(100, 1)>>
           ELSE <<Q(1, 1), Q(20, 1)>>     \* rmax - rmin
\* modified Handy: rmax - rmin > 2^m - 1, some sizes just above the bound for every m <= 6
ModSizeSeq == IF Thorough THEN <<Q(3, 2), Q(2, 1), Q(4, 1), Q(8, 1), Q(10, 1), Q(16, 1), Q(20, 1), Q(32, 1), Q(64, 1), Q(70, 1), Q(100, 1)>>
              ELSE <<Q(2, 1), Q(4, 1), Q(8, 1), Q(20, 1), Q(70, 1)>>
BSeq    == IF Thorough THEN <<Q(1, 2), Q(1, 1), Q(3, 1), Q(9, 1), Q(49, 1)>> ELSE <<Q(1, 1), Q(9, 1)>>

\* (rmin, rmax) pairs built from rmin and the size rmax - rmin
MinMax(rm_, sz_) ==
    [i_ \in 1..(Len(rm_) * Len(sz_)) |->
        LET a_ == rm_[((i_ - 1) \div Len(sz_)) + 1] s_ == sz_[((i_ - 1) % Len(sz_)) + 1]
        IN ("rmin" :> a_) @@ ("rmax" :> QAdd(a_, s_))]
WithB(mm_, bs_) ==
    [i_ \in 1..(Len(mm_) * Len(bs_)) |->
        mm_[((i_ - 1) \div Len(bs_)) + 1] @@ ("b" :> bs_[((i_ - 1) % Len(bs_)) + 1])]

\* Exp / Power: TLC can only evaluate them where the logarithms combine exactly:
\* rmax/rmin and b+1 powers of one base (ExprX reduces ln c to its primitive base)
ExpParams == <<[rmin |-> Q(1, 4), rmax |-> Q(4, 1), b |-> Q(4, 1)],      \* ratio 16 = 2^4, x/b in quarters
               [rmin |-> Q(1, 2), rmax |-> Q(8, 1), b |-> Q(2, 1)],      \* ratio 16
               [rmin |-> Q(1, 9), rmax |-> Q(9, 1), b |-> Q(4, 1)],      \* ratio 81 = 3^4
               [rmin |-> Q(1, 10), rmax |-> Q(32, 5), b |-> Q(3, 1)]>>   \* ratio 64 = 2^6
PowerParams == <<[rmin |-> Q(1, 4), rmax |-> Q(4, 1), b |-> Q(3, 1)],    \* p = ln 16 / ln 4 = 2
                 [rmin |-> Q(1, 2), rmax |-> Q(32, 1), b |-> Q(3, 1)],   \* p = ln 64 / ln 4 = 3
                 [rmin |-> Q(1, 10), rmax |-> Q(4, 5), b |-> Q(3, 1)],   \* p = ln 8 / ln 4 = 3/2
                 [rmin |-> Q(1, 3), rmax |-> Q(27, 1), b |-> Q(8, 1)],   \* p = ln 81 / ln 9 = 2
                 [rmin |-> Q(2, 1), rmax |-> Q(64, 1), b |-> Q(3, 1)]>>  \* p = ln 32 / ln 4 = 5/2

HypParams == IF Thorough THEN Cross2("a", <<Q(1, 2), Q(1, 1), Q(3, 1), Q(10, 1)>>, "b", <<Q(1, 100), Q(1, 20), Q(1, 10), Q(1, 3), Q(1, 1)>>)
             ELSE Cross2("a", <<Q(1, 1), Q(3, 1)>>, "b", <<Q(1, 20), Q(1, 3), Q(1, 1)>>)

EmptyEnv == [n_ \in {} |-> QZero]

ParamsOf(c_) ==
    CASE c_.cls \in {"Becke", "MultiExp", "Knowles", "Handy"} -> Cross2("rmin", RminSeq, "R", RSeq)
      [] c_.cls = "LinearFinite" -> MinMax(RminSeq, SizeSeq)
      [] c_.cls = "HandyMod" -> MinMax(RminSeq, ModSizeSeq)
      [] c_.cls = "Identity" -> <<EmptyEnv>>
      [] c_.cls = "LinearInfinite" -> WithB(MinMax(RminSeq, SizeSeq), BSeq)
      [] c_.cls = "Exp" -> ExpParams
      [] c_.cls = "Power" -> PowerParams
      [] c_.cls = "Hyperbolic" -> HypParams

\* admissible parameter sets only: every tree of adm evaluates to a positive rational
AdmissibleQ(j_, env_) == \A i_ \in 1..Len(Decls[j_].adm) : QSgn(EvalQ(Decls[j_].adm[i_], env_)) > 0
\* TLC evaluates no symbolic exponent; the quick tier stops at exponent 3 (trees are emitted for all)
Evaluable(j_) == (InstSeq[j_].ip > 0 /\ (Thorough \/ InstSeq[j_].ip <= 3)) \/ Decls[j_].ename = ""
ParamLattice == Force([j_ \in 1..NInst |->
                    IF Evaluable(j_) THEN LET T_(e_) == AdmissibleQ(j_, e_) IN SelectSeq(ParamsOf(InstSeq[j_]), T_)
                    ELSE <<>>])

RECURSIVE Merge(_, _)
Merge(s_, t_) ==    \* merge two ascending sequences of rationals without duplicates
    IF s_ = <<>> THEN t_ ELSE IF t_ = <<>> THEN s_
    ELSE IF Head(s_) = Head(t_) THEN <<Head(s_)>> \o Merge(Tail(s_), Tail(t_))
    ELSE IF QLt(Head(s_), Head(t_)) THEN <<Head(s_)>> \o Merge(Tail(s_), t_)
    ELSE <<Head(t_)>> \o Merge(s_, Tail(t_))

\* interior points, ascending.  Unit = [-1, 1]; Half = [0, inf)
UnitPts == IF Thorough THEN [i_ \in 1..33 |-> Q(i_ - 17, 17)] ELSE [i_ \in 1..9 |-> Q(i_ - 5, 5)]
\* points with small denominators: more of the order 2 and 3 identities stay within 32 bits
UnitSmall == IF Thorough THEN <<Q(-3, 4), Q(-2, 3), Q(-1, 2), Q(-1, 3), Q(-1, 4), Q(0, 1), Q(1, 4), Q(1, 3), Q(1, 2), Q(2, 3), Q(3, 4)>>
             ELSE <<Q(-1, 2), Q(-1, 3), Q(0, 1), Q(1, 3), Q(1, 2), Q(3, 4)>>
HalfPts == IF Thorough THEN <<Q(1, 10), Q(1, 4), Q(1, 3), Q(1, 2), Q(2, 3), Q(1, 1), Q(5, 4), Q(3, 2), Q(2, 1), Q(5, 2), Q(3, 1),
                              Q(4, 1), Q(5, 1), Q(6, 1), Q(8, 1), Q(9, 1), Q(12, 1), Q(20, 1), Q(48, 1), Q(100, 1)>>
           ELSE <<Q(1, 4), Q(1, 2), Q(1, 1), Q(3, 2), Q(2, 1), Q(3, 1), Q(4, 1), Q(8, 1), Q(9, 1)>>
\* x + 1 a perfect square (Power with half-integer exponent) and x/b in quarters (Exp)
SquarePts == <<Q(5, 4), Q(3, 1), Q(8, 1), Q(15, 1)>>
QuarterPts == <<Q(1, 1), Q(2, 1), Q(3, 1), Q(4, 1), Q(6, 1), Q(8, 1)>>

PointsOf(c_, env_) ==
    CASE c_.cls \in {"Becke", "LinearFinite", "MultiExp", "Knowles", "Handy", "HandyMod"} -> Merge(UnitPts, UnitSmall)
      [] c_.cls \in {"Identity", "LinearInfinite"} -> HalfPts
      [] c_.cls = "Exp" -> QuarterPts
      [] c_.cls = "Power" -> SquarePts
      [] c_.cls = "Hyperbolic" -> [i_ \in 1..9 |-> QDiv(Q(i_, 10), env_["b"])]   \* x = (i/10) / b < 1/b
PointLattice == Force([j_ \in 1..NInst |-> [p_ \in 1..Len(ParamLattice[j_]) |-> PointsOf(InstSeq[j_], ParamLattice[j_][p_])]])

(***************************************************************************)
(* Exact evaluation helpers.                                               *)
(***************************************************************************)
WithVar(env_, nm_, val_) == [n_ \in (DOMAIN env_) \cup {nm_} |-> IF n_ = nm_ THEN val_ ELSE env_[n_]]
\* value of tree e_ at x = xv_ (an X-value) under the rational parameter set env_
AtX(e_, env_, xv_) == EvalX(e_, WithVar(XEnv(env_), "x", xv_))
AtR(e_, env_, rv_) == EvalX(e_, WithVar(XEnv(env_), "r", rv_))
EndVal(e_, env_) == EvalX(e_, XEnv(env_))        \* a domain / codomain end (parameters only)

\* direction of the map, derived from the images of the reference end points
RefImages(j_, env_) == <<AtX(Trees[j_].F, env_, EndVal(Decls[j_].ref[1], env_)),
                         AtX(Trees[j_].F, env_, EndVal(Decls[j_].ref[2], env_))>>
\* 1 increasing, -1 decreasing, 0 undecided
Direction(j_, env_) == LET c_ == XCmp(RefImages(j_, env_)[1], RefImages(j_, env_)[2])
                       IN IF c_ = -1 THEN 1 ELSE IF c_ = 1 THEN -1 ELSE 0

(***************************************************************************)
(* C03 model: one state per (instance, parameter set, lattice point).      *)
(***************************************************************************)
VARIABLES phase, cinst, cpar, cpt, crule,
          cval,     \* C03 only: the exact values at the current lattice point (computed once per state)
          cgrid     \* C04 only: the transformed grid of the current state (computed once per state)
vars == <<phase, cinst, cpar, cpt, crule, cval, cgrid>>

Init == phase = "idle" /\ cinst = 0 /\ cpar = 0 /\ cpt = 0 /\ crule = 0 /\ cval = <<>> /\ cgrid = <<>>

\* Exp: the derivatives carry the factor ln(rmax/rmin), whose reciprocal is not an X-value;
\* only the zeroth-order clauses are evaluated by TLC for that class.
FirstOrder(j_) == InstSeq[j_].cls # "Exp"
\* all exact values the invariants talk about, at lattice point q_ of parameter set p_ of instance j_
ValuesAt(j_, p_, q_) ==
    LET e_ == ParamLattice[j_][p_]
        pts_ == PointLattice[j_][p_]
        x_ == XQ(pts_[q_])
        t_ == Trees[j_]
        fx_ == AtX(t_.F, e_, x_)
        nx_ == IF q_ < Len(pts_) THEN AtX(t_.F, e_, XQ(pts_[q_ + 1])) ELSE XOvf
    IN IF FirstOrder(j_)
       THEN [fx |-> fx_, nxt |-> nx_, gf |-> AtR(t_.G, e_, fx_),
             d1 |-> AtX(t_.d1, e_, x_), d2 |-> AtX(t_.d2, e_, x_), d3 |-> AtX(t_.d3, e_, x_),
             g1 |-> AtR(t_.g1, e_, fx_), g2 |-> AtR(t_.g2, e_, fx_), g3 |-> AtR(t_.g3, e_, fx_),
             a1 |-> AtX(t_.a1, e_, x_), a2 |-> AtX(t_.a2, e_, x_), a3 |-> AtX(t_.a3, e_, x_),
             b1 |-> AtR(t_.b1, e_, fx_), b2 |-> AtR(t_.b2, e_, fx_), b3 |-> AtR(t_.b3, e_, fx_)]
       ELSE [fx |-> fx_, nxt |-> nx_, gf |-> AtR(t_.G, e_, fx_),
             d1 |-> XOvf, d2 |-> XOvf, d3 |-> XOvf, g1 |-> XOvf, g2 |-> XOvf, g3 |-> XOvf,
             a1 |-> XOvf, a2 |-> XOvf, a3 |-> XOvf, b1 |-> XOvf, b2 |-> XOvf, b3 |-> XOvf]

PickBlock ==
    /\ phase = "idle"
    /\ \E j_ \in 1..NInst : \E p_ \in 1..Len(ParamLattice[j_]) : cinst' = j_ /\ cpar' = p_
    /\ phase' = "block" /\ UNCHANGED <<cpt, crule, cval, cgrid>>
PickPoint ==
    /\ phase = "block"
    /\ \E q_ \in 1..Len(PointLattice[cinst][cpar]) : cpt' = q_ /\ cval' = ValuesAt(cinst, cpar, q_)
    /\ phase' = "check" /\ UNCHANGED <<cinst, cpar, crule, cgrid>>
Next == PickBlock \/ PickPoint
Spec == Init /\ [][Next]_vars

CEnv == ParamLattice[cinst][cpar]
CPts == PointLattice[cinst][cpar]
CX == CPts[cpt]
CT == Trees[cinst]
CD == Decls[cinst]
Checking == phase = "check"
FirstOrderOK == FirstOrder(cinst)
Fx == cval.fx
D1x == cval.d1
D2x == cval.d2
D3x == cval.d3
G1x == cval.g1
G2x == cval.g2
G3x == cval.g3

\* Every identity below is "holds, or is undecided within 32 bits" (XEqU / XLtU, see ExprX);
\* EmitValues reports which values were representable, the harness counts them and
\* re-checks ALL of them on the same trees with unbounded integers.

\* the inverse undoes the forward map
RoundTrip == Checking => XEqU(cval.gf, XQ(CX))
\* D(G)(F(x)) * D(F)(x) = 1
InverseDeriv1 == Checking /\ FirstOrderOK => XEqU(XMul(G1x, D1x), XI(1)) /\ XEqU(G1x, cval.a1)
\* D^2(G)(F(x)) = - D^2(F)(x) / D(F)(x)^3     (tree a2)
InverseDeriv2 == Checking /\ FirstOrderOK => XEqU(G2x, cval.a2)
\* D^3(G)(F(x)) = (3 D^2(F)^2 - D(F) D^3(F)) / D(F)^5     (tree a3)
InverseDeriv3 == Checking /\ FirstOrderOK => XEqU(G3x, cval.a3)
\* and the other way round: D^n(F)(x) from D^n(G) at r = F(x)   (trees b1, b2, b3)
ForwardFromInverse == Checking /\ FirstOrderOK =>
    /\ XEqU(D1x, cval.b1) /\ XEqU(D2x, cval.b2) /\ XEqU(D3x, cval.b3)
\* the direction is decided for every parameter set of the lattice
DirectionDecided == phase = "block" => Direction(cinst, CEnv) # 0
\* sign of the first derivative = direction derived from the reference end points
DerivSign == Checking /\ FirstOrderOK => IsOvf(D1x) \/ XSgn(D1x) = Direction(cinst, CEnv)
\* strictly monotone between consecutive lattice points
Monotone == Checking /\ cpt < Len(CPts) =>
    IF Direction(cinst, CEnv) = 1 THEN XLtU(Fx, cval.nxt) ELSE XLtU(cval.nxt, Fx)
\* lattice points are interior points of the domain of use; between the reference end points
\* the images are interior points of the codomain
Interior == Checking =>
    /\ XLt(EndVal(CD.use[1], CEnv), XQ(CX)) /\ XLt(XQ(CX), EndVal(CD.use[2], CEnv))
    /\ (XLt(EndVal(CD.ref[1], CEnv), XQ(CX)) /\ XLt(XQ(CX), EndVal(CD.ref[2], CEnv))
          => XLtU(EndVal(CD.cod[1], CEnv), Fx) /\ XLtU(Fx, EndVal(CD.cod[2], CEnv)))
\* reference end points go to the codomain end points (in the order given by the direction)
EndPoints == phase = "block" =>
    LET im_ == RefImages(cinst, CEnv)
        lo_ == EndVal(CD.cod[1], CEnv)  hi_ == EndVal(CD.cod[2], CEnv)
    IN IF Direction(cinst, CEnv) = 1 THEN im_ = <<lo_, hi_>> ELSE im_ = <<hi_, lo_>>
\* the use domain is inside the declared domain
UseInsideDomain == phase = "block" =>
    /\ XLe(EndVal(CD.dom[1], CEnv), EndVal(CD.use[1], CEnv))
    /\ XLe(EndVal(CD.use[2], CEnv), EndVal(CD.dom[2], CEnv))

\* exact values at the lattice points and images of the reference end points, for the harness
\* (always TRUE).  Compact encoding of an X-value: <<n, d>> rational, <<>> not representable,
\* <<"pinf">>, <<"ninf">>, <<"log", a, b, c>> for a + b ln c.
Enc(v_) == CASE IsOvf(v_) -> <<>>
             [] IsInf(v_) -> <<v_.t>>
             [] IsRat(v_) -> v_.a
             [] IsFin(v_) /\ ~IsRat(v_) -> <<"log", v_.a, v_.b, v_.c>>
EmitValues == Checking =>
    PrintT(<<"VAL", cinst, cpar, cpt, Enc(Fx),
             IF FirstOrderOK THEN <<Enc(D1x), Enc(D2x), Enc(D3x), Enc(G1x), Enc(G2x), Enc(G3x)>> ELSE <<>>>>)
EmitEnds == phase = "block" =>
    PrintT(<<"END", cinst, cpar, Enc(RefImages(cinst, CEnv)[1]), Enc(RefImages(cinst, CEnv)[2]), Direction(cinst, CEnv)>>)

\* non-vacuity witnesses.  The harness establishes non-vacuity from the END / VAL records of the
\* run itself (a decreasing map, an infinite end-point image, third-order identities decided for
\* maps with roots); the negated forms below are for manual runs: used as INVARIANT, TLC must
\* report each of them violated.
NoDecreasingMap == ~(phase = "block" /\ Direction(cinst, CEnv) = -1)
NoHighOrderRoot == ~(Checking /\ ~IsOvf(G3x) /\ ~IsOvf(D3x) /\ InstSeq[cinst].ip >= 2 /\ InstSeq[cinst].cls = "HandyMod")
NoInfiniteEnd == ~(phase = "block" /\ IsInf(RefImages(cinst, CEnv)[1]))

(***************************************************************************)
(* C04: transformation of a 1D quadrature grid.                            *)
(*                                                                         *)
(* A rule is a finite sequence of nodes and weights on a domain.  The      *)
(* rational rules are DEFINED here (composite Newton-Cotes rules on        *)
(* [-1, 1] from their textbook definitions, the unit-spaced integer rule); *)
(* for any other rule (Gauss-Legendre, ...) the harness takes nodes and    *)
(* weights from the library and applies the same trees.                    *)
(*                                                                         *)
(*   Transform1D(tf, rule):  node_i   = F(x_i)                             *)
(*                           weight_i = w_i * |D(F)(x_i)|                  *)
(*                           domain   = ordered image of the rule's domain *)
(*                                      (cut to the domain of use of tf)   *)
(*   precondition: rule.domain inside tf.domain, nodes inside the domain   *)
(*   of use.  When the b-scaled maps are given without b, b is the largest *)
(*   node of the rule (that is what "taken from the first grid" means).    *)
(***************************************************************************)
Rule(name_, n_) == [name |-> name_, n |-> n_]
RuleNs == IF Thorough THEN <<2, 3, 4, 5, 6, 8, 10, 12, 20, 40>> ELSE <<2, 5, 10>>
OddNs  == IF Thorough THEN <<3, 5, 7, 9, 11, 21, 41>> ELSE <<3, 5, 9>>
RuleSeq == [i_ \in 1..Len(RuleNs) |-> Rule("Trapezoidal", RuleNs[i_])]
           \o [i_ \in 1..Len(RuleNs) |-> Rule("MidPoint", RuleNs[i_])]
           \o [i_ \in 1..Len(OddNs) |-> Rule("Simpson", OddNs[i_])]
           \o [i_ \in 1..Len(RuleNs) |-> Rule("UniformInteger", RuleNs[i_])]

\* composite trapezoid, midpoint and Simpson rules on [-1, 1] with n nodes; integers 0..n-1
RuleNodes(ru_) ==
    CASE ru_.name \in {"Trapezoidal", "Simpson"} -> [i_ \in 1..ru_.n |-> QSub(Q(2 * (i_ - 1), ru_.n - 1), QOne)]
      [] ru_.name = "MidPoint" -> [i_ \in 1..ru_.n |-> QSub(Q(2 * i_ - 1, ru_.n), QOne)]
      [] ru_.name = "UniformInteger" -> [i_ \in 1..ru_.n |-> QI(i_ - 1)]
RuleWeights(ru_) ==
    CASE ru_.name = "Trapezoidal" ->      \* h = 2/(n-1); h/2 at the two ends
            [i_ \in 1..ru_.n |-> IF i_ \in {1, ru_.n} THEN Q(1, ru_.n - 1) ELSE Q(2, ru_.n - 1)]
      [] ru_.name = "MidPoint" -> [i_ \in 1..ru_.n |-> Q(2, ru_.n)]      \* h = 2/n
      [] ru_.name = "Simpson" ->          \* h = 2/(n-1), n odd; h/3 * (1, 4, 2, 4, ..., 2, 4, 1)
            [i_ \in 1..ru_.n |-> QMul(Q(2, 3 * (ru_.n - 1)),
                                      QI(IF i_ \in {1, ru_.n} THEN 1 ELSE IF i_ % 2 = 0 THEN 4 ELSE 2))]
      [] ru_.name = "UniformInteger" -> [i_ \in 1..ru_.n |-> QOne]
RuleDomain(ru_) == IF ru_.name = "UniformInteger" THEN <<Zero, PInfE>> ELSE <<MinusOne, One>>
RuleDegree(ru_) == CASE ru_.name \in {"Trapezoidal", "MidPoint"} -> 1 [] ru_.name = "Simpson" -> 3
                     [] ru_.name = "UniformInteger" -> -1
MaxNode(ru_) == RuleNodes(ru_)[ru_.n]

\* parameter sets of C04: those of C03 plus, for the b-scaled maps, sets WITHOUT b
\* (in the thorough tier every second parameter set of the large C03 lattice: the grids multiply
\* the work by the number of rules and nodes)
Thin(s_) == IF Thorough THEN [i_ \in 1..((Len(s_) + 1) \div 2) |-> s_[2 * i_ - 1]] ELSE s_
ParamLattice4 == Force([j_ \in 1..NInst |->
    IF Decls[j_].binfer /\ InstSeq[j_].cls = "LinearInfinite" THEN Thin(ParamLattice[j_]) \o Thin(MinMax(RminSeq, SizeSeq))
    ELSE IF InstSeq[j_].cls = "Exp"
         THEN ParamLattice[j_] \o <<[rmin |-> Q(1, 4), rmax |-> Q(4, 1)], [rmin |-> Q(1, 9), rmax |-> Q(9, 1)]>>
    ELSE IF InstSeq[j_].cls = "Power"
         THEN ParamLattice[j_] \o <<[rmin |-> Q(1, 4), rmax |-> Q(4, 1)], [rmin |-> Q(1, 5), rmax |-> Q(125, 1)]>>
    ELSE IF InstSeq[j_].cls \in {"Hyperbolic", "Identity"} THEN ParamLattice[j_]
    ELSE Thin(ParamLattice[j_])])
EffEnv(j_, env_, ru_) == IF Decls[j_].binfer /\ "b" \notin DOMAIN env_ THEN env_ @@ ("b" :> MaxNode(ru_)) ELSE env_

\* precondition of Transform1D
Compatible(j_, env_, ru_) ==
    LET e_ == EffEnv(j_, env_, ru_) IN
    /\ XLe(EndVal(Decls[j_].dom[1], e_), EndVal(RuleDomain(ru_)[1], e_))
    /\ XLe(EndVal(RuleDomain(ru_)[2], e_), EndVal(Decls[j_].dom[2], e_))
    /\ \A i_ \in 1..ru_.n : /\ XLe(EndVal(Decls[j_].use[1], e_), XQ(RuleNodes(ru_)[i_]))
                             /\ XLe(XQ(RuleNodes(ru_)[i_]), EndVal(Decls[j_].use[2], e_))
    \* the upper end of the use domain of Hyperbolic is a pole, not a node
    /\ (InstSeq[j_].cls = "Hyperbolic" => XLt(XQ(MaxNode(ru_)), EndVal(Decls[j_].use[2], e_)))
    /\ (Decls[j_].binfer => QSgn(e_["b"]) > 0)

XMin(u_, v_) == IF XLe(u_, v_) THEN u_ ELSE v_
XMax(u_, v_) == IF XLe(u_, v_) THEN v_ ELSE u_
\* the transformed grid (exact; singular end nodes give infinite nodes / weights)
Transform1D(j_, env_, ru_) ==
    LET e_ == EffEnv(j_, env_, ru_)
        xs_ == RuleNodes(ru_)
        ws_ == RuleWeights(ru_)
        lo_ == XMax(EndVal(RuleDomain(ru_)[1], e_), EndVal(Decls[j_].use[1], e_))
        hi_ == XMin(EndVal(RuleDomain(ru_)[2], e_), EndVal(Decls[j_].use[2], e_))
        a_ == AtX(Trees[j_].F, e_, lo_)
        b_ == AtX(Trees[j_].F, e_, hi_)
    IN [nodes |-> [i_ \in 1..ru_.n |-> AtX(Trees[j_].F, e_, XQ(xs_[i_]))],
        jac |-> [i_ \in 1..ru_.n |-> AtX(Trees[j_].d1, e_, XQ(xs_[i_]))],
        weights |-> [i_ \in 1..ru_.n |-> XMul(XQ(ws_[i_]), XAbs(AtX(Trees[j_].d1, e_, XQ(xs_[i_]))))],
        domain |-> IF XLe(a_, b_) THEN <<a_, b_>> ELSE <<b_, a_>>]

PickBlock4 ==
    /\ phase = "idle"
    /\ \E j_ \in 1..NInst : \E p_ \in 1..Len(ParamLattice4[j_]) : cinst' = j_ /\ cpar' = p_
    /\ phase' = "block" /\ UNCHANGED <<cpt, crule, cval, cgrid>>
PickRule ==
    /\ phase = "block"
    /\ \E q_ \in 1..Len(RuleSeq) :
          /\ Compatible(cinst, ParamLattice4[cinst][cpar], RuleSeq[q_])
          /\ crule' = q_
          /\ cgrid' = Transform1D(cinst, ParamLattice4[cinst][cpar], RuleSeq[q_])
    /\ phase' = "grid" /\ UNCHANGED <<cinst, cpar, cpt, cval>>
Next4 == PickBlock4 \/ PickRule
Spec4 == Init /\ [][Next4]_vars

Gridding == phase = "grid"
CRule == RuleSeq[crule]
CEnv4 == EffEnv(cinst, ParamLattice4[cinst][cpar], CRule)
CGrid == cgrid
Idx == 1..CRule.n
NotExp == InstSeq[cinst].cls # "Exp"       \* |D(F)| of Exp is a logarithm value: sign yes, reciprocal no

\* the rules themselves: exact on the monomials up to their degree (base of the transport)
\* (checked arithmetic: a sum that leaves 32 bits is undecided, see ExprX)
QSumF(f_, n_) == LET RECURSIVE S_(_) S_(i_) == IF i_ > n_ THEN QZero ELSE QAddS(f_[i_], S_(i_ + 1)) IN S_(1)
BaseRuleExact == Gridding =>
    \A k_ \in 0..RuleDegree(CRule) :
        LET s_ == QSumF([i_ \in Idx |-> QMulS(RuleWeights(CRule)[i_], QPowS(RuleNodes(CRule)[i_], k_))], CRule.n)
        IN QBad(s_) \/ s_ = (IF k_ % 2 = 0 THEN Q(2, k_ + 1) ELSE QZero)
\* non-negative weights stay non-negative (also for a decreasing map)
WeightsNonNegative == Gridding => \A i_ \in Idx : IsOvf(CGrid.weights[i_]) \/ XSgn(CGrid.weights[i_]) >= 0
\* the new domain is ordered and contains every new node
DomainOrdered == Gridding => XCmp(CGrid.domain[1], CGrid.domain[2]) \in {-1, 9}
NodesInDomain == Gridding => \A i_ \in Idx :
    /\ XCmp(CGrid.domain[1], CGrid.nodes[i_]) \in {-1, 0, 9}
    /\ XCmp(CGrid.nodes[i_], CGrid.domain[2]) \in {-1, 0, 9}
\* the new domain is the image of the codomain part that the rule covers: for the rules on the
\* full reference interval it is the codomain itself
DomainIsCodomain == Gridding /\ ~Decls[cinst].binfer =>
    CGrid.domain = <<EndVal(Decls[cinst].cod[1], CEnv4), EndVal(Decls[cinst].cod[2], CEnv4)>>
\* b taken from the grid: the last node is sent to rmax
InferredBHitsRmax == Gridding /\ Decls[cinst].binfer /\ "b" \notin DOMAIN ParamLattice4[cinst][cpar] =>
    XEqU(CGrid.nodes[CRule.n], XQ(CEnv4["rmax"]))
\* for a decreasing map the signed products w_i * D(F)(x_i) are negative: the absolute value is
\* what keeps the weights non-negative
SignedWeightsFollowDirection == Gridding /\ NotExp => \A i_ \in Idx :
    IsOvf(CGrid.jac[i_]) \/ XSgn(CGrid.jac[i_]) = 0 \/ XSgn(CGrid.jac[i_]) = Direction(cinst, CEnv4)
\* transforming back with the inverse map (role swap) returns the rule: nodes G(F(x_i)) = x_i,
\* weights w_i |D(F)(x_i)| |D(G)(F(x_i))| = w_i   (nodes with a finite, non-zero Jacobian only)
GridRoundTrip == Gridding /\ NotExp => \A i_ \in Idx :
    IsInf(CGrid.nodes[i_]) \/ IsInf(CGrid.weights[i_]) \/ CGrid.weights[i_] = XI(0) \/
    /\ XEqU(AtR(Trees[cinst].G, CEnv4, CGrid.nodes[i_]), XQ(RuleNodes(CRule)[i_]))
    /\ XEqU(XMul(CGrid.weights[i_], XAbs(AtR(Trees[cinst].g1, CEnv4, CGrid.nodes[i_]))), XQ(RuleWeights(CRule)[i_]))
\* exactness is transported by the linear map: sum w'_i r_i^k = (rmax^(k+1) - rmin^(k+1)) / (k+1)
XSumF(f_, n_) == LET RECURSIVE S_(_) S_(i_) == IF i_ > n_ THEN XI(0) ELSE XAdd(f_[i_], S_(i_ + 1)) IN S_(1)
MomentTree(k_) == Div(Sub(Pow(PRmax, k_ + 1), Pow(PRmin, k_ + 1)), CI(k_ + 1))
ExactnessTransport == Gridding /\ InstSeq[cinst].cls = "LinearFinite" =>
    \A k_ \in 0..RuleDegree(CRule) :
        XEqU(XSumF([i_ \in Idx |-> XMul(CGrid.weights[i_], XPowI(CGrid.nodes[i_], k_))], CRule.n),
             EndVal(MomentTree(k_), CEnv4))
\* the exact grid, for the harness (always TRUE)
EmitGrid == Gridding =>
    PrintT(<<"GRID", cinst, cpar, crule, [i_ \in Idx |-> Enc(CGrid.nodes[i_])], [i_ \in Idx |-> Enc(CGrid.weights[i_])],
             <<Enc(CGrid.domain[1]), Enc(CGrid.domain[2])>>, Direction(cinst, CEnv4)>>)

\* non-vacuity witnesses for C04 (established by the harness from the GRID records; as INVARIANT
\* each of these must be reported violated)
NoNegativeJacobian == ~(Gridding /\ \E i_ \in Idx : ~IsOvf(CGrid.jac[i_]) /\ XSgn(CGrid.jac[i_]) < 0)
NoInfiniteNode == ~(Gridding /\ \E i_ \in Idx : IsInf(CGrid.nodes[i_]))
NoInferredB == ~(Gridding /\ Decls[cinst].binfer /\ "b" \notin DOMAIN ParamLattice4[cinst][cpar])

\* Gauss-Legendre obligations (discharged by the harness): LinearFinite(rmin, rmax) applied to the
\* n-point Gauss-Legendre rule integrates r^k over [rmin, rmax] exactly for k <= 2n - 1
GLNs == IF Thorough THEN <<2, 3, 4, 5, 6, 8, 10, 12, 16, 20, 30, 40>> ELSE <<2, 5, 10>>
GLObligations == [i_ \in 1..Len(GLNs) |-> [n |-> GLNs[i_], kmax |-> 2 * GLNs[i_] - 1,
                                            moments |-> [k1_ \in 1..(2 * GLNs[i_]) |-> MomentTree(k1_ - 1)]]]
\* the Jacobian weight as a tree in x and w (for rules whose nodes are not rational)
WeightTree(j_) == Mul(V("w"), AbsE(Trees[j_].d1))

(***************************************************************************)
(* Emission of the derived trees and lattices.                             *)
(***************************************************************************)
Emission ==
    [instances |-> [j_ \in 1..NInst |->
        [cls |-> InstSeq[j_].cls, ip |-> InstSeq[j_].ip, trees |-> Trees[j_], decl |-> Decls[j_],
         inv_trees |-> InverseTrees(Trees[j_]), inv_decl |-> InverseDecl(Decls[j_]),
         wtree |-> WeightTree(j_),
         inv_wtree |-> Mul(V("w"), AbsE(InverseTrees(Trees[j_]).d1)),
         params |-> ParamLattice[j_], points |-> PointLattice[j_], params4 |-> ParamLattice4[j_]]],
     rules |-> [q_ \in 1..Len(RuleSeq) |->
        [name |-> RuleSeq[q_].name, n |-> RuleSeq[q_].n, nodes |-> RuleNodes(RuleSeq[q_]),
         weights |-> RuleWeights(RuleSeq[q_]), domain |-> RuleDomain(RuleSeq[q_])]],
     gl |-> GLObligations,
     trim |-> [mant |-> 1, exp10 |-> 16]]

ASSUME EmitFile = "" \/ JsonSerialize(EmitFile, Emission)
=============================================================================
