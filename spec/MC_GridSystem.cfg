INIT ScInit
NEXT BoundedNext
CONSTANTS
  Methods <- MC_Methods
  Scaled <- MC_Scaled
  Degrees <- MC_Degrees
  NCen = 2
  MaxObjs = 3
  NBuf = 20
  Vals <- MC_Vals
  GridSizes <- MC_GridSizes
  QCen <- MC_QCen
  Radii <- MC_Radii
  Sels <- MC_Sels
  FVals <- MC_FVals
  AimVals <- MC_AimVals
  Tab <- MC_Tab
  Shares <- ShippedShares
  Aliasing = "copying"
  Discipline = TRUE
  MaxDepth = 3
  Scenario = 0
CONSTRAINT DepthBound
INVARIANT FreshIsShipped
INVARIANT CacheClean
INVARIANT NoAliasCacheUser
INVARIANT TreeFresh
INVARIANT QueryCorrect
INVARIANT ItemCorrect
INVARIANT OwnershipDiscipline
INVARIANT FreshIsFresh
INVARIANT IntegralCorrect
INVARIANT MolWeightsAtBirth
PROPERTY CacheMonotone
PROPERTY CallerFrame
PROPERTY NoSpookyAction
PROPERTY EditReachesAliases
PROPERTY RejectIsAtomic
INVARIANT CoverInv
