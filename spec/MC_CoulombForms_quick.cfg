SPECIFICATION JSpec
CONSTANT Tier = "quick"
INVARIANT FormsConform
INVARIANT FormsComplete
INVARIANT SysConform
INVARIANT SysComplete
INVARIANT LatticeComplete
