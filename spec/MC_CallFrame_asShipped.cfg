SPECIFICATION Spec
CONSTANTS
  Writes = "asShipped"
  FullMasks = FALSE
INVARIANT FrameObserved
