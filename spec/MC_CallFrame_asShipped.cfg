SPECIFICATION Spec
CONSTANT Writes = "asShipped"
INVARIANT FrameObserved
