---------------------------- MODULE MC_GridSystem ----------------------------
(***************************************************************************)
(* Exhaustive instances of GridSystem over ABSTRACT library data: 2 methods *)
(* x 2 degrees, angular grids of one or two points, two shells, two         *)
(* centres.  (lebedev, 3) has integer-valued points (as the real octahedral *)
(* grid has), the other three are opaque tokens, so that both the geometric *)
(* and the opaque paths of the machine are exercised.                       *)
(***************************************************************************)
EXTENDS GridSystem
CONSTANTS MaxDepth,     \* behaviours of at most this many calls (after the scenario prefix)
          Scenario      \* 0 = empty start; k > 0 = start after the k-th prefix below

MC_Methods == {"lebedev", "maxdet"}
MC_Scaled == {"lebedev"}
MC_Degrees == {3, 5}
MC_Cen == << <<0, 0, 0>>, <<0, 0, 3>> >>
AbsP == (<<"lebedev", 3>> :> << <<1, 0, 0>>, <<0, -1, 0>> >>) @@ (<<"lebedev", 5>> :> << <<BIG + 1>> >>)
        @@ (<<"maxdet", 3>> :> << <<BIG + 2>> >>) @@ (<<"maxdet", 5>> :> << <<BIG + 3>>, <<BIG + 4>> >>)
AbsWraw == (<<"lebedev", 3>> :> <<3, 3>>) @@ (<<"lebedev", 5>> :> <<BIG + 64>>)
           @@ (<<"maxdet", 3>> :> <<BIG + 128>>) @@ (<<"maxdet", 5>> :> <<BIG + 192, BIG + 256>>)
AbsW == [md_ \in MC_Methods \X MC_Degrees |->
            IF md_[1] \in MC_Scaled THEN [k_ \in 1..Len(AbsWraw[md_]) |-> IF AbsWraw[md_][k_] >= BIG THEN AbsWraw[md_][k_] + 2 ELSE 4 * AbsWraw[md_][k_]]
            ELSE AbsWraw[md_]]
ShP(cell_, i_, cen_) == IF cell_[1] >= BIG THEN <<cell_[1] + 100 * i_ + 1000 * cen_[3] + 7>>
                        ELSE <<cell_[1] * i_ + cen_[1], cell_[2] * i_ + cen_[2], cell_[3] * i_ + cen_[3]>>
ShW(w_, i_, rsq_) == IF w_ >= BIG THEN w_ + 6400 * i_ + 640 * rsq_ ELSE w_ * (IF rsq_ = 1 THEN i_ * i_ ELSE 1)
Zero3 == <<0, 0, 0>>
MC_Tab ==
    [nsh |-> 2, cen |-> MC_Cen, angp |-> AbsP, angwraw |-> AbsWraw, angw |-> AbsW,
     atomw |-> [md_ \in MC_Methods \X MC_Degrees |->
                   [k_ \in 1..Len(AbsW[md_]) |-> ShW(AbsW[md_][k_], 1, 1)] \o [k_ \in 1..Len(AbsW[md_]) |-> ShW(AbsW[md_][k_], 2, 1)]],
     atomp |-> [x_ \in MC_Methods \X MC_Degrees \X (1..2) |->
                   LET pp == AbsP[<<x_[1], x_[2]>>]
                   IN [k_ \in 1..Len(pp) |-> ShP(pp[k_], 1, MC_Cen[x_[3]])] \o [k_ \in 1..Len(pp) |-> ShP(pp[k_], 2, MC_Cen[x_[3]])]],
     shellp |-> [x_ \in MC_Methods \X MC_Degrees \X (1..2) |->
                   LET pp == AbsP[<<x_[1], x_[2]>>] IN [k_ \in 1..Len(pp) |-> ShP(pp[k_], x_[3], Zero3)]],
     shellw |-> [x_ \in MC_Methods \X MC_Degrees \X (1..2) \X {0, 1} |->
                   LET ww == AbsW[<<x_[1], x_[2]>>] IN [k_ \in 1..Len(ww) |-> ShW(ww[k_], x_[3], x_[4])]]]

MC_Vals == {1, 2}
MC_Vals1 == {1}
MC_GridSizes == {3}
MC_QCen == {<<0, 0, 0>>, <<1, 1, 0>>}
MC_QCen1 == {<<1, 1, 0>>}
MC_Radii == {3, 9, Inf}
MC_Radii2 == {3, Inf}
MC_Sels == {<<"int", -1>>, <<"slice", 0, 2>>}
MC_Sels1 == {<<"slice", 1, 3>>}
MC_FVals == {1}
Gen_GridSizes == {4, 5}
Gen_QCen == {<<0, 0, 0>>, <<0, 0, 3>>, <<1, 1, 0>>, <<2, 1, 0>>}
Gen_Radii == {3, 9, 19, 33, Inf}
Gen_Sels == {<<"int", -1>>, <<"int", 2>>, <<"slice", 0, 2>>, <<"slice", 1, 4>>}
Gen_FVals == {1, 2}
MC_AimVals == {1, 2}
MC_AimVals1 == {2}

\* ---- scenario starts: the state after a fixed prefix of calls (deep interleavings at small depth) ----
RECURSIVE RunSeq(_, _, _)
RunSeq(s_, acts_, k_) == IF k_ > Len(acts_) THEN [s |-> s_, obs |-> NoObs]
                         ELSE IF k_ = Len(acts_) THEN Do(s_, acts_[k_])
                         ELSE RunSeq(Do(s_, acts_[k_]).s, acts_, k_ + 1)
PrefixOf(sc_) ==
    CASE sc_ = 1 -> << <<"NewAtom", "lebedev", 3, 1>>, <<"NewAtom", "maxdet", 3, 2>>, <<"NewMol", 1, 2, 2, 0>> >>
      [] sc_ = 2 -> << <<"NewAngular", "lebedev", 3, 1>>, <<"NewAtom", "lebedev", 3, 2>>, <<"NewMol", 2, 2, 1, 1>> >>
      [] sc_ = 3 -> << <<"NewGrid", 1, 1, 3>>, <<"Query", 1, <<1, 1, 0>>, Inf, <<0, 1, 2>>>> >>
      [] sc_ = 4 -> << <<"NewGrid", 1, 1, 3>>, <<"Query", 1, <<1, 1, 0>>, 3, <<0, 1, 2>>>> >>
      [] sc_ = 5 -> << <<"NewGrid", 1, 1, 4>>, <<"Query", 1, <<1, 1, 0>>, 3, <<0, 1, 2>>>>, <<"SetPoints", 1, 2>> >>
      [] sc_ = 6 -> << <<"NewAtom", "lebedev", 3, 1>>, <<"NewAtom", "lebedev", 3, 2>>, <<"NewMol", 1, 2, 2, 0>>, <<"GetAtomic", 3, 1>> >>
      [] OTHER -> <<>>
Prefix == PrefixOf(Scenario)
\* The bound on the number of calls is part of the state (TLCGet("level") is not exact when several workers
\* run the breadth-first search: a state first reached by a worker that is ahead gets a deeper level).
VARIABLE calls
ScInit == LET r == RunSeq(S0, Prefix, 1)
          IN heap = r.s.heap /\ cache = r.s.cache /\ objs = r.s.objs /\ obs = r.obs /\ calls = 0
BoundedNext == calls < MaxDepth /\ Next /\ calls' = calls + 1
DepthBound == calls <= MaxDepth /\ TLCGet("level") <= MaxDepth + 1
\* action coverage without -coverage (whose cost model does not terminate on this module): every action name
\* is printed the first time a worker sees a state produced by it
ActNames == <<"NewAngular", "NewGrid", "NewGridFrom", "SetPoints", "SetWeights", "Edit", "Query", "GetItem",
              "NewAtom", "GetShell", "NewMol", "GetAtomic", "MolItem", "Integrate", "Drop", "Reject">>
ASSUME \A k_ \in 1..Len(ActNames) : TLCSet(k_, 0)
CoverInv == \A k_ \in 1..Len(ActNames) :
               obs.act = ActNames[k_] /\ TLCGet(k_) = 0 => TLCSet(k_, 1) /\ PrintT(<<"COVER", ActNames[k_]>>)
=============================================================================
