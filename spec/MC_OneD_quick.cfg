SPECIFICATION Spec
CONSTANTS
    NSeq <- QuickN
    AlphaSeq <- QuickAlpha
    StepSeq <- QuickStep
    DSeq <- AllD
    RhoSeq <- QuickRho
    BaseSeq <- QuickBase
    MaxExactN = 12
    MaxChebN = 12
    FamilyDeg = 4
    OutFile = "oned_emitted.json"
INVARIANT RationalExact
INVARIANT SeriesRuleExact
INVARIANT SeriesTight
INVARIANT ChebyshevGaussExact
INVARIANT WellFormedRational
INVARIANT WellFormedAngle
INVARIANT WellFormedSubst
INVARIANT CaseAdmissible
INVARIANT FamiliesOrthogonal
INVARIANT SausageLaws
INVARIANT Emission
