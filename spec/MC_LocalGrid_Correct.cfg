SPECIFICATION Spec
CONSTANTS
  PAlts <- MC_PAlts
  WAlts <- MC_WAlts
  Centers <- MC_Centers
  Radii <- MC_Radii
  Sels <- MC_Sels
  InvalidateOnSet = TRUE
  CanSetPoints = TRUE
INVARIANT QueryCorrect
INVARIANT InfIsWholeGrid
INVARIANT TreeFresh
INVARIANT ItemCorrect
PROPERTY RejectIsAtomic
