SPECIFICATION Spec
INVARIANT CodeSatisfiesPoisson
