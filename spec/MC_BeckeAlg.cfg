CONSTANT Variant = "code"
INIT InitAlg
NEXT NextAlg
INVARIANT LawsHold
INVARIANT Emitted
INVARIANT SumToOne
INVARIANT Bounds
INVARIANT NucleusValues
INVARIANT AlphaBounded
INVARIANT Relabelling
INVARIANT Reflection
INVARIANT LawsHoldAudit
INVARIANT EmittedAudit
INVARIANT CutFamily
