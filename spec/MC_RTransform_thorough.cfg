\* C03, thorough tier: exact identities of the radial transforms on the large lattice
SPECIFICATION Spec
CONSTANT Tier = "thorough"
CONSTANT EmitFile = "rtransform_trees.json"
INVARIANT RoundTrip
INVARIANT InverseDeriv1
INVARIANT InverseDeriv2
INVARIANT InverseDeriv3
INVARIANT ForwardFromInverse
INVARIANT DirectionDecided
INVARIANT DerivSign
INVARIANT Monotone
INVARIANT Interior
INVARIANT EndPoints
INVARIANT UseInsideDomain
INVARIANT EmitValues
INVARIANT EmitEnds
