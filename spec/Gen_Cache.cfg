SPECIFICATION GSpec
CONSTANTS
  Methods = {"lebedev", "maxdet"}
  Scaled = {"lebedev"}
  Degrees = {3, 5}
  MaxObjs = 2
  Aliasing = "copying"
  MaxLen = 3
INVARIANT Emit
INVARIANT FreshIsShipped
INVARIANT CacheClean
