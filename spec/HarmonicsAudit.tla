--------------------------- MODULE HarmonicsAudit ---------------------------
(***************************************************************************)
(* C08, audit extension of Harmonics.tla (which stays as it is: C02 / C09  *)
(* use its emission).  Everything here is stated over the SAME definition  *)
(* trees; nothing of Harmonics.tla is redefined.                           *)
(*                                                                         *)
(*  1. Conversion of derivatives (anchor convert_derivative_from_spherical_*)
(*     to_cartesian).  Declaratively: the Cartesian gradient g of a        *)
(*     function with spherical partials d obeys the chain rule             *)
(*         d_j = SUM_i (d x_i / d q_j) g_i,   q = (r, theta, phi),         *)
(*     with d x_i / d q_j = JacTree (derived by Expr!D from the            *)
(*     parametrisation).  The columns of the Jacobian are orthogonal, so   *)
(*     g_i = SUM_j J_ij / |J_.j|^2 d_j (GradTree - built from JacTree, no  *)
(*     closed form is typed in).  TLC decides on the Pythagorean lattice   *)
(*     (exact rationals) that GradTree solves the chain rule, that the     *)
(*     frame is orthogonal with metric (1, r^2 sin^2 phi, r^2), and what   *)
(*     the two documented conventions mean: at phi = 0 the theta term is   *)
(*     dropped (r and phi components still obey the chain rule), at r = 0  *)
(*     only the radial term is kept.                                       *)
(*  2. Sph is homogeneous: Sph(t p; t c) = (t r, theta, phi) - the law     *)
(*     behind the replay of very large / very small coordinates.           *)
(*  3. Structured angles the property names: polar angles just outside the *)
(*     library's pole cut (|tan phi| < 1e-10 is "the pole"; 1e-9 is not),  *)
(*     and angles many periods away from the principal range, as exact     *)
(*     pairs (multiple of pi, rational offset).                            *)
(*  4. The catalogue of CALL FORMS (what a caller may hand over: floating  *)
(*     type of the arrays, memory layout, the same array for both angles,  *)
(*     read-only arrays, number of points 0 / 1 / several, the type of     *)
(*     l_max, the form of the centre, scalar types) with the obligations   *)
(*     of each form and the tolerance class of its value obligation; the   *)
(*     observations of the replay are judged by TLC (FormJudged) so that   *)
(*     no form and no obligation is skipped silently.                      *)
(***************************************************************************)
EXTENDS Harmonics

CONSTANTS AuditFile,  \* "" = do not emit; else JSON file for forms / angles / gradient trees and cases
          ObsFile,    \* "" = nothing to judge; else JSON file {"obs": [...]} aligned with FormsSeq
          LForm       \* l_max used by the call forms

(***************************************************************************)
(* 1. Gradient conversion                                                  *)
(***************************************************************************)
DVars == <<"dr", "dtheta", "dphi">>
Jt(i_, j_) == JacTree[i_][j_]                       \* d x_i / d q_j
MetricTree == [j_ \in 1..3 |-> Add(Add(Sq(Jt(1, j_)), Sq(Jt(2, j_))), Sq(Jt(3, j_)))]
GradTerm(i_, j_) == Mul(Div(Jt(i_, j_), MetricTree[j_]), V(DVars[j_]))
GradTree     == [i_ \in 1..3 |-> Add(Add(GradTerm(i_, 1), GradTerm(i_, 2)), GradTerm(i_, 3))]
GradTreePhi0 == [i_ \in 1..3 |-> Add(GradTerm(i_, 1), GradTerm(i_, 3))]  \* documented: phi = 0
GradTreeR0   == [i_ \in 1..3 |-> GradTerm(i_, 1)]                        \* documented: r = 0

\* exact evaluation on a lattice angle: sin / cos occur only on the bare angle variables
RECURSIVE EvalA(_, _, _)
EvalA(e_, env_, a_) ==
    CASE e_.op = "c" -> <<e_.n, e_.d>>
      [] e_.op = "v" -> env_[e_.name]
      [] (e_.op = "sin" /\ e_.a = Theta) -> a_.st
      [] (e_.op = "sin" /\ e_.a = Phi) -> a_.sp
      [] (e_.op = "cos" /\ e_.a = Theta) -> a_.ct
      [] (e_.op = "cos" /\ e_.a = Phi) -> a_.cp
      [] e_.op = "neg" -> QNeg(EvalA(e_.a, env_, a_))
      [] e_.op = "add" -> XAdd(EvalA(e_.a, env_, a_), EvalA(e_.b, env_, a_))
      [] e_.op = "sub" -> XSub(EvalA(e_.a, env_, a_), EvalA(e_.b, env_, a_))
      [] e_.op = "mul" -> XMul(EvalA(e_.a, env_, a_), EvalA(e_.b, env_, a_))
      [] e_.op = "div" -> XMul(EvalA(e_.a, env_, a_), QInv(EvalA(e_.b, env_, a_)))
      [] e_.op = "powi" -> XPow(EvalA(e_.a, env_, a_), e_.k)

Radii  == <<Q(1, 2), QI(1), Q(5, 2), QI(7)>>
Derivs == << <<1, 0, 0>>, <<0, 1, 0>>, <<0, 0, 1>>, <<2, -3, 5>> >>
GEnv(r_, d_) == [r |-> r_, dr |-> QI(d_[1]), dtheta |-> QI(d_[2]), dphi |-> QI(d_[3]),
                 cx |-> QZero, cy |-> QZero, cz |-> QZero]
JacQ(r_, a_) == [i_ \in 1..3 |-> [j_ \in 1..3 |-> EvalA(Jt(i_, j_), GEnv(r_, <<0, 0, 0>>), a_)]]
GradQ(T_, r_, d_, a_) == [i_ \in 1..3 |-> EvalA(T_[i_], GEnv(r_, d_), a_)]
Col3(M_, g_, j_) == XAdd(XAdd(XMul(M_[1][j_], g_[1]), XMul(M_[2][j_], g_[2])), XMul(M_[3][j_], g_[3]))
ColDot(M_, j_, k_) == XAdd(XAdd(XMul(M_[1][j_], M_[1][k_]), XMul(M_[2][j_], M_[2][k_])), XMul(M_[3][j_], M_[3][k_]))

GRad(k_) == Radii[((k_ - 1) \div 4) + 1]
GDer(k_) == Derivs[((k_ - 1) % 4) + 1]
IsPhi0(a_) == a_.sp = QZero /\ a_.cp = QOne
IsPhiPi(a_) == a_.sp = QZero /\ a_.cp = QI(-1)

\* GradTree solves the chain rule wherever the parametrisation is regular (sin phi # 0, r > 0)
ChainRule ==
    Is("gradient") /\ Lattice[hone].sp # QZero =>
        LET a_ == Lattice[hone] r_ == GRad(htwo) d_ == GDer(htwo)
            M_ == JacQ(r_, a_) g_ == GradQ(GradTree, r_, d_, a_)
        IN \A j_ \in 1..3 : Col3(M_, g_, j_) = QI(d_[j_])
\* the spherical frame is orthogonal, with the metric (1, r^2 sin^2 phi, r^2)
FrameOrthogonal ==
    Is("gradient") =>
        LET a_ == Lattice[hone] r_ == GRad(htwo) M_ == JacQ(r_, a_) IN
        /\ \A j_ \in 1..3, k_ \in 1..3 : j_ # k_ => ColDot(M_, j_, k_) = QZero
        /\ ColDot(M_, 1, 1) = QOne
        /\ ColDot(M_, 2, 2) = XMul(XMul(r_, r_), XMul(a_.sp, a_.sp))
        /\ ColDot(M_, 3, 3) = XMul(r_, r_)
\* documented conventions: phi = 0 drops the theta term (r and phi components are still exact),
\* r = 0 keeps the radial term only (the directional derivative along the ray is exact)
PoleConvention ==
    Is("gradient") /\ IsPhi0(Lattice[hone]) =>
        LET a_ == Lattice[hone] r_ == GRad(htwo) d_ == GDer(htwo)
            M_ == JacQ(r_, a_) g_ == GradQ(GradTreePhi0, r_, d_, a_)
        IN Col3(M_, g_, 1) = QI(d_[1]) /\ Col3(M_, g_, 3) = QI(d_[3])
OriginConvention ==
    Is("gradient") =>
        LET a_ == Lattice[hone] d_ == GDer(htwo)
            M_ == JacQ(QOne, a_) g_ == GradQ(GradTreeR0, QZero, d_, a_)
        IN Col3(M_, g_, 1) = QI(d_[1])

\* the factor between a solid harmonic and the surface harmonic of the same (l, m), with the degree as a
\* variable (r > 0): the statement's sqrt(4 pi/(2l+1)) r^l, used for degrees beyond LTree
SolidFactorTree == Mul(Sqrt(Div(Mul(CI(4), Pi), Add(Mul(CI(2), V("l")), CI(1)))), PowR(V("r"), V("l")))

(***************************************************************************)
(* 2. Homogeneity of the inverse parametrisation                           *)
(***************************************************************************)
Scales == {2, 3, 7}
SphHomogeneous ==
    Is("sphscale") => \A z_ \in PointBox : \A c_ \in Centres : \A t_ \in Scales :
        LET p_ == <<hone + c_[1], htwo + c_[2], z_ + c_[3]>>
            tp_ == <<t_ * p_[1], t_ * p_[2], t_ * p_[3]>>
            tc_ == <<t_ * c_[1], t_ * c_[2], t_ * c_[3]>> IN
        SphDefined(p_, c_) =>
            /\ SphDefined(tp_, tc_)
            /\ SphQ(tp_, tc_).ang = SphQ(p_, c_).ang
            /\ SphQ(tp_, tc_).r = XMul(QI(t_), SphQ(p_, c_).r)

(***************************************************************************)
(* 3. Structured angles: pim * pi + off                                    *)
(***************************************************************************)
AngleQ(pim_, off_) == [pim |-> pim_, off |-> off_]
Eps == {Q(1, 1000000000), Q(1, 10000000), Q(1, 100000), Q(1, 1000)}
\* just outside the pole cut, on both sides of both poles and one period away
ThresholdPhi == {AngleQ(0, e_) : e_ \in Eps} \cup {AngleQ(1, QNeg(e_)) : e_ \in Eps}
                \cup {AngleQ(2, e_) : e_ \in Eps} \cup {AngleQ(-1, QNeg(e_)) : e_ \in Eps}
                \cup {AngleQ(1, e_) : e_ \in Eps} \cup {AngleQ(0, QNeg(e_)) : e_ \in Eps}
ThresholdTheta == <<AngleQ(0, Q(3, 10)), AngleQ(0, Q(-21, 10)), AngleQ(2, QI(1))>>
RadiusCycle == <<QI(1), Q(1, 1000), QI(0), QI(1000), Q(5, 2)>>
FarThetaPi == <<-12, -7, 9, 20>>
FarPhiPi   == <<-6, -3, 4, 8, 11>>
FarOff     == <<Q(3, 10), Q(17, 10), Q(29, 10)>>
ThresholdSeq == LET s_ == SetToSeq(ThresholdPhi) IN
    [k_ \in 1..Len(s_) |-> [class |-> "threshold", theta |-> ThresholdTheta[(k_ % 3) + 1], phi |-> s_[k_],
                            r |-> RadiusCycle[(k_ % 5) + 1]]]
FarPairs == SetToSeq({<<t_, o1_, p_, o2_>> \in (1..4) \X (1..2) \X (1..5) \X (1..3) : (t_ + o1_ + p_ + o2_) % 4 = 0})
FarSeq == [k_ \in 1..Len(FarPairs) |->
             LET q_ == FarPairs[k_] IN
             [class |-> "far", theta |-> AngleQ(FarThetaPi[q_[1]], FarOff[q_[2]]),
              phi |-> AngleQ(FarPhiPi[q_[3]], FarOff[q_[4]]), r |-> RadiusCycle[(k_ % 5) + 1]]]
\* sin(k pi + off) has the sign (-1)^k sign(sin off); off in (0, pi) here, so "far" contains both
\* reflected and unreflected polar angles
\* the poles themselves, as other multiples of pi than 0 and pi (the documented zero of the polar derivative is a
\* statement about the pole, not about the number 0.0)
PolePi == <<-1, 2, 3, -2>>
PoleSeq == [k_ \in 1..Len(PolePi) |-> [class |-> "pole", theta |-> ThresholdTheta[(k_ % 3) + 1],
                                       phi |-> AngleQ(PolePi[k_], QZero), r |-> RadiusCycle[(k_ % 5) + 1]]]
ExtraAngles == ThresholdSeq \o FarSeq \o PoleSeq
\* every threshold angle is outside the pole cut 1e-10 and inside 1e-2 of a pole
ThresholdOutsideCut == \A a_ \in ThresholdPhi : QLt(Q(1, 2000000000), QAbs(a_.off)) /\ QLt(QAbs(a_.off), Q(1, 100))

(***************************************************************************)
(* 4. Call forms                                                           *)
(***************************************************************************)
AngleFuncs   == {"ylm", "ylm_scipy", "dylm"}
DTypes       == {"f8", "f4", "g", "i8"}          \* float64, float32, extended precision, integer
Counts       == {"none", "one", "many"}
LForms       == {"int", "int64", "int32"}
AngleLayouts == {"plain", "strided", "readonly", "aliased"}     \* aliased: the same array is theta and phi
PointLayouts == {"plain", "strided", "readonly", "fortran"}
CentreForms  == {"none", "array", "list", "tuple", "intarray"}
ScalarForms  == {"float", "npfloat", "int", "zerod"}
Form(f_, dt_, lay_, cnt_, x_) == [func |-> f_, dtype |-> dt_, layout |-> lay_, count |-> cnt_, extra |-> x_]
Forms == {Form(f_, dt_, lay_, cnt_, x_) : f_ \in AngleFuncs, dt_ \in DTypes, lay_ \in AngleLayouts, cnt_ \in Counts, x_ \in LForms}
         \cup {Form("solid", dt_, lay_, cnt_, x_) : dt_ \in DTypes, lay_ \in PointLayouts, cnt_ \in Counts, x_ \in LForms}
         \cup {Form("cart", dt_, lay_, cnt_, x_) : dt_ \in DTypes, lay_ \in PointLayouts, cnt_ \in Counts, x_ \in CentreForms}
         \cup {Form("grad", "f8", "plain", "one", x_) : x_ \in ScalarForms}
FormsSeq == SetToSeq(Forms)
Obligations(f_) == {"returns", "shape", "value", "unchanged", "repeatable"}
\* tolerance of the value obligation, as an exponent: |observed - definition| <= 10^-TolExp in the natural
\* scale of the quantity.  Arrays of single precision carry angles exactly, but the library may do its
\* arithmetic on them in single precision (2^-24 = 6e-8 per operation, amplified by m theta <= 60 and by the
\* recursions): 1e-3 is 3 orders above the measured deviation (see vf/props/c08.py) and 3 orders below a
\* wrong sign, row or factor.  Points of convert_cart_to_sph are integers: exact in every type.
TolExp(f_) == IF f_.dtype = "f4" /\ f_.func # "cart" THEN 3 ELSE 9
\* points of the forms <<theta, phi, r>>: rational, integer for "i8"; polar angles below 0 and above 2 pi are
\* among them (a library that wraps its arguments in place changes them); aliased forms use the phi column twice
FormPointsReal == << <<Q(3, 10), Q(7, 10), Q(1, 2)>>, <<Q(-21, 10), QI(2), QI(0)>>, <<QI(5), QI(-1), QI(1)>>,
                     <<Q(29, 7), QI(7), Q(5, 2)>>, <<Q(-13, 3), Q(9, 4), QI(7)>> >>
FormPointsInt  == << <<QI(0), QI(1), QI(1)>>, <<QI(1), QI(2), QI(2)>>, <<QI(-2), QI(-3), QI(0)>>,
                     <<QI(3), QI(8), QI(3)>>, <<QI(5), QI(2), QI(1)>> >>
\* scalar call of the gradient conversion: <<dr, dtheta, dphi, r, theta, phi>>
GradScalarReal == <<QI(2), QI(-3), QI(5), Q(5, 2), Q(3, 10), Q(7, 10)>>
GradScalarInt  == <<QI(2), QI(-3), QI(5), QI(2), QI(1), QI(1)>>

ObsAll == JsonDeserialize(ObsFile).obs
Failing(o_, f_) == {b_ \in Obligations(f_) : ~o_[b_]}
FormJudged ==
    Is("form") =>
        LET f_ == FormsSeq[hone] o_ == ObsAll[hone] IN
        \/ o_.form = f_ /\ Failing(o_, f_) = {}
        \/ PrintT(<<"FORMFAIL", hone, f_, IF o_.form = f_ THEN Failing(o_, f_) ELSE {"misaligned"}>>)
FormsComplete == Is("form") => Len(ObsAll) = Len(FormsSeq)

(***************************************************************************)
(* State machines.  XSpec: Harmonics' identities plus the new kinds.       *)
(* JSpec: one state per call form (second run, after the replay).          *)
(***************************************************************************)
XKinds == {"gradient", "sphscale"}
XPick == /\ hk[1] = "idle"
         /\ \E k_ \in XKinds : hk' = <<"pick", k_>> /\ hdeg' = 0
         /\ UNCHANGED <<hone, htwo>>
XCase == /\ hk[1] = "pick"
         /\ \/ /\ hk[2] = "gradient"
               /\ \E i_ \in 1..NLat, k_ \in 1..16 : hone' = i_ /\ htwo' = k_
            \/ /\ hk[2] = "sphscale"
               /\ \E x_ \in PointBox, y_ \in PointBox : hone' = x_ /\ htwo' = y_
         /\ hk' = <<"case", hk[2]>>
         /\ UNCHANGED hdeg
XNext == HNext \/ XPick \/ XCase
XSpec == HInit /\ [][XNext]_hvars

JPick == /\ hk[1] = "idle"
         /\ \E k_ \in 1..Len(FormsSeq) : hone' = k_
         /\ hk' = <<"case", "form">>
         /\ UNCHANGED <<hdeg, htwo>>
JSpec == HInit /\ [][JPick]_hvars

(***************************************************************************)
(* Emission                                                                *)
(***************************************************************************)
GradKind(a_) == IF a_.sp # QZero THEN "general" ELSE IF IsPhi0(a_) THEN "phi0" ELSE "undefined"
GradRec(i_, k_) ==
    LET a_ == Lattice[i_] r_ == GRad(k_) d_ == GDer(k_) kind_ == GradKind(a_) IN
    [ct |-> a_.ct, st |-> a_.st, cp |-> a_.cp, sp |-> a_.sp, r |-> r_, d |-> d_, kind |-> kind_,
     g |-> GradQ(IF kind_ = "general" THEN GradTree ELSE GradTreePhi0, r_, d_, a_)]
GradRecR0(i_, k_) ==
    LET a_ == Lattice[i_] d_ == GDer(k_) IN
    [ct |-> a_.ct, st |-> a_.st, cp |-> a_.cp, sp |-> a_.sp, r |-> QZero, d |-> d_, kind |-> "r0",
     g |-> GradQ(GradTreeR0, QZero, d_, a_)]
GradIdx == SetToSeq({<<i_, k_>> \in (1..NLat) \X (1..16) :
                        /\ ((k_ - 1) \div 4) = i_ % 4
                        /\ GradKind(Lattice[i_]) # "undefined"})
GradIdxR0 == SetToSeq({<<i_, k_>> \in (1..NLat) \X (1..4) : i_ % 4 = k_ % 4})
AuditEmission ==
    [lform |-> LForm,
     solidfactor |-> SolidFactorTree,
     grad |-> [general |-> GradTree, phi0 |-> GradTreePhi0, r0 |-> GradTreeR0],
     gradcases |-> [q_ \in 1..Len(GradIdx) |-> GradRec(GradIdx[q_][1], GradIdx[q_][2])]
                   \o [q_ \in 1..Len(GradIdxR0) |-> GradRecR0(GradIdxR0[q_][1], GradIdxR0[q_][2])],
     angles |-> ExtraAngles,
     scales |-> SetToSeq(Scales),
     forms |-> [q_ \in 1..Len(FormsSeq) |-> [form |-> FormsSeq[q_], tolexp |-> TolExp(FormsSeq[q_]),
                                             obligations |-> SetToSeq(Obligations(FormsSeq[q_]))]],
     formpoints |-> [real |-> FormPointsReal, int |-> FormPointsInt],
     gradscalar |-> [real |-> GradScalarReal, int |-> GradScalarInt]]
ASSUME ThresholdOutsideCut
ASSUME AuditFile = "" \/ JsonSerialize(AuditFile, AuditEmission)
=============================================================================
