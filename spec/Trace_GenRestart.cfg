SPECIFICATION TSpec
CONSTANTS
  Sizes <- NoSeq
  Wts <- NoSeq
  MaxGens = 1000
  Fresh = TRUE
INVARIANT NewGenFresh
INVARIANT YieldsExactlySize
INVARIANT ItemInOrder
