-------------------------------- MODULE Becke --------------------------------
(***************************************************************************)
(* Atom-in-molecule weights (property C06).                                *)
(*                                                                         *)
(* Part A  the DEFINITION of the Becke weight, written once, as a          *)
(*         straight-line program of Expr trees (named intermediate         *)
(*         results; every right-hand side is a small tree over the inputs  *)
(*         and earlier names).  TLC runs it exactly (RunQ) where 32-bit    *)
(*         rationals suffice; the harness runs THE SAME program, serialised*)
(*         to JSON, with Python Fractions (collinear rational geometries)  *)
(*         and in extended precision (arbitrary 3-D geometries).           *)
(* Part B  the lemma chain behind "0 <= w <= 1, sum = 1, nucleus values":  *)
(*         cut-off, nu-map, switching step - decided exactly on lattices.  *)
(* Part C  the chunked whole-grid evaluation with its shifted/clipped      *)
(*         segment table and NumPy slice semantics, as an explicit         *)
(*         algorithm, against "every point gets the weight of the atom     *)
(*         that owns it, exactly once".                                    *)
(* Part D  radius fall-back for elements without a tabulated radius.       *)
(* Part E  (audit extension) Hirshfeld share; further extensions are       *)
(*         marked "audit": cut-off as an input (ProgramC, CutFamily),      *)
(*         fall-back under radii overrides (Scenarios), larger chunk cases *)
(*         chosen by the harness, the empty grid, more observed routes     *)
(*         (PickExtra, ObsConformsX), variant "unsigned".                  *)
(*                                                                         *)
(* Tables_becke is generated at check time: MaxM, MaxN (bounds of the      *)
(* chunk model), Defined (atomic numbers with a tabulated Bragg radius,    *)
(* read from grid.utils), ZMax, Obs (observations of the implementation).  *)
(***************************************************************************)
EXTENDS Expr, FiniteSets, SequencesExt, TLC, Json, Tables_becke

CONSTANT Variant      \* "code" = the algorithm as shipped; "noclip" / "shiftplus" = seeded
                      \* variants used only to show that the invariants can see such edits

Force(f_) == IF f_ = f_ THEN f_ ELSE f_
RECURSIVE Flat(_)
Flat(ss_) == IF ss_ = <<>> THEN <<>> ELSE Head(ss_) \o Flat(Tail(ss_))
Nm(p_, i_) == p_ \o ToString(i_)
Nm2(p_, i_, j_) == p_ \o ToString(i_) \o "_" \o ToString(j_)

(***************************************************************************)
(* Part A.  Definition.                                                    *)
(*   r_B    distance point - nucleus B          d_BC  distance B - C       *)
(*   mu_BC = (r_B - r_C) / d_BC                                            *)
(*   u_BC  = (R_B - R_C) / (R_B + R_C),  a_BC = clip(u/(u^2-1), -c, c)     *)
(*   nu_BC = mu_BC + a_BC (1 - mu_BC^2)                                    *)
(*   f_0 = nu, f_k = (3 f_{k-1} - f_{k-1}^3)/2,  s_BC = (1 - f_order)/2    *)
(*   P_B = prod_{C # B} s_BC,   w_B = P_B / sum_C P_C                      *)
(***************************************************************************)
Cutoff == <<9, 20>>                      \* 0.45
CoordNames == <<"x", "y", "z">>
PointNames == <<"px", "py", "pz">>
AtomVar(b_, k_) == Nm(CoordNames[k_], b_)
\* Euclidean distance in dim_ dimensions; in one dimension |x - y| (rational fragment)
DistE(dim_, va_, vb_) ==
    IF dim_ = 1 THEN AbsE(Sub(V(va_[1]), V(vb_[1])))
    ELSE LET RECURSIVE S(_)
             S(k_) == IF k_ = 0 THEN CI(0) ELSE Add(S(k_ - 1), Sq(Sub(V(va_[k_]), V(vb_[k_]))))
         IN Sqrt(S(dim_))
AtomVars(b_, dim_) == [k_ \in 1..dim_ |-> AtomVar(b_, k_)]
PointVars(dim_) == [k_ \in 1..dim_ |-> PointNames[k_]]

\* min/max through |.| so that the clip stays inside the rational fragment of Expr
MinE(a_, b_) == Mul(C(1, 2), Sub(Add(a_, b_), AbsE(Sub(a_, b_))))
MaxE(a_, b_) == Mul(C(1, 2), Add(Add(a_, b_), AbsE(Sub(a_, b_))))
ClipE(a_, c_) == MaxE(MinE(a_, c_), Neg(c_))

AlphaRawE(ra_, rb_) ==      \* u / (u^2 - 1), u = (ra - rb)/(ra + rb)
    LET u == Div(Sub(ra_, rb_), Add(ra_, rb_)) IN Div(u, Sub(Sq(u), CI(1)))
AlphaE(ra_, rb_, c_) == ClipE(AlphaRawE(ra_, rb_), c_)
NuE(mu_, a_) == Add(mu_, Mul(a_, Sub(CI(1), Sq(mu_))))
StepE(x_) == Sub(Mul(C(3, 2), x_), Mul(C(1, 2), Pow(x_, 3)))
SwitchOfE(f_) == Mul(C(1, 2), Sub(CI(1), f_))

\* ordered pairs (b, c), b # c, of 1..m_, in row order
NPairs(m_) == m_ * (m_ - 1)
PairB(m_, k_) == (k_ - 1) \div (m_ - 1) + 1
PairC(m_, k_) == LET j == ((k_ - 1) % (m_ - 1)) + 1 IN IF j < PairB(m_, k_) THEN j ELSE j + 1

PairSteps(dim_, order_, b_, c_) ==
    <<  <<Nm2("d", b_, c_), DistE(dim_, AtomVars(b_, dim_), AtomVars(c_, dim_))>>,
        <<Nm2("mu", b_, c_), Div(Sub(V(Nm("r", b_)), V(Nm("r", c_))), V(Nm2("d", b_, c_)))>>,
        <<Nm2("a", b_, c_), AlphaE(V(Nm("rad", b_)), V(Nm("rad", c_)), CQ(Cutoff))>>,
        <<Nm2("f0_", b_, c_), NuE(V(Nm2("mu", b_, c_)), V(Nm2("a", b_, c_)))>> >>
    \o [k_ \in 1..order_ |-> <<Nm2("f" \o ToString(k_) \o "_", b_, c_),
                               StepE(V(Nm2("f" \o ToString(k_ - 1) \o "_", b_, c_)))>>]
    \o << <<Nm2("s", b_, c_), SwitchOfE(V(Nm2("f" \o ToString(order_) \o "_", b_, c_)))>> >>

ProdOthersE(m_, b_) ==
    LET RECURSIVE P(_)
        P(c_) == IF c_ = 0 THEN CI(1)
                 ELSE IF c_ = b_ THEN P(c_ - 1) ELSE Mul(P(c_ - 1), V(Nm2("s", b_, c_)))
    IN P(m_)
SumPE(m_) ==
    LET RECURSIVE S(_)
        S(b_) == IF b_ = 0 THEN CI(0) ELSE Add(S(b_ - 1), V(Nm("P", b_)))
    IN S(m_)

\* the program: sequence of <<name, tree>>; outputs w1 .. wm
Program(m_, order_, dim_) ==
    [b_ \in 1..m_ |-> <<Nm("r", b_), DistE(dim_, PointVars(dim_), AtomVars(b_, dim_))>>]
    \o Flat([k_ \in 1..NPairs(m_) |-> PairSteps(dim_, order_, PairB(m_, k_), PairC(m_, k_))])
    \o [b_ \in 1..m_ |-> <<Nm("P", b_), ProdOthersE(m_, b_)>>]
    \o << <<"tot", SumPE(m_)>> >>
    \o [b_ \in 1..m_ |-> <<Nm("w", b_), Div(V(Nm("P", b_)), V("tot"))>>]

\* interface of the program for the harness: which input names carry what
Interface(m_, dim_) ==
    [atoms |-> [b_ \in 1..m_ |-> AtomVars(b_, dim_)],
     radii |-> [b_ \in 1..m_ |-> Nm("rad", b_)],
     point |-> PointVars(dim_),
     outputs |-> [b_ \in 1..m_ |-> Nm("w", b_)],
     alphas |-> [k_ \in 1..NPairs(m_) |-> Nm2("a", PairB(m_, k_), PairC(m_, k_))]]

(***************************************************************************)
(* Audit extension of Part A.  The same definition with the cut-off as an  *)
(* INPUT named "cut" (compute_atom_weight accepts a user cut-off): any     *)
(* cut < 1/2 must give a partition of unity.  ProgramG with the constant   *)
(* 9/20 is, tree for tree, the Program above (LemmaProgramG).              *)
(***************************************************************************)
PairStepsG(dim_, order_, b_, c_, cutE_) ==
    <<  <<Nm2("d", b_, c_), DistE(dim_, AtomVars(b_, dim_), AtomVars(c_, dim_))>>,
        <<Nm2("mu", b_, c_), Div(Sub(V(Nm("r", b_)), V(Nm("r", c_))), V(Nm2("d", b_, c_)))>>,
        <<Nm2("a", b_, c_), AlphaE(V(Nm("rad", b_)), V(Nm("rad", c_)), cutE_)>>,
        <<Nm2("f0_", b_, c_), NuE(V(Nm2("mu", b_, c_)), V(Nm2("a", b_, c_)))>> >>
    \o [k_ \in 1..order_ |-> <<Nm2("f" \o ToString(k_) \o "_", b_, c_),
                               StepE(V(Nm2("f" \o ToString(k_ - 1) \o "_", b_, c_)))>>]
    \o << <<Nm2("s", b_, c_), SwitchOfE(V(Nm2("f" \o ToString(order_) \o "_", b_, c_)))>> >>
ProgramG(m_, order_, dim_, cutE_) ==
    [b_ \in 1..m_ |-> <<Nm("r", b_), DistE(dim_, PointVars(dim_), AtomVars(b_, dim_))>>]
    \o Flat([k_ \in 1..NPairs(m_) |-> PairStepsG(dim_, order_, PairB(m_, k_), PairC(m_, k_), cutE_)])
    \o [b_ \in 1..m_ |-> <<Nm("P", b_), ProdOthersE(m_, b_)>>]
    \o << <<"tot", SumPE(m_)>> >>
    \o [b_ \in 1..m_ |-> <<Nm("w", b_), Div(V(Nm("P", b_)), V("tot"))>>]
ProgramC(m_, order_, dim_) == ProgramG(m_, order_, dim_, V("cut"))
InterfaceC(m_, dim_) == [cut |-> "cut"] @@ Interface(m_, dim_)

(***************************************************************************)
(* Part E (audit extension).  Hirshfeld: the weight of atom b is its share *)
(* of the pro-molecule density, h_b = rho_b / sum_c rho_c, on the points   *)
(* b owns (ownership as in Part C).                                        *)
(***************************************************************************)
SumRhoE(m_) ==
    LET RECURSIVE S(_)
        S(b_) == IF b_ = 0 THEN CI(0) ELSE Add(S(b_ - 1), V(Nm("rho", b_)))
    IN S(m_)
HirshProgram(m_) ==
    << <<"promol", SumRhoE(m_)>> >> \o [b_ \in 1..m_ |-> <<Nm("h", b_), Div(V(Nm("rho", b_)), V("promol"))>>]
HirshInterface(m_) == [rho |-> [b_ \in 1..m_ |-> Nm("rho", b_)], outputs |-> [b_ \in 1..m_ |-> Nm("h", b_)]]

\* exact run of a program: environment maps names to rationals
RECURSIVE RunQ(_, _)
RunQ(prog_, env_) ==
    IF prog_ = <<>> THEN env_
    ELSE RunQ(Tail(prog_), (Head(prog_)[1] :> EvalQ(Head(prog_)[2], env_)) @@ env_)

(***************************************************************************)
(* Part B.  Lemma chain, decided exactly on lattices.                      *)
(***************************************************************************)
Env1(n_, v_) == (n_ :> v_)
Env2(n1_, v1_, n2_, v2_) == (n1_ :> v1_) @@ (n2_ :> v2_)
QIn(a_, lo_, hi_) == QLe(lo_, a_) /\ QLe(a_, hi_)
Law(name_, holds_) == holds_ \/ PrintT(<<"LAWFAIL", name_>>)

RadiiLattice == {<<1, 2>>, <<1, 1>>, <<3, 2>>, <<2, 1>>, <<3, 1>>, <<7, 2>>, <<5, 1>>}
AlphaQ(ra_, rb_) == EvalQ(AlphaE(V("ra"), V("rb"), CQ(Cutoff)), Env2("ra", ra_, "rb", rb_))
AlphaRawQ(ra_, rb_) == EvalQ(AlphaRawE(V("ra"), V("rb")), Env2("ra", ra_, "rb", rb_))
\* the clip written declaratively
ClipQ(x_, c_) == IF QLt(c_, x_) THEN c_ ELSE IF QLt(x_, QNeg(c_)) THEN QNeg(c_) ELSE x_
Alphas == {AlphaQ(p[1], p[2]) : p \in RadiiLattice \X RadiiLattice}

LemmaAlpha ==
    \A ra \in RadiiLattice, rb \in RadiiLattice :
        LET a == AlphaQ(ra, rb) raw == AlphaRawQ(ra, rb) IN
        /\ a = ClipQ(raw, Cutoff)                       \* |.|-encoding of the clip = clip
        /\ QIn(a, QNeg(Cutoff), Cutoff)                 \* |a| <= 0.45
        /\ QLt(Cutoff, <<1, 2>>)                        \*        < 1/2
        /\ a = QNeg(AlphaQ(rb, ra))                     \* a_BA = -a_AB
        /\ (ra = rb => a = QZero)
        \* closed form of the raw value: (rb^2 - ra^2) / (4 ra rb)
        /\ raw = QDiv(QSub(QMul(rb, rb), QMul(ra, ra)), QMul(QI(4), QMul(ra, rb)))
\* the cut-off is really active on the lattice and really inactive elsewhere (non-vacuity)
LemmaAlphaNonVacuous ==
    /\ \E ra \in RadiiLattice, rb \in RadiiLattice : AlphaQ(ra, rb) = Cutoff /\ AlphaRawQ(ra, rb) # Cutoff
    /\ \E ra \in RadiiLattice, rb \in RadiiLattice : ra # rb /\ AlphaQ(ra, rb) = AlphaRawQ(ra, rb)

MuLattice == {Q(k, 8) : k \in -8..8}
NuQ(mu_, a_) == EvalQ(NuE(V("mu"), V("a")), Env2("mu", mu_, "a", a_))
QMinusOne == <<-1, 1>>
LemmaNu ==
    \A a \in Alphas :
        /\ \A mu \in MuLattice :
             /\ QIn(NuQ(mu, a), QMinusOne, QOne)               \* stays in [-1, 1]
             /\ NuQ(QNeg(mu), QNeg(a)) = QNeg(NuQ(mu, a))      \* nu_BA = -nu_AB
        /\ NuQ(QOne, a) = QOne /\ NuQ(QMinusOne, a) = QMinusOne
        /\ \A k \in -8..7 : QLt(NuQ(Q(k, 8), a), NuQ(Q(k + 1, 8), a))    \* strictly increasing
\* with a cut-off beyond 1/2 the map leaves [-1, 1] (this is why the clip matters)
LemmaNuNeedsCutoff ==
    \E mu \in MuLattice : ~QIn(NuQ(mu, <<3, 5>>), QMinusOne, QOne)

XLattice == {Q(k, 16) : k \in -16..16}
StepQ(x_) == EvalQ(StepE(V("x")), Env1("x", x_))
LemmaStep ==
    /\ \A x \in XLattice :
         /\ QIn(StepQ(x), QMinusOne, QOne)
         /\ StepQ(QNeg(x)) = QNeg(StepQ(x))
    /\ StepQ(QOne) = QOne /\ StepQ(QMinusOne) = QMinusOne /\ StepQ(QZero) = QZero
    /\ \A k \in -16..15 : QLt(StepQ(Q(k, 16)), StepQ(Q(k + 1, 16)))
\* switch value: s(x) + s(-x) = 1, s(-1) = 1, s(1) = 0, 0 <= s <= 1 (one step; k steps by composition)
SwitchQ(x_) == EvalQ(SwitchOfE(StepE(V("x"))), Env1("x", x_))
LemmaSwitch ==
    /\ \A x \in XLattice : QIn(SwitchQ(x), QZero, QOne) /\ QAdd(SwitchQ(x), SwitchQ(QNeg(x))) = QOne
    /\ SwitchQ(QOne) = QZero /\ SwitchQ(QMinusOne) = QOne

(***************************************************************************)
(* Part D.  Radius fall-back: an element without tabulated radius uses the *)
(* radius of the element one below, or two below if that is missing too.   *)
(***************************************************************************)
RadiusSource(z_) == IF z_ \in Defined THEN z_
                    ELSE IF z_ - 1 \in Defined THEN z_ - 1 ELSE z_ - 2
FallbackTotal == \A z \in 1..ZMax : RadiusSource(z) \in Defined /\ RadiusSource(z) >= 1
Undefined == (1..ZMax) \ Defined

(***************************************************************************)
(* Audit extension: cut-off family, generalised fall-back, Hirshfeld share.*)
(***************************************************************************)
CutLattice == {<<1, 10>>, <<1, 4>>, <<3, 8>>, <<9, 20>>, <<49, 100>>}
AlphaCQ(ra_, rb_, c_) == EvalQ(AlphaE(V("ra"), V("rb"), V("cut")), ("cut" :> c_) @@ Env2("ra", ra_, "rb", rb_))
LemmaCutFamily ==
    \A c \in CutLattice :
        /\ QLt(c, <<1, 2>>)
        /\ \A ra \in RadiiLattice, rb \in RadiiLattice :
             LET a == AlphaCQ(ra, rb, c) IN
             /\ a = ClipQ(AlphaRawQ(ra, rb), c)
             /\ a = QNeg(AlphaCQ(rb, ra, c))
             /\ \A mu \in MuLattice : QIn(NuQ(mu, a), QMinusOne, QOne)
             /\ \A k \in -8..7 : QLt(NuQ(Q(k, 8), a), NuQ(Q(k + 1, 8), a))
        /\ (c = Cutoff => \A ra \in RadiiLattice, rb \in RadiiLattice : AlphaCQ(ra, rb, c) = AlphaQ(ra, rb))
LemmaProgramG ==
    \A mm \in 1..3, o \in 1..3, d \in {1, 3} : ProgramG(mm, o, d, CQ(Cutoff)) = Program(mm, o, d)

\* fall-back relative to an arbitrary set of elements with a radius (the public ``radii`` override can
\* give a radius to an element that has none, or take one away with nan)
RadiusSourceIn(def_, z_) == IF z_ \in def_ THEN z_ ELSE IF z_ - 1 \in def_ THEN z_ - 1 ELSE z_ - 2
Scenarios == << [add |-> {2}, del |-> {}],
                [add |-> {}, del |-> {7}],
                [add |-> {}, del |-> {7, 8}],
                [add |-> {85}, del |-> {}],
                [add |-> {10, 18}, del |-> {9}],
                [add |-> {86}, del |-> {83}],
                [add |-> {36}, del |-> {35, 37}] >>
ScenarioDefined(s_) == (Defined \cup s_.add) \ s_.del
ScenarioTable(s_) == {<<z, RadiusSourceIn(ScenarioDefined(s_), z)>> : z \in 1..ZMax}
LemmaFallbackIn ==
    /\ \A z \in 1..ZMax : RadiusSourceIn(Defined, z) = RadiusSource(z)
    /\ \A i \in 1..Len(Scenarios) :
         LET dd == ScenarioDefined(Scenarios[i]) IN
         /\ \A z \in 1..ZMax : RadiusSourceIn(dd, z) \in dd /\ RadiusSourceIn(dd, z) >= 1   \* admissible: two steps suffice
         /\ \A z \in Scenarios[i].add : RadiusSourceIn(dd, z) = z                          \* an override is used, not the fall-back
         /\ \A z \in Scenarios[i].del : RadiusSourceIn(dd, z) # z
         /\ \E z \in 1..ZMax : RadiusSourceIn(dd, z) # RadiusSource(z)                      \* the scenario matters

RhoLattice == {QZero, <<1, 3>>, QOne, <<5, 2>>}
RECURSIVE TuplesOf(_, _)
TuplesOf(S_, k_) == IF k_ = 0 THEN {<<>>} ELSE UNION {{<<x>> \o t : t \in TuplesOf(S_, k_ - 1)} : x \in S_}
HirshQ(rho_) ==
    LET m == Len(rho_)
        env == RunQ(HirshProgram(m), [n \in {Nm("rho", b) : b \in 1..m} |->
                                         rho_[CHOOSE b \in 1..m : Nm("rho", b) = n]])
    IN [b \in 1..m |-> env[Nm("h", b)]]
LemmaHirsh ==
    \A mm \in 1..3 : \A rho \in TuplesOf(RhoLattice, mm) :
        (\E b \in 1..mm : rho[b] # QZero) =>
            LET h == HirshQ(rho) IN
            /\ QSum(h) = QOne
            /\ \A b \in 1..mm : QIn(h[b], QZero, QOne) /\ (rho[b] = QZero => h[b] = QZero)
            /\ \A b, c \in 1..mm : rho[b] = rho[c] => h[b] = h[c]

AllLaws ==
    /\ Law("LemmaAlpha", LemmaAlpha)
    /\ Law("LemmaAlphaNonVacuous", LemmaAlphaNonVacuous)
    /\ Law("LemmaNu", LemmaNu)
    /\ Law("LemmaNuNeedsCutoff", LemmaNuNeedsCutoff)
    /\ Law("LemmaStep", LemmaStep)
    /\ Law("LemmaSwitch", LemmaSwitch)
    /\ Law("FallbackTotal", FallbackTotal)
AllLawsAudit ==
    /\ Law("LemmaCutFamily", LemmaCutFamily)
    /\ Law("LemmaProgramG", LemmaProgramG)
    /\ Law("LemmaFallbackIn", LemmaFallbackIn)
    /\ Law("LemmaHirsh", LemmaHirsh)

(***************************************************************************)
(* State.  Two machines share the variables; a configuration picks one     *)
(* with INIT/NEXT.                                                         *)
(***************************************************************************)
VARIABLES pc, cs, ib, seg, acc
vars == <<pc, cs, ib, seg, acc>>

(***************************************************************************)
(* Algebra machine: collinear geometries with rational coordinates and     *)
(* radii.  SmallGeoms are evaluated by TLC itself (they fit 32 bits);      *)
(* ReplayGeoms (superset, larger lattice, order <= 3, M <= 4) are emitted  *)
(* for the harness, which runs the same program in Fractions.              *)
(***************************************************************************)
\* strictly increasing sequences of length k_ over the sequence lat_ starting at index from_
RECURSIVE IncSeqs(_, _, _)
IncSeqs(lat_, k_, from_) ==
    IF k_ = 0 THEN {<<>>}
    ELSE UNION {{<<lat_[i]>> \o t : t \in IncSeqs(lat_, k_ - 1, i + 1)} : i \in from_..Len(lat_)}
RECURSIVE Tuples(_, _)
Tuples(S_, k_) == IF k_ = 0 THEN {<<>>} ELSE UNION {{<<x>> \o t : t \in Tuples(S_, k_ - 1)} : x \in S_}

Geom(pos_, rad_, ord_) == [M |-> Len(pos_), pos |-> pos_, rad |-> rad_, order |-> ord_]
ConstSeq(k_, v_) == [i \in 1..k_ |-> v_]

SmallPos == <<QI(0), QI(1), QI(2)>>
SmallGeoms ==
    UNION {{Geom(p, ConstSeq(mm, QI(1)), 1) : p \in IncSeqs(SmallPos, mm, 1)} : mm \in 1..3}
    \cup UNION {{Geom(p, ConstSeq(mm, <<3, 2>>), 2) : p \in IncSeqs(SmallPos, mm, 1)} : mm \in 1..2}
    \cup {Geom(<<QI(0), QI(2)>>, r, 1) : r \in {<<QI(1), QI(2)>>, <<QI(2), QI(1)>>, <<QI(1), QI(5)>>, <<<<7, 2>>, <<1, 2>>>>}}
SmallPoints(g_) ==
    IF g_.rad[1] = g_.rad[g_.M] THEN {QI(k) : k \in -1..3}
    ELSE {QI(-1), QI(0), QI(1), QI(2), QI(3)}

ReplayPos == <<QI(0), <<5, 4>>, QI(2), <<7, 2>>, QI(5)>>
ReplayRadii == {<<1, 2>>, QI(1), <<3, 2>>, QI(3)}
ReplayPoints == {Q(k, 4) : k \in {-40, -6, -1, 0, 2, 5, 6, 8, 11, 14, 17, 20, 23, 60}}
ReplayGeoms(dummy_) ==      \* (parameter only to keep TLC from evaluating this at start-up of every run)
    UNION {UNION {{Geom(p, r, o) : p \in IncSeqs(ReplayPos, mm, 1), r \in Tuples(ReplayRadii, mm)}
                  : o \in 1..3} : mm \in 1..4}

EnvOf(g_, x_) ==
    LET names == <<"px">> \o [b \in 1..g_.M |-> AtomVar(b, 1)] \o [b \in 1..g_.M |-> Nm("rad", b)]
        vals == <<x_>> \o g_.pos \o g_.rad
    IN [n \in {names[i] : i \in 1..Len(names)} |->
            vals[CHOOSE i \in 1..Len(names) : names[i] = n]]
Progs == Force([mo \in (1..4) \X (1..3) |-> Program(mo[1], mo[2], 1)])
WeightsQ(g_, x_) ==
    LET env == RunQ(Progs[<<g_.M, g_.order>>], EnvOf(g_, x_))
    IN [w |-> [b \in 1..g_.M |-> env[Nm("w", b)]],
        a |-> [k \in 1..NPairs(g_.M) |-> env[Nm2("a", PairB(g_.M, k), PairC(g_.M, k))]]]

NoCase == [M |-> 0]
InitAlg == pc = "idle" /\ cs = NoCase /\ ib = 0 /\ seg = 0 /\ acc = <<>>
PickGeom ==
    /\ pc = "idle"
    /\ \E g \in SmallGeoms : cs' = g
    /\ pc' = "geom" /\ UNCHANGED <<ib, seg, acc>>
PickPoint ==
    /\ pc = "geom"
    /\ \E x \in SmallPoints(cs) : cs' = [M |-> cs.M, pos |-> cs.pos, rad |-> cs.rad, order |-> cs.order, pt |-> x]
    /\ pc' = "point" /\ UNCHANGED <<ib, seg, acc>>
Evaluate ==
    /\ pc = "point"
    /\ acc' = WeightsQ(cs, cs.pt)
    /\ pc' = "value" /\ UNCHANGED <<cs, ib, seg>>
NextAlg == PickGeom \/ PickPoint \/ Evaluate

HasValue == pc = "value"
SumToOne == HasValue => QSum(acc.w) = QOne
Bounds == HasValue => \A b \in 1..cs.M : QIn(acc.w[b], QZero, QOne)
NucleusValues ==
    HasValue => \A b \in 1..cs.M : cs.pt = cs.pos[b] =>
                    \A c \in 1..cs.M : acc.w[c] = IF c = b THEN QOne ELSE QZero
AlphaBounded == HasValue => \A k \in 1..Len(acc.a) : QIn(acc.a[k], QNeg(Cutoff), Cutoff)
\* relabelling: listing the atoms in another order permutes the weights accordingly
Perms(m_) == {f \in [1..m_ -> 1..m_] : \A i, j \in 1..m_ : f[i] = f[j] => i = j}
Relabelling ==
    HasValue => \A f \in Perms(cs.M) :
        LET g2 == [M |-> cs.M, pos |-> [i \in 1..cs.M |-> cs.pos[f[i]]],
                   rad |-> [i \in 1..cs.M |-> cs.rad[f[i]]], order |-> cs.order]
            w2 == WeightsQ(g2, cs.pt).w
        IN \A i \in 1..cs.M : w2[i] = acc.w[f[i]]
\* reflection of the whole system about the origin (the rigid motion available on a line)
Reflection ==
    HasValue =>
        LET g2 == [M |-> cs.M, pos |-> [i \in 1..cs.M |-> QNeg(cs.pos[i])], rad |-> cs.rad, order |-> cs.order]
        IN WeightsQ(g2, QNeg(cs.pt)).w = acc.w

\* emitted for the harness
EmitAlg ==
    /\ JsonSerialize("becke_geoms.json", SetToSeq(ReplayGeoms(0)))
    /\ JsonSerialize("becke_points.json", SetToSeq(ReplayPoints))
    /\ JsonSerialize("becke_programs.json",
            [dim1 |-> [m \in 1..4 |-> [o \in 1..3 |-> [prog |-> Program(m, o, 1), io |-> Interface(m, 1)]]],
             dim3 |-> [m \in 1..MaxAtoms3 |-> [o \in 1..3 |-> [prog |-> Program(m, o, 3), io |-> Interface(m, 3)]]]])
    /\ JsonSerialize("becke_fallback.json", SetToSeq({<<z, RadiusSource(z)>> : z \in Undefined}))
\* audit extension: more atoms / higher switching orders (3-D programs), cut-off-as-input programs,
\* fall-back tables under radii overrides, Hirshfeld share programs
EmitX(m_, o_) == o_ = 3 \/ m_ <= 6
EmitAudit ==
    /\ JsonSerialize("becke_programs_x.json",
            [dim3 |-> [m \in 1..MaxAtomsX |-> [o \in 1..MaxOrderX |->
                          [prog |-> IF EmitX(m, o) THEN Program(m, o, 3) ELSE <<>>, io |-> Interface(m, 3)]]],
             dim3c |-> [m \in 1..5 |-> [o \in 1..3 |-> [prog |-> ProgramC(m, o, 3), io |-> InterfaceC(m, 3)]]],
             hirsh |-> [m \in 1..MaxAtomsX |-> [prog |-> HirshProgram(m), io |-> HirshInterface(m)]]])
    /\ JsonSerialize("becke_scenarios.json",
            [i \in 1..Len(Scenarios) |-> [add |-> SetToSeq(Scenarios[i].add), del |-> SetToSeq(Scenarios[i].del),
                                          table |-> SetToSeq(ScenarioTable(Scenarios[i]))]])
LawsHoldAudit == pc = "idle" => AllLawsAudit
EmittedAudit == pc = "idle" => EmitAudit
\* cut-off family, exactly, on the small geometries: every admissible cut-off gives a partition of unity
ProgsC == Force([mo \in (1..3) \X (1..2) |-> ProgramC(mo[1], mo[2], 1)])
CutSmall == {<<1, 4>>, <<3, 8>>, <<9, 20>>}
WeightsQC(g_, x_, c_) ==
    LET env == RunQ(ProgsC[<<g_.M, g_.order>>], ("cut" :> c_) @@ EnvOf(g_, x_))
    IN [b \in 1..g_.M |-> env[Nm("w", b)]]
CutFamily ==
    HasValue => \A c \in CutSmall :
        LET w == WeightsQC(cs, cs.pt, c) IN
        /\ QSum(w) = QOne
        /\ \A b \in 1..cs.M : QIn(w[b], QZero, QOne)
        /\ \A b \in 1..cs.M : cs.pt = cs.pos[b] => \A k \in 1..cs.M : w[k] = IF k = b THEN QOne ELSE QZero
        /\ (c = Cutoff => w = acc.w)
LawsHold == pc = "idle" => AllLaws
Emitted == pc = "idle" => EmitAlg

(***************************************************************************)
(* Part C.  Chunk machine.                                                 *)
(*   npoints = N, chunk = max(1, 10 N div M^2)                             *)
(*   for ibegin in range(0, N, chunk):                                     *)
(*       sub = points[ibegin : ibegin + chunk]            (NumPy slice)    *)
(*       pt_ind = (indices - ibegin).clip(min = 0)                         *)
(*       if M = 1:  every point of sub gets atom 1                         *)
(*       else for i in 0..M-1:  sub[pt_ind[i] : pt_ind[i+1]] += atom i+1   *)
(*   result = concatenation of the chunks                                  *)
(* acc[p][a] counts how often point p (1-based) received atom a's weight.  *)
(***************************************************************************)
\* NumPy basic slice a[lo:hi] on an axis of length len_: selected 0-based positions
NormIdx(i_, len_) == IF i_ < 0 THEN Max2(i_ + len_, 0) ELSE Min2(i_, len_)
Slice(lo_, hi_, len_) == NormIdx(lo_, len_) .. (NormIdx(hi_, len_) - 1)

\* non-decreasing sequences of length k_ with entries in lo_..hi_
RECURSIVE Mono(_, _, _)
Mono(k_, lo_, hi_) ==
    IF k_ = 0 THEN {<<>>}
    ELSE UNION {{<<v>> \o t : t \in Mono(k_ - 1, v, hi_)} : v \in lo_..hi_}
IndexTables(m_, n_) == {<<0>> \o t \o <<n_>> : t \in Mono(m_ - 1, 0, n_)}

Huge == 1000000
ChunkSize == Max2(1, (10 * cs.N) \div (cs.M * cs.M))
ChunkLen == Cardinality(Slice(ib, ib + ChunkSize, cs.N))
PtInd(j_) == CASE Variant = "noclip" -> cs.idx[j_] - ib
               [] Variant = "shiftplus" -> Max2(cs.idx[j_] + ib, 0)
               \* audit extension: the subtraction carried out in an unsigned integer type wraps around
               \* instead of going negative (the clip then does nothing); Huge stands for 2^64 + (idx - ibegin)
               [] Variant = "unsigned" -> IF cs.idx[j_] - ib < 0 THEN Huge ELSE cs.idx[j_] - ib
               [] OTHER -> Max2(cs.idx[j_] - ib, 0)

InitChunk == pc = "idle" /\ cs = NoCase /\ ib = 0 /\ seg = 0 /\ acc = <<>>
PickMN ==
    /\ pc = "idle"
    /\ \E mm \in 1..MaxM, nn \in 0..MaxN : cs' = [M |-> mm, N |-> nn]     \* (audit: N = 0, the empty grid, included)
    /\ pc' = "mn" /\ UNCHANGED <<ib, seg, acc>>
PickTable ==
    /\ pc = "mn"
    /\ \E t \in IndexTables(cs.M, cs.N) : cs' = [M |-> cs.M, N |-> cs.N, idx |-> t]
    /\ pc' = (IF cs.N = 0 THEN "done" ELSE "chunk")    \* range(0, 0, chunk) is empty: no chunk at all, empty result
    /\ ib' = 0 /\ seg' = 0
    /\ acc' = [p \in 1..cs.N |-> [a \in 1..cs.M |-> 0]]
\* audit extension: larger instances (more atoms, more points, segments spanning many chunks) chosen by the
\* harness (ExtraCases, generated from VERIF_SEED) go through the same algorithm and the same invariants
PickExtra ==
    /\ pc = "idle"
    /\ \E i \in 1..Len(ExtraCases) :
         /\ cs' = [M |-> ExtraCases[i].M, N |-> ExtraCases[i].N, idx |-> ExtraCases[i].idx, x |-> i]
         /\ pc' = (IF ExtraCases[i].N = 0 THEN "done" ELSE "chunk")
         /\ acc' = [p \in 1..ExtraCases[i].N |-> [a \in 1..ExtraCases[i].M |-> 0]]
    /\ ib' = 0 /\ seg' = 0
SegStep ==
    /\ pc = "chunk" /\ seg < cs.M
    /\ LET len == ChunkLen
           sel == IF cs.M = 1 THEN 0..(len - 1) ELSE Slice(PtInd(seg + 1), PtInd(seg + 2), len)
       IN acc' = [p \in 1..cs.N |-> [a \in 1..cs.M |->
                     acc[p][a] + (IF a = seg + 1 /\ (p - 1 - ib) \in sel THEN 1 ELSE 0)]]
    /\ seg' = seg + 1
    /\ UNCHANGED <<pc, cs, ib>>
ChunkEnd ==
    /\ pc = "chunk" /\ seg = cs.M
    /\ ib' = ib + ChunkSize /\ seg' = 0
    /\ pc' = IF ib + ChunkSize >= cs.N THEN "done" ELSE "chunk"
    /\ UNCHANGED <<cs, acc>>
NextChunk == PickMN \/ PickTable \/ PickExtra \/ SegStep \/ ChunkEnd

Running == pc \in {"chunk", "done"}
Done == pc = "done"
Owners(p_) == {a \in 1..cs.M : cs.idx[a] <= p_ - 1 /\ p_ - 1 < cs.idx[a + 1]}
Owner(p_) == CHOOSE a \in Owners(p_) : TRUE
Received(p_) == ISum([a \in 1..cs.M |-> acc[p_][a]])

\* the index table partitions the points: every point has exactly one owner
OwnerUnique == Running => \A p \in 1..cs.N : Cardinality(Owners(p)) = 1
\* the property: after the last chunk every point holds the weight of its owner, once
ChunkedEqualsDefinition ==
    Done => \A p \in 1..cs.N : \A a \in 1..cs.M : acc[p][a] = IF a = Owner(p) THEN 1 ELSE 0
\* never a second contribution, never a foreign one, at any time
NeverTwiceNeverForeign ==
    Running => \A p \in 1..cs.N : Received(p) <= 1 /\ \A a \in 1..cs.M : acc[p][a] > 0 => a = Owner(p)
\* loop invariant at chunk boundaries: exactly the points before ibegin are finished
ChunkPrefix ==
    (pc = "chunk" /\ seg = 0) => \A p \in 1..cs.N : Received(p) = IF p - 1 < ib THEN 1 ELSE 0
\* the result has the right length: the chunk lengths add up to N
ChunkLengths ==
    Done => LET RECURSIVE Tot(_)
                Tot(b_) == IF b_ >= cs.N THEN 0 ELSE Cardinality(Slice(b_, b_ + ChunkSize, cs.N)) + Tot(b_ + ChunkSize)
            IN Tot(0) = cs.N

(***************************************************************************)
(* Conformance.  For every index table the harness evaluated the routes    *)
(* with all points placed on nucleus t, t = 1..M; the weight returned for  *)
(* point p is then the number of times p received atom t's weight.  The    *)
(* M results are packed per point as  code[p] = SUM_t count_t[p] * 4^(t-1).*)
(* Obs[M][N] is a trie over idx[2..M] (entries + 1); a leaf is             *)
(* <<call, generate, compute>>, each a sequence of N codes (<<>> = not     *)
(* observed, <<-1>> = the route raised).                                   *)
(***************************************************************************)
RECURSIVE Walk(_, _)
Walk(t_, path_) == IF path_ = <<>> THEN t_
                   ELSE IF Head(path_) + 1 > Len(t_) THEN <<>> ELSE Walk(t_[Head(path_) + 1], Tail(path_))
RECURSIVE Pow4(_)
Pow4(k_) == IF k_ = 0 THEN 1 ELSE 4 * Pow4(k_ - 1)
ExpectedCodes == [p \in 1..cs.N |-> Pow4(Owner(p) - 1)]
AlgoCodes == [p \in 1..cs.N |-> ISum([a \in 1..cs.M |-> acc[p][a] * Pow4(a - 1)])]
IsExtra == "x" \in DOMAIN cs
Leaf == IF IsExtra THEN (IF cs.x <= Len(ObsExtra) THEN ObsExtra[cs.x] ELSE <<>>)
        ELSE IF cs.N = 0 THEN (IF cs.M <= Len(ObsZero) THEN ObsZero[cs.M] ELSE <<>>)
        ELSE IF cs.M <= Len(Obs) /\ cs.N <= Len(Obs[cs.M])
        THEN Walk(Obs[cs.M][cs.N], SubSeq(cs.idx, 2, cs.M)) ELSE <<>>
RouteNames == <<"call", "generate", "compute">>
ObsConforms ==
    Done => \A r \in 1..3 :
        LET o == IF Len(Leaf) >= r THEN Leaf[r] ELSE IF cs.N = 0 THEN <<-3>> ELSE <<>>   \* <<-3>>: not observed
            want == IF r = 1 THEN AlgoCodes ELSE ExpectedCodes
        IN o = want \/ PrintT(<<"MISMATCH", RouteNames[r], cs.M, cs.N, cs.idx, want, o>>)
\* audit extension: further observed routes (other container / integer types for the index table, the
\* Hirshfeld call whose ownership rule is the same) on the extra cases; entry r of RouteNamesX names leaf[r]
RouteNamesX == <<"call", "generate", "compute", "call-int32", "call-int16", "generate-ndarray", "compute-ndarray",
                 "generate-tuple", "compute-int32", "hirshfeld", "hirshfeld-int32", "call-uint64", "call-uint32", "hirshfeld-uint64">>
RouteChunked(r_) == RouteNamesX[r_] \in {"call", "call-int32", "call-int16", "call-uint64", "call-uint32"}
ObsConformsX ==
    (Done /\ IsExtra) => \A r \in 4..Len(RouteNamesX) :
        LET o == IF Len(Leaf) >= r THEN Leaf[r] ELSE <<-3>>
            want == IF RouteChunked(r) THEN AlgoCodes ELSE ExpectedCodes
        IN o = want \/ PrintT(<<"MISMATCH", RouteNamesX[r], cs.M, cs.N, cs.idx, want, o>>)
=============================================================================
