------------------------------ MODULE TableLaws ------------------------------
(***************************************************************************)
(* X02: small table laws and round trips of theochem/grid that are not     *)
(* among the twenty listed properties (DESIGN.md section 11, items 2,5,7). *)
(*                                                                         *)
(*  "save"   persistence: which keys grid.save(filename) writes for every  *)
(*           grid class and which attribute each key holds (bit for bit),  *)
(*           a plain Grid rebuilt from the file integrates identically     *)
(*  "fp"     BeckeRTransform.find_parameter: the median rule for odd and   *)
(*           even sizes, stated so that "half of the points in             *)
(*           [rmin, inf) are within radius" (its docstring) is a theorem   *)
(*  "rgrid"  the default radial grid per element used when rgrid=None:     *)
(*           which atomic numbers have one, what it looks like, and that   *)
(*           the others are rejected with ValueError                       *)
(*  "cov"    get_cov_radii: three tables, which Z have values, 0 and       *)
(*           unsupported types are rejected                                *)
(*                                                                         *)
(* The tables are NOT written here: x02_tables.json is generated at check  *)
(* time from /repo (grid.utils), so an edit to a table changes the model.  *)
(* Two runs of this module: GSpec enumerates every case (printed for the   *)
(* harness) and checks the laws on each; JSpec walks through the recorded  *)
(* observations x02_obs.json = sequence of [case, out] and judges each     *)
(* against Expected(case).  Mismatches are printed, not stopped at.        *)
(***************************************************************************)
EXTENDS Integers, Sequences, FiniteSets, TLC, Json, Exact

Tabs == JsonDeserialize("x02_tables.json")
Obs == JsonDeserialize("x02_obs.json")
Force(f_) == IF f_ = f_ THEN f_ ELSE f_
ToSet(q_) == {q_[j_] : j_ \in 1..Len(q_)}

\* a case: [part, cls, variant, z, arr, p1, p2]  (unused fields are "" / 0 / <<>>)
MkCase(part_, cls_, variant_, z_, arr_, p1_, p2_) ==
    [part |-> part_, cls |-> cls_, variant |-> variant_, z |-> z_, arr |-> arr_, p1 |-> p1_, p2 |-> p2_]
NoCase == MkCase("none", "", "", 0, <<>>, 0, 0)

(***************************************************************************)
(* save                                                                    *)
(***************************************************************************)
SaveClasses == {"Grid", "OneDGrid", "LocalGrid", "AngularGrid", "AtomGrid", "MolGrid", "PeriodicGrid",
                "Tensor1DGrids", "UniformGrid"}
Parent == [c_ \in SaveClasses |-> IF c_ = "Grid" THEN "" ELSE "Grid"]
BaseKeys == {"points", "weights"}
AtomSub == {"points", "weights", "center", "degrees", "indices", "rgrid_pts", "rgrid_weights"}
MolOwn == {"atweights", "atcoords", "aim_weights", "indices"}
\* attribute (path from the object) whose value a key holds
AttrOfKey(key_) == CASE key_ = "rgrid_pts" -> "rgrid.points"
                     [] key_ = "rgrid_weights" -> "rgrid.weights"
                     [] OTHER -> key_
AtKey(a_, key_) == "atgrid_" \o ToString(a_) \o "_" \o key_
AtAttr(a_, key_) == "atgrids[" \o ToString(a_) \o "]." \o AttrOfKey(key_)
Own(cls_) == CASE cls_ = "LocalGrid" -> {"center", "indices"}
               [] cls_ = "AtomGrid" -> (AtomSub \ BaseKeys) \cup {"method"}
               [] cls_ = "Tensor1DGrids" -> {"origin"}
               [] cls_ = "UniformGrid" -> {"origin", "axes"}
               [] cls_ = "MolGrid" -> MolOwn
               [] OTHER -> {}
\* set of <<key, attribute>> written for an object of class cls_ holding nat_ stored atomic grids
KeyAttr(cls_, nat_) ==
    {<<k_, AttrOfKey(k_)>> : k_ \in BaseKeys \cup Own(cls_)}
    \cup (IF cls_ = "MolGrid" THEN {<<AtKey(a_, k_), AtAttr(a_, k_)>> : a_ \in 0..nat_ - 1, k_ \in AtomSub} ELSE {})
KeysOf(cls_, nat_) == {p_[1] : p_ \in KeyAttr(cls_, nat_)}

SaveVariants == [c_ \in SaveClasses |->
    CASE c_ = "Grid" -> {"1d", "2d", "3d"}
      [] c_ = "OneDGrid" -> {"dom", "nodom", "rule"}
      [] c_ = "LocalGrid" -> {"idx", "1d", "from-grid"}
      [] c_ = "AngularGrid" -> {"deg", "size"}
      [] c_ = "AtomGrid" -> {"uniform", "pruned", "rotated", "preset"}
      [] c_ = "MolGrid" -> {"store", "nostore"}
      [] c_ = "PeriodicGrid" -> {"nolattice", "lattice"}
      [] c_ = "Tensor1DGrids" -> {"2d", "3d"}
      [] c_ = "UniformGrid" -> {"2d", "3d"}]
MaxAtoms == 3
SaveCases == UNION {{MkCase("save", c_, v_, z_, <<>>, e_, 0) :
                        v_ \in SaveVariants[c_], z_ \in (IF c_ = "MolGrid" THEN 1..MaxAtoms ELSE {0}), e_ \in 0..1} : c_ \in SaveClasses}
\* stored atomic grids of the object of a case (a MolGrid built with store=False has none to write)
NatOf(c_) == IF c_.cls = "MolGrid" /\ c_.variant = "store" THEN c_.z ELSE 0
\* p1 = 1: the file name is given without the ".npz" suffix, which is then appended (numpy.savez)
SaveFileOf(c_) == IF c_.p1 = 1 THEN "appended" ELSE "exact"

SaveClause(c_, o_) ==
    IF o_.exc # "" THEN "raised:" \o o_.exc
    ELSE IF o_.file # SaveFileOf(c_) THEN "file-name"
    ELSE IF ToSet(o_.keys) # KeysOf(c_.cls, NatOf(c_)) THEN "key-set"
    ELSE IF \E p_ \in KeyAttr(c_.cls, NatOf(c_)) : p_[2] \notin ToSet(o_.match[p_[1]]) THEN "array-differs-from-attribute"
    ELSE IF ~o_.reint THEN "rebuilt-grid-integrates-differently"
    ELSE IF ~o_.rebuilt THEN "rebuilt-object-differs"
    ELSE "ok"
\* laws of the key tables
SaveLaws ==
    /\ \A c_ \in SaveClasses : Parent[c_] # "" => KeysOf(Parent[c_], 0) \subseteq KeysOf(c_, 0)     \* a subclass writes at least its parent's keys
    /\ \A c_ \in SaveClasses, m_ \in 0..MaxAtoms :
          /\ BaseKeys \subseteq KeysOf(c_, m_)
          /\ Cardinality(KeyAttr(c_, m_)) = Cardinality(KeysOf(c_, m_))                              \* one attribute per key
          /\ Cardinality({p_[2] : p_ \in KeyAttr(c_, m_)}) = Cardinality(KeysOf(c_, m_))             \* no attribute written twice
    /\ \A m_ \in 0..MaxAtoms : Cardinality(KeysOf("MolGrid", m_)) = 6 + 7 * m_
    /\ \A m_ \in 1..MaxAtoms : KeysOf("MolGrid", m_ - 1) \subseteq KeysOf("MolGrid", m_)

(***************************************************************************)
(* fp : BeckeRTransform.find_parameter(array, rmin, radius)                *)
(* array entries, rmin, radius are given in quarters (x = arr[j] / 4)      *)
(***************************************************************************)
FPUnits == -3..3
FPMaxLen == 4
RECURSIVE AscSeqs(_, _)
AscSeqs(len_, above_) == IF len_ = 0 THEN {<<>>}
                         ELSE UNION {{<<h_>> \o t_ : t_ \in AscSeqs(len_ - 1, h_)} : h_ \in {u_ \in FPUnits : u_ > above_}}
FPArrays(len_) == AscSeqs(len_, -4)
FPRmin == {0, 2, 4}
FPRadius == {2, 4, 10}
FPCases(len_) == {MkCase("fp", "", "", 0, a_, r_, s_) : a_ \in FPArrays(len_), r_ \in FPRmin, s_ \in FPRadius}
Qtr(u_) == Q(u_, 4)
\* the rule: positional median; mean of the two middle entries for an even size
FPMid(arr_) == LET m_ == Len(arr_) IN
    IF m_ % 2 = 1 THEN Qtr(arr_[(m_ + 1) \div 2]) ELSE QDiv(QAdd(Qtr(arr_[m_ \div 2]), Qtr(arr_[m_ \div 2 + 1])), QI(2))
FPRejects(c_) == c_.p1 > c_.p2
FPValue(c_) == QMul(QSub(Qtr(c_.p2), Qtr(c_.p1)), QDiv(QSub(QOne, FPMid(c_.arr)), QAdd(QOne, FPMid(c_.arr))))
\* Becke map with that R: r(x) = R (1 + x) / (1 - x) + rmin
BeckeAt(c_, x_) == QAdd(QMul(FPValue(c_), QDiv(QAdd(QOne, x_), QSub(QOne, x_))), Qtr(c_.p1))
\* the docstring as a theorem: at least half of the mapped points are within radius and at least half are not inside it
FPHalfWithin(c_) ==
    LET pts_ == {j_ \in 1..Len(c_.arr) : QLe(BeckeAt(c_, Qtr(c_.arr[j_])), Qtr(c_.p2))}
        out_ == {j_ \in 1..Len(c_.arr) : QLe(Qtr(c_.p2), BeckeAt(c_, Qtr(c_.arr[j_])))}
    IN 2 * Cardinality(pts_) >= Len(c_.arr) /\ 2 * Cardinality(out_) >= Len(c_.arr)
FPLaws(c_) == ~FPRejects(c_) => /\ QSgn(FPValue(c_)) >= 0
                                /\ BeckeAt(c_, FPMid(c_.arr)) = Qtr(c_.p2)      \* the median goes to the radius
                                /\ FPHalfWithin(c_)
FPClause(c_, o_) ==
    IF FPRejects(c_) THEN (IF o_.exc = "ValueError" THEN "ok" ELSE IF o_.exc = "" THEN "rmin-above-radius-accepted" ELSE "raised:" \o o_.exc)
    ELSE IF o_.exc # "" THEN "raised:" \o o_.exc
    ELSE IF o_.r # <<"q", FPValue(c_)[1], FPValue(c_)[2]>> THEN "wrong-scale-factor"
    ELSE "ok"

(***************************************************************************)
(* rgrid : default radial grid for atomic number z when rgrid = None       *)
(* Tabs.rgrid = sequence of <<Z, rmin mantissa, rmin exponent, rmax        *)
(* mantissa, rmax exponent, npt>> (value = mantissa * 10^exponent,         *)
(* mantissa in 10^8 .. 10^9 - 1, Angstrom)                                 *)
(***************************************************************************)
RgRows == Tabs.rgrid
RgKeys == Force({RgRows[j_][1] : j_ \in 1..Len(RgRows)})
RgRow == Force([z_ \in RgKeys |-> RgRows[CHOOSE j_ \in 1..Len(RgRows) : RgRows[j_][1] = z_]])
SciPos(m_, e_) == m_ >= 100000000 /\ m_ <= 999999999
SciLt(m1_, e1_, m2_, e2_) == e1_ < e2_ \/ (e1_ = e2_ /\ m1_ < m2_)
MaxZ == 100
RgRoutes == {"gen", "atom", "mol"}
RgCases == {MkCase("rgrid", r_, "", z_, <<>>, 0, 0) : r_ \in RgRoutes, z_ \in 0..MaxZ}
Ang2BohrPPB == 1889726126      \* 1 Angstrom = 1.889726126 Bohr (CODATA), in parts per 10^9
RgTolPPB == 50
Near(v_, w_, tol_) == v_ - w_ <= tol_ /\ w_ - v_ <= tol_
RgLaws ==
    /\ Cardinality(RgKeys) = Len(RgRows)                                   \* no atomic number listed twice
    /\ RgKeys \subseteq 1..118
    /\ 1..54 \subseteq RgKeys                                               \* hydrogen to xenon have a default
    /\ \A z_ \in RgKeys : LET w_ == RgRow[z_] IN
          /\ SciPos(w_[2], w_[3]) /\ SciPos(w_[4], w_[5])                   \* 0 < rmin, 0 < rmax
          /\ SciLt(w_[2], w_[3], w_[4], w_[5])                              \* rmin < rmax
          /\ w_[6] > 1                                                      \* at least two radial points
\* o_ = [exc, npt, lo, hi, asc, dlo, dhi]: lo / hi = first / last radial point divided by the table's rmin / rmax (ppb),
\* dlo = lower domain end divided by rmin (ppb), dhi = "inf" or something else
RgClause(c_, o_) ==
    IF c_.z \notin RgKeys THEN (IF o_.exc = "ValueError" THEN "ok" ELSE IF o_.exc = "" THEN "unlisted-element-accepted" ELSE "raised:" \o o_.exc)
    ELSE IF o_.exc # "" THEN "raised:" \o o_.exc
    ELSE IF o_.npt # RgRow[c_.z][6] THEN "number-of-radial-points"
    ELSE IF ~Near(o_.lo, Ang2BohrPPB, RgTolPPB) THEN "first-point-not-rmin-in-bohr"
    ELSE IF ~Near(o_.hi, Ang2BohrPPB, RgTolPPB) THEN "last-point-not-rmax-in-bohr"
    ELSE IF ~o_.asc THEN "points-not-ascending"
    ELSE "ok"

(***************************************************************************)
(* cov : get_cov_radii(atnums, cov_type)                                   *)
(* Tabs.cov[type] = sequence over index 0.. of round(value * 10^8), -1 for *)
(* "no value" (nan)                                                        *)
(***************************************************************************)
CovTypes == {"bragg", "cambridge", "alvarez"}
CovTab(t_) == Tabs.cov[t_]
CovRoutes == {"int", "npint", "array", "list"}
CovCases(t_) == IF t_ \in CovTypes
                THEN {MkCase("cov", t_, r_, z_, <<>>, 0, 0) : r_ \in CovRoutes, z_ \in 0..Len(CovTab(t_)) - 1}
                ELSE {MkCase("cov", t_, r_, z_, <<>>, 0, 0) : r_ \in CovRoutes, z_ \in {0, 1, 6}}
NobleGases == {2, 10, 18, 36, 54, 86}
CovLaws ==
    /\ \A t_ \in CovTypes :
          /\ Len(CovTab(t_)) >= 87                                          \* every type covers Z = 1..86
          /\ CovTab(t_)[1] = -1                                             \* index 0 is a place holder
          /\ \A j_ \in 2..Len(CovTab(t_)) : CovTab(t_)[j_] = -1 \/ (CovTab(t_)[j_] >= 30000000 /\ CovTab(t_)[j_] <= 600000000)
    /\ \A t_ \in {"cambridge", "alvarez"} : \A j_ \in 2..Len(CovTab(t_)) : CovTab(t_)[j_] # -1
    /\ {j_ - 1 : j_ \in {i_ \in 2..Len(CovTab("bragg")) : CovTab("bragg")[i_] = -1}} = NobleGases \cup {85}
\* o_ = [exc, vals (sequence of encoded values), fresh]
CovExpectedVals(c_) == IF c_.variant = "array" THEN <<CovTab(c_.cls)[c_.z + 1], CovTab(c_.cls)[2]>> ELSE <<CovTab(c_.cls)[c_.z + 1]>>
CovClause(c_, o_) ==
    IF c_.z = 0 \/ c_.cls \notin CovTypes
      THEN (IF o_.exc = "ValueError" THEN "ok" ELSE IF o_.exc = "" THEN "invalid-request-accepted" ELSE "raised:" \o o_.exc)
    ELSE IF o_.exc # "" THEN "raised:" \o o_.exc
    ELSE IF o_.vals # CovExpectedVals(c_) THEN "wrong-radius"
    ELSE IF ~o_.fresh THEN "result-shares-memory-with-the-table"
    ELSE "ok"

(***************************************************************************)
(* case enumeration (GSpec) and judging (JSpec)                            *)
(***************************************************************************)
Blocks == <<"save", "fp1", "fp2", "fp3", "fp4", "rgrid", "bragg", "cambridge", "alvarez", "nosuchtype">>
CasesOf(b_) == CASE b_ = "save" -> SaveCases
                 [] b_ = "fp1" -> FPCases(1) [] b_ = "fp2" -> FPCases(2) [] b_ = "fp3" -> FPCases(3) [] b_ = "fp4" -> FPCases(4)
                 [] b_ = "rgrid" -> RgCases
                 [] OTHER -> CovCases(b_)
AllCases == Force(UNION {CasesOf(Blocks[j_]) : j_ \in 1..Len(Blocks)})

VARIABLES tl_blk, tl_cur, tl_idx
tlvars == <<tl_blk, tl_cur, tl_idx>>
GInit == tl_blk = 0 /\ tl_cur = NoCase /\ tl_idx = 0
GNext == \/ /\ tl_blk = 0
            /\ \E j_ \in 1..Len(Blocks) : tl_blk' = j_
            /\ UNCHANGED <<tl_cur, tl_idx>>
         \/ /\ tl_blk # 0 /\ tl_cur = NoCase
            /\ \E c_ \in CasesOf(Blocks[tl_blk]) : tl_cur' = c_
            /\ UNCHANGED <<tl_blk, tl_idx>>
GSpec == GInit /\ [][GNext]_tlvars
Emit == tl_cur # NoCase => PrintT(<<"CASE", tl_cur>>)

JInit == GInit
JNext == /\ tl_idx < Len(Obs)
         /\ tl_idx' = tl_idx + 1
         /\ tl_cur' = Obs[tl_idx + 1].case
         /\ UNCHANGED tl_blk
JSpec == JInit /\ [][JNext]_tlvars

\* laws, evaluated on every case (both runs); the pure table laws once, in the initial state
TableLawsHold == (tl_cur = NoCase /\ tl_blk = 0) => (SaveLaws /\ RgLaws /\ CovLaws)
CaseLawsHold == tl_cur.part = "fp" => FPLaws(tl_cur)
\* the harness may only report cases of the enumeration
CaseKnown == tl_cur # NoCase => tl_cur \in AllCases

ClauseOf(c_, o_) == CASE c_.part = "save" -> SaveClause(c_, o_)
                      [] c_.part = "fp" -> FPClause(c_, o_)
                      [] c_.part = "rgrid" -> RgClause(c_, o_)
                      [] c_.part = "cov" -> CovClause(c_, o_)
                      [] OTHER -> "unknown-part"
\* class of a case (for the coverage tally of the judged observations)
ClassOf(c_) == CASE c_.part = "save" -> c_.cls
                 [] c_.part = "fp" -> (IF FPRejects(c_) THEN "reject" ELSE IF Len(c_.arr) % 2 = 1 THEN "odd" ELSE "even")
                 [] c_.part = "rgrid" -> c_.cls \o (IF c_.z \in RgKeys THEN ":listed" ELSE ":unlisted")
                 [] c_.part = "cov" -> (IF c_.cls \notin CovTypes THEN "badtype" ELSE IF c_.z = 0 THEN "zero"
                                        ELSE IF CovTab(c_.cls)[c_.z + 1] = -1 THEN c_.cls \o ":novalue" ELSE c_.cls \o ":value")
                 [] OTHER -> "?"
Judge == tl_idx > 0 =>
    /\ PrintT(<<"COV", tl_cur.part, ClassOf(tl_cur)>>)
    /\ (ClauseOf(tl_cur, Obs[tl_idx].out) = "ok" \/ PrintT(<<"MISMATCH", tl_idx, tl_cur.part, ClauseOf(tl_cur, Obs[tl_idx].out)>>))
=============================================================================
