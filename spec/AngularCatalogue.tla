-------------------------- MODULE AngularCatalogue --------------------------
(***************************************************************************)
(* Property C02: every angular quadrature that can be constructed is exact *)
(* to its advertised degree.                                               *)
(*                                                                         *)
(* What can be constructed is the CATALOGUE: one grid per row of the four  *)
(* degree tables of grid.angular (Tables_angular is generated from /repo   *)
(* at check time, with the listing of the data directories).  For the grid *)
(* (method, degree, size) the obligations are                              *)
(*                                                                         *)
(*   size      the grid has exactly `size` points and `size` weights,      *)
(*             and reports degree / size as advertised                     *)
(*   unit      every point has Euclidean norm 1                            *)
(*   (l, m)    SUM_i w_i Y_lm(p_i) = Expected(l, m) = sqrt(4 pi) [l = 0]   *)
(*             for every 0 <= l <= degree, -l <= m <= l                    *)
(*             (Y_lm as defined in Harmonics.tla)                          *)
(*                                                                         *)
(* TLC cannot evaluate the floating-point sums.  It owns everything else:  *)
(* the catalogue and its consistency laws, the obligation set and its size,*)
(* the expected values (emitted as Expr trees), the rule which grids a     *)
(* tier must discharge, and the ACCOUNTING: the harness hands back one     *)
(* record per discharged grid (Records) and TLC judges that every required *)
(* grid was discharged completely - (degree+1)^2 harmonic obligations, none*)
(* failed, integer observables as advertised.  Failures are printed as     *)
(* MISMATCH lines (one per grid) rather than stopping at the first.        *)
(***************************************************************************)
EXTENDS Expr, FiniteSets, TLC, Json, Tables_angular, Records_angular

\* Records_angular (generated) defines
\*   Tier     "quick" | "thorough" | "emit" (no records yet: only laws + emission)
\*   Extra    set of <<method, degree>> additionally selected by the harness (seeded 10 %)
\*   Rec      [method |-> sequence of records
\*               [degree, size, deg_attr, size_attr, npoints, nweights, unit_bad, nobl, nfail, nonfinite]]

Force(f_) == IF f_ = f_ THEN f_ ELSE f_

\* ---- catalogue -------------------------------------------------------------
NEntries(mt_) == Len(DegTab[mt_])
Entry(mt_, i_) == DegTab[mt_][i_]                    \* <<degree, size>>
CatalogueSet == UNION {{<<mt_, Entry(mt_, i_)[1], Entry(mt_, i_)[2]>> : i_ \in 1..NEntries(mt_)} : mt_ \in Methods}
FileName(mt_, d_, s_) == mt_ \o "_" \o ToString(d_) \o "_" \o ToString(s_)   \* + ".npz"

\* ---- obligations --------------------------------------------------------------
NHarmonic(d_) == (d_ + 1) * (d_ + 1)                  \* #{(l, m) : l <= d}
HarmonicObligations(d_) == {<<l_, m_>> \in (0..d_) \X (-d_..d_) : -l_ <= m_ /\ m_ <= l_}
Expected(l_, m_) == IF l_ = 0 THEN Sqrt(Bin("mul", CI(4), Pi)) ELSE CI(0)
RECURSIVE SumObl(_, _)
SumObl(mt_, i_) == IF i_ = 0 THEN 0 ELSE NHarmonic(Entry(mt_, i_)[1]) + SumObl(mt_, i_ - 1)

\* ---- which grids a tier must discharge -------------------------------------------
Required(mt_, i_) ==
    \/ Tier = "thorough"
    \/ Tier = "quick" /\ (\/ mt_ \in {"lebedev", "ahrens_beylkin"}
                          \/ i_ % 8 = 1
                          \/ <<mt_, Entry(mt_, i_)[1]>> \in Extra)

\* ---- static catalogue laws (evaluated in the initial state) -------------------------
VARIABLES ck, cmeth, cidx
cvars == <<ck, cmeth, cidx>>

Idle == ck = "idle"
\* every constructible grid has its data file, named by the rule the loader uses
EveryEntryHasItsFile == Idle => \A mt_ \in Methods : \A i_ \in 1..NEntries(mt_) : Entry(mt_, i_) \in FileSet[mt_]
\* a degree (and a size) identifies one grid of a method
DegreesAndSizesUnique ==
    Idle => \A mt_ \in Methods : \A i_, j_ \in 1..NEntries(mt_) :
               i_ # j_ => Entry(mt_, i_)[1] # Entry(mt_, j_)[1] /\ Entry(mt_, i_)[2] # Entry(mt_, j_)[2]
\* orphan files - named by no table - cannot be constructed and are outside the property;
\* they are reported, not judged
Orphans == UNION {{<<mt_, f_[1], f_[2]>> : f_ \in FileSet[mt_] \ {Entry(mt_, i_) : i_ \in 1..NEntries(mt_)}} : mt_ \in Methods}
SizesGrowWithDegrees ==
    Idle => \A mt_ \in Methods : \A i_, j_ \in 1..NEntries(mt_) :
               Entry(mt_, i_)[1] < Entry(mt_, j_)[1] => Entry(mt_, i_)[2] < Entry(mt_, j_)[2]
EntriesPositive == Idle => \A mt_ \in Methods : \A i_ \in 1..NEntries(mt_) : Entry(mt_, i_)[1] >= 0 /\ Entry(mt_, i_)[2] >= 1
\* records refer to catalogue entries only, at most one record per entry
RecordsAreCatalogued ==
    Idle /\ Tier # "emit" =>
        \A mt_ \in Methods :
            /\ \A k_ \in 1..Len(Rec[mt_]) : <<Rec[mt_][k_].degree, Rec[mt_][k_].size>> \in {Entry(mt_, i_) : i_ \in 1..NEntries(mt_)}
            /\ \A k_, j_ \in 1..Len(Rec[mt_]) : k_ # j_ => Rec[mt_][k_].degree # Rec[mt_][j_].degree

\* ---- accounting, one grid per state ------------------------------------------------
RecIndex == Force([mt_ \in Methods |-> [d_ \in {Rec[mt_][k_].degree : k_ \in 1..Len(Rec[mt_])} |->
                    CHOOSE k_ \in 1..Len(Rec[mt_]) : Rec[mt_][k_].degree = d_]])
HasRec(mt_, d_) == d_ \in DOMAIN RecIndex[mt_]
RecOf(mt_, d_) == Rec[mt_][RecIndex[mt_][d_]]

CInit == ck = "idle" /\ cmeth = "none" /\ cidx = 0
CPickMethod == /\ ck = "idle" /\ \E mt_ \in Methods : cmeth' = mt_
               /\ ck' = "method" /\ UNCHANGED cidx
CPickGrid == /\ ck = "method" /\ \E i_ \in 1..NEntries(cmeth) : cidx' = i_
             /\ ck' = "grid" /\ UNCHANGED cmeth
CNext == CPickMethod \/ CPickGrid
CSpec == CInit /\ [][CNext]_cvars

AtGrid == ck = "grid"
CurDeg == Entry(cmeth, cidx)[1]
CurSize == Entry(cmeth, cidx)[2]
Why(r_) ==   \* sequence of the failed clauses of a record
    (IF r_.deg_attr # CurDeg THEN <<"degree-attribute">> ELSE <<>>)
    \o (IF r_.size_attr # CurSize THEN <<"size-attribute">> ELSE <<>>)
    \o (IF r_.npoints # CurSize \/ r_.nweights # CurSize THEN <<"number-of-points">> ELSE <<>>)
    \o (IF r_.unit_bad # 0 THEN <<"unit-norm">> ELSE <<>>)
    \o (IF r_.nobl # NHarmonic(CurDeg) THEN <<"obligations-not-all-discharged">> ELSE <<>>)
    \o (IF r_.nfail # 0 \/ r_.nonfinite # 0 THEN <<"harmonic-integrals">> ELSE <<>>)
\* every required grid has a record (nothing skipped) ...
AllRequiredDischarged ==
    AtGrid /\ Tier # "emit" /\ Required(cmeth, cidx) =>
        HasRec(cmeth, CurDeg) \/ PrintT(<<"MISMATCH", cmeth, CurDeg, CurSize, FileName(cmeth, CurDeg, CurSize), <<"not-discharged">>>>)
\* ... and every record is complete and clean
RecordsClean ==
    AtGrid /\ Tier # "emit" /\ HasRec(cmeth, CurDeg) =>
        LET r_ == RecOf(cmeth, CurDeg) IN
        Why(r_) = <<>> \/ PrintT(<<"MISMATCH", cmeth, CurDeg, CurSize, FileName(cmeth, CurDeg, CurSize), Why(r_)>>)
\* the model's own bookkeeping: the harmonic obligation set of the current grid has the size
\* the accounting uses (checked by enumeration for the degrees where that is cheap)
ObligationCount ==
    AtGrid /\ CurDeg <= 40 => Cardinality(HarmonicObligations(CurDeg)) = NHarmonic(CurDeg)

\* ---- emission --------------------------------------------------------------------------
RECURSIVE EntrySeq(_, _)
EntrySeq(mt_, i_) == IF i_ > NEntries(mt_) THEN <<>>
    ELSE <<[method |-> mt_, index |-> i_, degree |-> Entry(mt_, i_)[1], size |-> Entry(mt_, i_)[2],
            file |-> FileName(mt_, Entry(mt_, i_)[1], Entry(mt_, i_)[2]),
            nharmonic |-> NHarmonic(Entry(mt_, i_)[1]),
            required_quick |-> (mt_ \in {"lebedev", "ahrens_beylkin"} \/ i_ % 8 = 1)]>> \o EntrySeq(mt_, i_ + 1)
RECURSIVE SetToSeqC(_)
SetToSeqC(S_) == IF S_ = {} THEN <<>> ELSE LET x_ == CHOOSE y_ \in S_ : TRUE IN <<x_>> \o SetToSeqC(S_ \ {x_})
CatalogueEmission ==
    [grids |-> [mt_ \in Methods |-> EntrySeq(mt_, 1)],
     expected_l0 |-> Expected(0, 0), expected_other |-> Expected(1, 0),
     total_harmonic_obligations |-> [mt_ \in Methods |-> SumObl(mt_, NEntries(mt_))],
     orphans |-> SetToSeqC(Orphans)]
ASSUME Tier # "emit" \/ JsonSerialize("catalogue.json", CatalogueEmission)
=============================================================================
