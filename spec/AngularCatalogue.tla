-------------------------- MODULE AngularCatalogue --------------------------
(***************************************************************************)
(* Property C02: every angular quadrature that can be constructed is exact *)
(* to its advertised degree.                                               *)
(*                                                                         *)
(* What can be constructed is the CATALOGUE: one grid per row of the four  *)
(* degree tables of grid.angular (Tables_angular is generated from /repo   *)
(* at check time, with the listing of the data directories).  For the grid *)
(* (method, degree, size) the obligations are                              *)
(*                                                                         *)
(*   size      the grid has exactly `size` points and `size` weights,      *)
(*             and reports degree / size as advertised                     *)
(*   unit      every point has Euclidean norm 1                            *)
(*   (l, m)    SUM_i w_i Y_lm(p_i) = Expected(l, m) = sqrt(4 pi) [l = 0]   *)
(*             for every 0 <= l <= degree, -l <= m <= l                    *)
(*             (Y_lm as defined in Harmonics.tla)                          *)
(*                                                                         *)
(* TLC cannot evaluate the floating-point sums.  It owns everything else:  *)
(* the catalogue and its consistency laws, the obligation set and its size,*)
(* the expected values (emitted as Expr trees), the rule which grids a     *)
(* tier must discharge, and the ACCOUNTING: the harness hands back one     *)
(* record per discharged grid (Records) and TLC judges that every required *)
(* grid was discharged completely - (degree+1)^2 harmonic obligations, none*)
(* failed, integer observables as advertised.  Failures are printed as     *)
(* MISMATCH lines (one per grid) rather than stopping at the first.        *)
(***************************************************************************)
EXTENDS Expr, FiniteSets, TLC, Json, Tables_angular, Records_angular

\* Records_angular (generated) defines
\*   Tier     "quick" | "thorough" | "emit" (no records yet: only laws + emission)
\*   Extra    set of <<method, degree>> additionally selected by the harness (seeded 10 %)
\*   Rec      [method |-> sequence of records
\*               [degree, size, deg_attr, size_attr, npoints, nweights, unit_bad, nobl, nfail, nonfinite,
\*                nint, nint_fail]]                  (nint.. : obligations discharged through Grid.integrate)
\*   Seed     VERIF_SEED (varies the "other" degree of the mixed degree / size call forms)
\*   DefaultDegree, DefaultMethod   defaults of the signature AngularGrid(degree=50, *, method="lebedev")
\*            (read from the signature at check time)
\*   RouteRec [method |-> sequence over the catalogue index of sequences of route records
\*               [form, status, deg_attr, size_attr, npoints, nweights, same, nobl, nfail, unit_bad]]

Force(f_) == IF f_ = f_ THEN f_ ELSE f_
RECURSIVE SetToSeqC(_)
SetToSeqC(S_) == IF S_ = {} THEN <<>> ELSE LET x_ == CHOOSE y_ \in S_ : TRUE IN <<x_>> \o SetToSeqC(S_ \ {x_})

\* ---- catalogue -------------------------------------------------------------
NEntries(mt_) == Len(DegTab[mt_])
Entry(mt_, i_) == DegTab[mt_][i_]                    \* <<degree, size>>
CatalogueSet == UNION {{<<mt_, Entry(mt_, i_)[1], Entry(mt_, i_)[2]>> : i_ \in 1..NEntries(mt_)} : mt_ \in Methods}
FileName(mt_, d_, s_) == mt_ \o "_" \o ToString(d_) \o "_" \o ToString(s_)   \* + ".npz"

\* ---- obligations --------------------------------------------------------------
NHarmonic(d_) == (d_ + 1) * (d_ + 1)                  \* #{(l, m) : l <= d}
HarmonicObligations(d_) == {<<l_, m_>> \in (0..d_) \X (-d_..d_) : -l_ <= m_ /\ m_ <= l_}
Expected(l_, m_) == IF l_ = 0 THEN Sqrt(Bin("mul", CI(4), Pi)) ELSE CI(0)
RECURSIVE SumObl(_, _)
SumObl(mt_, i_) == IF i_ = 0 THEN 0 ELSE NHarmonic(Entry(mt_, i_)[1]) + SumObl(mt_, i_ - 1)

\* ---- obligations on the grid's OWN integrate method ------------------------------------
\* "the grid integrates every real spherical harmonic": the harmonic obligations above are discharged on
\* (points, weights); the same linear functional is offered as AngularGrid.integrate(values).  It is
\* linear in the weights, so agreement on a spanning handful of rows decides whether it is the functional
\* SUM_i w_i f(p_i): all (l, m) with l <= min(degree, 2) for every grid, and the complete top row
\* l = degree where tabulating that row is cheap (size * (2 degree + 1) <= IntCap values).
IntCap == 400000
MinI(a_, b_) == IF a_ <= b_ THEN a_ ELSE b_
IntegrateDegrees(d_, s_) == (0..MinI(d_, 2)) \cup (IF s_ * (2 * d_ + 1) <= IntCap THEN {d_} ELSE {})
RECURSIVE SumRows(_)
SumRows(S_) == IF S_ = {} THEN 0 ELSE LET l_ == CHOOSE x_ \in S_ : TRUE IN (2 * l_ + 1) + SumRows(S_ \ {l_})
NIntegrate(d_, s_) == SumRows(IntegrateDegrees(d_, s_))

\* ---- which grids a tier must discharge -------------------------------------------
Required(mt_, i_) ==
    \/ Tier = "thorough"
    \/ Tier = "quick" /\ (\/ mt_ \in {"lebedev", "ahrens_beylkin"}
                          \/ i_ % 8 = 1
                          \/ <<mt_, Entry(mt_, i_)[1]>> \in Extra)

\* ---- static catalogue laws (evaluated in the initial state) -------------------------
VARIABLES ck, cmeth, cidx
cvars == <<ck, cmeth, cidx>>

Idle == ck = "idle"
\* every constructible grid has its data file, named by the rule the loader uses
EveryEntryHasItsFile == Idle => \A mt_ \in Methods : \A i_ \in 1..NEntries(mt_) : Entry(mt_, i_) \in FileSet[mt_]
\* a degree (and a size) identifies one grid of a method
DegreesAndSizesUnique ==
    Idle => \A mt_ \in Methods : \A i_, j_ \in 1..NEntries(mt_) :
               i_ # j_ => Entry(mt_, i_)[1] # Entry(mt_, j_)[1] /\ Entry(mt_, i_)[2] # Entry(mt_, j_)[2]
\* orphan files - named by no table - cannot be constructed and are outside the property;
\* they are reported, not judged
Orphans == UNION {{<<mt_, f_[1], f_[2]>> : f_ \in FileSet[mt_] \ {Entry(mt_, i_) : i_ \in 1..NEntries(mt_)}} : mt_ \in Methods}
SizesGrowWithDegrees ==
    Idle => \A mt_ \in Methods : \A i_, j_ \in 1..NEntries(mt_) :
               Entry(mt_, i_)[1] < Entry(mt_, j_)[1] => Entry(mt_, i_)[2] < Entry(mt_, j_)[2]
EntriesPositive == Idle => \A mt_ \in Methods : \A i_ \in 1..NEntries(mt_) : Entry(mt_, i_)[1] >= 0 /\ Entry(mt_, i_)[2] >= 1
\* records refer to catalogue entries only, at most one record per entry
RecordsAreCatalogued ==
    Idle /\ Tier # "emit" =>
        \A mt_ \in Methods :
            /\ \A k_ \in 1..Len(Rec[mt_]) : <<Rec[mt_][k_].degree, Rec[mt_][k_].size>> \in {Entry(mt_, i_) : i_ \in 1..NEntries(mt_)}
            /\ \A k_, j_ \in 1..Len(Rec[mt_]) : k_ # j_ => Rec[mt_][k_].degree # Rec[mt_][j_].degree

\* ---- accounting, one grid per state ------------------------------------------------
RecIndex == Force([mt_ \in Methods |-> [d_ \in {Rec[mt_][k_].degree : k_ \in 1..Len(Rec[mt_])} |->
                    CHOOSE k_ \in 1..Len(Rec[mt_]) : Rec[mt_][k_].degree = d_]])
HasRec(mt_, d_) == d_ \in DOMAIN RecIndex[mt_]
RecOf(mt_, d_) == Rec[mt_][RecIndex[mt_][d_]]

CInit == ck = "idle" /\ cmeth = "none" /\ cidx = 0
CPickMethod == /\ ck = "idle" /\ \E mt_ \in Methods : cmeth' = mt_
               /\ ck' = "method" /\ UNCHANGED cidx
CPickGrid == /\ ck = "method" /\ \E i_ \in 1..NEntries(cmeth) : cidx' = i_
             /\ ck' = "grid" /\ UNCHANGED cmeth
CNext == CPickMethod \/ CPickGrid
CSpec == CInit /\ [][CNext]_cvars

AtGrid == ck = "grid"
CurDeg == Entry(cmeth, cidx)[1]
CurSize == Entry(cmeth, cidx)[2]
Why(r_) ==   \* sequence of the failed clauses of a record
    (IF r_.deg_attr # CurDeg THEN <<"degree-attribute">> ELSE <<>>)
    \o (IF r_.size_attr # CurSize THEN <<"size-attribute">> ELSE <<>>)
    \o (IF r_.npoints # CurSize \/ r_.nweights # CurSize THEN <<"number-of-points">> ELSE <<>>)
    \o (IF r_.unit_bad # 0 THEN <<"unit-norm">> ELSE <<>>)
    \o (IF r_.nobl # NHarmonic(CurDeg) THEN <<"obligations-not-all-discharged">> ELSE <<>>)
    \o (IF r_.nfail # 0 \/ r_.nonfinite # 0 THEN <<"harmonic-integrals">> ELSE <<>>)
    \o (IF r_.nint # NIntegrate(CurDeg, CurSize) THEN <<"integrate-obligations-not-all-discharged">> ELSE <<>>)
    \o (IF r_.nint_fail # 0 THEN <<"integrate-method">> ELSE <<>>)
\* every required grid has a record (nothing skipped) ...
AllRequiredDischarged ==
    AtGrid /\ Tier # "emit" /\ Required(cmeth, cidx) =>
        HasRec(cmeth, CurDeg) \/ PrintT(<<"MISMATCH", cmeth, CurDeg, CurSize, FileName(cmeth, CurDeg, CurSize), <<"not-discharged">>>>)
\* ... and every record is complete and clean
RecordsClean ==
    AtGrid /\ Tier # "emit" /\ HasRec(cmeth, CurDeg) =>
        LET r_ == RecOf(cmeth, CurDeg) IN
        Why(r_) = <<>> \/ PrintT(<<"MISMATCH", cmeth, CurDeg, CurSize, FileName(cmeth, CurDeg, CurSize), Why(r_)>>)
\* the model's own bookkeeping: the harmonic obligation set of the current grid has the size
\* the accounting uses (checked by enumeration for the degrees where that is cheap)
ObligationCount ==
    AtGrid /\ CurDeg <= 40 => Cardinality(HarmonicObligations(CurDeg)) = NHarmonic(CurDeg)

\* ---- emission --------------------------------------------------------------------------
RECURSIVE EntrySeq(_, _)
EntrySeq(mt_, i_) == IF i_ > NEntries(mt_) THEN <<>>
    ELSE <<[method |-> mt_, index |-> i_, degree |-> Entry(mt_, i_)[1], size |-> Entry(mt_, i_)[2],
            file |-> FileName(mt_, Entry(mt_, i_)[1], Entry(mt_, i_)[2]),
            nharmonic |-> NHarmonic(Entry(mt_, i_)[1]),
            integrate_degrees |-> SetToSeqC(IntegrateDegrees(Entry(mt_, i_)[1], Entry(mt_, i_)[2])),
            required_quick |-> (mt_ \in {"lebedev", "ahrens_beylkin"} \/ i_ % 8 = 1)]>> \o EntrySeq(mt_, i_ + 1)
CatalogueEmission ==
    [grids |-> [mt_ \in Methods |-> EntrySeq(mt_, 1)],
     expected_l0 |-> Expected(0, 0), expected_other |-> Expected(1, 0),
     total_harmonic_obligations |-> [mt_ \in Methods |-> SumObl(mt_, NEntries(mt_))],
     orphans |-> SetToSeqC(Orphans)]
ASSUME Tier # "emit" \/ JsonSerialize("catalogue.json", CatalogueEmission)

\* ---- construction routes ---------------------------------------------------------------------
\* "every angular quadrature that can be constructed": the catalogue entry (method, degree) is reached by
\* many call forms of AngularGrid(degree=50, *, size=None, cache=True, method="lebedev") and in many states
\* of the module-level caches.  A ROUTE CASE is a short history of constructor calls, the last of which is
\* observed.  The generator below names, for the entry i of a method (degree d, size s, predecessor
\* d0 / s0 in the table), the histories that must hand out that entry by the documented resolution rule
\* (smallest supported degree >= request; smallest supported size >= request; size wins over degree;
\* the method name is case-folded; numpy integers are integers).
\*
\* What C02 demands of the grid g a route hands out is judged on g's OWN advertisement:
\*   advertised-pair   <<g.degree, g.size>> is an entry of the method's table
\*   number-of-points  g has g.size points and weights
\*   exactness         g is, bit for bit, the canonical grid AngularGrid(degree=g.degree, method) that the
\*                     harmonic obligations are discharged on (same = TRUE), or else the harness discharged
\*                     the unit-norm and harmonic obligations on g itself (nobl of them, none failed)
\* A call the constructor REJECTS with ValueError constructs nothing (status "rejected"); any other exception
\* is a failed construction.  Which entry a request resolves to is C12's law: a route that lands on another
\* entry than the generator expects is only NOTEd here.
OptC(b_, x_) == IF b_ THEN <<x_>> ELSE <<>>
PrevDeg(mt_, i_) == IF i_ = 1 THEN -1 ELSE Entry(mt_, i_ - 1)[1]
PrevSize(mt_, i_) == IF i_ = 1 THEN -1 ELSE Entry(mt_, i_ - 1)[2]
MaxDeg(mt_) == Entry(mt_, NEntries(mt_))[1]
MaxSize(mt_) == Entry(mt_, NEntries(mt_))[2]
\* smallest numpy integer type that holds the value (unsigned first: arithmetic on it wraps earliest)
SmallNp(v_) == IF v_ <= 255 THEN "uint8" ELSE IF v_ <= 32767 THEN "int16" ELSE IF v_ <= 65535 THEN "uint16" ELSE "int32"
\* one constructor call.  degree / size: -1 = argument omitted, -2 = None, else the value, passed as
\* dtype / stype ("int", a numpy integer type, "0d" = 0-dimensional integer array, "float");
\* method "" = argument omitted; spell = how the method name is written; edit = the caller modifies the
\* arrays of the returned grid in place afterwards (its own data: later grids must not notice)
Call0 == [method |-> "", spell |-> "lower", degree |-> -1, dtype |-> "int", positional |-> FALSE,
          size |-> -1, stype |-> "int", cache |-> "omit", edit |-> FALSE]
ByDeg(mt_, v_) == [Call0 EXCEPT !.method = mt_, !.degree = v_]
BySize(mt_, v_) == [Call0 EXCEPT !.method = mt_, !.size = v_]
\* forms the documented interface does not admit (not integers): rejecting them (ValueError or TypeError) is expected
MayReject(f_) == f_ \in {"degree-0d-array", "degree-float"}
Case(f_, pre_, c_) == [form |-> f_, pre |-> pre_, call |-> c_, may_reject |-> MayReject(f_)]
OtherMethods(mt_) == SetToSeqC(Methods \ {mt_})
RECURSIVE OthersByDeg(_, _)
OthersByDeg(ms_, d_) == IF ms_ = <<>> THEN <<>>
    ELSE OptC(d_ <= MaxDeg(Head(ms_)), ByDeg(Head(ms_), d_)) \o OthersByDeg(Tail(ms_), d_)
RECURSIVE OthersBySize(_, _)
OthersBySize(ms_, s_) == IF ms_ = <<>> THEN <<>>
    ELSE OptC(s_ <= MaxSize(Head(ms_)), BySize(Head(ms_), s_)) \o OthersBySize(Tail(ms_), s_)
\* some other entry of the same method (varies with the seed), for the mixed degree + size forms
OtherIndex(mt_, i_) == LET n_ == NEntries(mt_)
                           j_ == ((i_ + 7 * Seed + 2) % n_) + 1
                       IN IF j_ # i_ THEN j_ ELSE (j_ % n_) + 1
RouteCases(mt_, i_) ==
    LET d_ == Entry(mt_, i_)[1]
        s_ == Entry(mt_, i_)[2]
        d0_ == PrevDeg(mt_, i_)
        s0_ == PrevSize(mt_, i_)
        od_ == Entry(mt_, OtherIndex(mt_, i_))[1]
        canon_ == ByDeg(mt_, d_)
        bysz_ == BySize(mt_, s_)
    IN  \* ---- the request is the degree itself
        << Case("degree", <<>>, canon_),
           Case("degree-nocache", <<>>, [canon_ EXCEPT !.cache = "false"]),
           Case("degree-cache-true", <<>>, [canon_ EXCEPT !.cache = "true"]),
           Case("degree-positional", <<>>, [canon_ EXCEPT !.positional = TRUE]),
           Case("degree-warm", <<canon_>>, canon_),
           Case("degree-warm-twice", <<canon_, canon_>>, canon_),
           Case("degree-after-nocache", <<[canon_ EXCEPT !.cache = "false"]>>, canon_),
           Case("degree-nocache-after-warm", <<canon_>>, [canon_ EXCEPT !.cache = "false"]),
           Case("degree-after-edit", <<[canon_ EXCEPT !.edit = TRUE]>>, canon_),
           Case("degree-after-edit-of-second", <<canon_, [canon_ EXCEPT !.edit = TRUE]>>, canon_),
           Case("degree-after-edit-nocache", <<[canon_ EXCEPT !.edit = TRUE, !.cache = "false"]>>, canon_),
           Case("degree-after-other-methods", OthersByDeg(OtherMethods(mt_), d_), canon_),
           Case("degree-after-neighbours", OptC(i_ > 1, ByDeg(mt_, Entry(mt_, IF i_ > 1 THEN i_ - 1 ELSE 1)[1]))
                                           \o OptC(i_ < NEntries(mt_), ByDeg(mt_, Entry(mt_, IF i_ < NEntries(mt_) THEN i_ + 1 ELSE i_)[1])),
                canon_),
           Case("degree-np-small", <<>>, [canon_ EXCEPT !.dtype = SmallNp(d_)]),
           Case("degree-np-int64", <<>>, [canon_ EXCEPT !.dtype = "int64"]),
           Case("degree-np-warm", <<canon_>>, [canon_ EXCEPT !.dtype = "int64"]),
           Case("degree-after-np", <<[canon_ EXCEPT !.dtype = SmallNp(d_)]>>, canon_),
           Case("degree-0d-array", <<>>, [canon_ EXCEPT !.dtype = "0d"]),
           Case("degree-float", <<>>, [canon_ EXCEPT !.dtype = "float"]),
           Case("method-upper", <<>>, [canon_ EXCEPT !.spell = "upper"]),
           Case("method-title", <<>>, [canon_ EXCEPT !.spell = "title"]),
           Case("method-swapcase-warm", <<canon_>>, [canon_ EXCEPT !.spell = "mixed"]),
           Case("method-upper-by-size", <<>>, [bysz_ EXCEPT !.spell = "upper"]),
           \* ---- the request is the size
           Case("size", <<>>, bysz_),
           Case("size-degree-none", <<>>, [bysz_ EXCEPT !.degree = -2]),
           Case("size-nocache", <<>>, [bysz_ EXCEPT !.cache = "false"]),
           Case("size-warm", <<canon_>>, bysz_),
           Case("size-warm-by-size", <<bysz_>>, bysz_),
           Case("degree-warm-by-size", <<bysz_>>, canon_),
           Case("size-after-edit", <<[bysz_ EXCEPT !.edit = TRUE]>>, bysz_),
           Case("size-after-other-methods", OthersBySize(OtherMethods(mt_), s_), bysz_),
           Case("size-np-small", <<>>, [bysz_ EXCEPT !.stype = SmallNp(s_)]),
           Case("size-np-int64", <<>>, [bysz_ EXCEPT !.stype = "int64"]),
           \* size wins over a degree given with it (of another entry, as int and as the same number)
           Case("size-with-other-degree", <<>>, [bysz_ EXCEPT !.degree = od_]),
           Case("size-with-other-degree-positional", <<>>, [bysz_ EXCEPT !.degree = od_, !.positional = TRUE]),
           Case("size-with-other-degree-warm", <<ByDeg(mt_, od_)>>, [bysz_ EXCEPT !.degree = od_]),
           Case("size-with-own-degree", <<>>, [bysz_ EXCEPT !.degree = d_]) >>
        \* ---- requests strictly between two supported values round up to this entry
        \o OptC(d0_ + 1 < d_, Case("degree-lowest-request", <<>>, ByDeg(mt_, d0_ + 1)))
        \o OptC(d0_ + 1 < d_, Case("degree-lowest-request-warm", <<canon_>>, ByDeg(mt_, d0_ + 1)))
        \o OptC(d0_ + 1 < d_, Case("degree-lowest-request-first", <<ByDeg(mt_, d0_ + 1)>>, canon_))
        \o OptC(d0_ + 2 < d_, Case("degree-just-below", <<>>, ByDeg(mt_, d_ - 1)))
        \o OptC(d0_ + 1 < d_, Case("degree-lowest-request-np", <<>>, [ByDeg(mt_, d0_ + 1) EXCEPT !.dtype = SmallNp(d0_ + 1)]))
        \o OptC(s0_ + 1 < s_, Case("size-lowest-request", <<>>, BySize(mt_, s0_ + 1)))
        \o OptC(s0_ + 1 < s_, Case("size-lowest-request-warm", <<canon_>>, BySize(mt_, s0_ + 1)))
        \o OptC(s0_ + 2 < s_, Case("size-just-below", <<>>, BySize(mt_, s_ - 1)))
        \o OptC(s0_ + 1 < s_, Case("size-lowest-request-np", <<>>, [BySize(mt_, s0_ + 1) EXCEPT !.stype = SmallNp(s0_ + 1)]))
        \* ---- defaults of the signature
        \o OptC(mt_ = DefaultMethod, Case("method-omitted", <<>>, [canon_ EXCEPT !.method = ""]))
        \o OptC(mt_ = DefaultMethod, Case("method-omitted-by-size", <<>>, [bysz_ EXCEPT !.method = ""]))
        \o OptC(d0_ < DefaultDegree /\ DefaultDegree <= d_, Case("degree-omitted", <<>>, [canon_ EXCEPT !.degree = -1]))
        \o OptC(d0_ < DefaultDegree /\ DefaultDegree <= d_, Case("degree-omitted-warm", <<canon_>>, [canon_ EXCEPT !.degree = -1]))
        \o OptC(d0_ < DefaultDegree /\ DefaultDegree <= d_ /\ mt_ = DefaultMethod,
                Case("all-omitted", <<>>, Call0))
        \o OptC(d0_ < DefaultDegree /\ DefaultDegree <= d_ /\ mt_ = DefaultMethod,
                Case("all-omitted-nocache", <<>>, [Call0 EXCEPT !.cache = "false"]))
RECURSIVE RouteSeq(_, _)
RouteSeq(mt_, i_) == IF i_ > NEntries(mt_) THEN <<>> ELSE <<RouteCases(mt_, i_)>> \o RouteSeq(mt_, i_ + 1)
RouteEmission == [mt_ \in Methods |-> RouteSeq(mt_, 1)]
ASSUME Tier # "emit" \/ JsonSerialize("routes.json", RouteEmission)

\* ---- judging the route records (one grid per state, like the accounting above) -------------------
PairSetOf == Force([mt_ \in Methods |-> {Entry(mt_, i_) : i_ \in 1..NEntries(mt_)}])
HasRoutes == Tier # "emit" /\ Len(RouteRec[cmeth]) >= cidx
CurRoutes == RouteRec[cmeth][cidx]
RouteWhy(c_, r_) ==
    IF r_.form # c_.form THEN <<"record-is-of-another-case">>
    ELSE IF r_.status = "error" THEN <<"construction-failed">>
    ELSE IF r_.status = "rejected" THEN <<>>
    ELSE (IF <<r_.deg_attr, r_.size_attr>> \notin PairSetOf[cmeth] THEN <<"advertised-pair-not-in-catalogue">> ELSE <<>>)
      \o (IF r_.npoints # r_.size_attr \/ r_.nweights # r_.size_attr THEN <<"number-of-points">> ELSE <<>>)
      \o (IF ~r_.same /\ r_.unit_bad # 0 THEN <<"unit-norm">> ELSE <<>>)
      \o (IF ~r_.same /\ r_.nfail # 0 THEN <<"harmonic-integrals">> ELSE <<>>)
\* things worth telling that are no violation of C02
RouteNote(c_, r_) ==
    IF r_.form # c_.form \/ r_.status = "error" THEN <<>>
    ELSE IF r_.status = "rejected" THEN (IF MayReject(c_.form) THEN <<>> ELSE <<"rejected">>)
    ELSE (IF r_.deg_attr # CurDeg THEN <<"resolved-to-another-entry">> ELSE <<>>)
      \o (IF MayReject(c_.form) THEN <<"accepted-a-non-integer">> ELSE <<>>)
      \o (IF ~r_.same /\ r_.nobl = 0 THEN <<"differs-from-canonical-and-could-not-be-judged">> ELSE <<>>)
      \o (IF ~r_.same /\ r_.nfail = 0 /\ r_.unit_bad = 0 /\ r_.nobl > 0
             /\ <<r_.deg_attr, r_.size_attr>> \in PairSetOf[cmeth] /\ r_.nobl < NHarmonic(r_.deg_attr)
          THEN <<"differs-from-canonical-partly-judged">> ELSE <<>>)
      \o (IF ~r_.same /\ r_.nfail = 0 /\ r_.unit_bad = 0 /\ r_.nobl > 0
             /\ <<r_.deg_attr, r_.size_attr>> \in PairSetOf[cmeth] /\ r_.nobl >= NHarmonic(r_.deg_attr)
          THEN <<"differs-from-canonical-but-exact">> ELSE <<>>)
\* every route case of every grid was run (both tiers run all of them) ...
AllRoutesRun ==
    AtGrid /\ Tier # "emit" =>
        (HasRoutes /\ Len(CurRoutes) = Len(RouteCases(cmeth, cidx)))
        \/ PrintT(<<"MISMATCH", cmeth, CurDeg, CurSize, FileName(cmeth, CurDeg, CurSize), <<"routes-not-all-run">>>>)
\* ... and handed out a grid that meets the obligations of what it advertises
RoutesClean ==
    AtGrid /\ HasRoutes /\ Len(CurRoutes) = Len(RouteCases(cmeth, cidx)) =>
        LET cs_ == RouteCases(cmeth, cidx) IN
        \A k_ \in 1..Len(cs_) :
            /\ RouteWhy(cs_[k_], CurRoutes[k_]) = <<>>
               \/ PrintT(<<"ROUTE", cmeth, CurDeg, CurSize, FileName(cmeth, CurDeg, CurSize), cs_[k_].form, RouteWhy(cs_[k_], CurRoutes[k_])>>)
            /\ RouteNote(cs_[k_], CurRoutes[k_]) = <<>>
               \/ PrintT(<<"RNOTE", cmeth, CurDeg, CurSize, FileName(cmeth, CurDeg, CurSize), cs_[k_].form, RouteNote(cs_[k_], CurRoutes[k_])>>)
\* the generator's own laws: the canonical call comes first, form names are unique per grid, and every
\* request lies in the interval of requests the resolution rule maps to this entry
RouteGeneratorLaws ==
    AtGrid =>
        LET cs_ == RouteCases(cmeth, cidx) IN
        /\ cs_[1].form = "degree" /\ cs_[1].pre = <<>> /\ cs_[1].call = ByDeg(cmeth, CurDeg)
        /\ \A k_, j_ \in 1..Len(cs_) : k_ # j_ => cs_[k_].form # cs_[j_].form
        /\ \A k_ \in 1..Len(cs_) :
              LET c_ == cs_[k_].call IN
              /\ c_.method \in {cmeth, ""} /\ (c_.method = "" => cmeth = DefaultMethod)
              /\ IF c_.size >= 0 THEN PrevSize(cmeth, cidx) < c_.size /\ c_.size <= CurSize
                 ELSE LET q_ == IF c_.degree = -1 THEN DefaultDegree ELSE c_.degree IN
                      PrevDeg(cmeth, cidx) < q_ /\ q_ <= CurDeg
\* a grid can be named by its size as well: the size table must describe the same catalogue
SizeTableNamesTheSameCatalogue ==
    Idle => \A mt_ \in Methods :
               {<<SizeTab[mt_][k_][2], SizeTab[mt_][k_][1]>> : k_ \in 1..Len(SizeTab[mt_])} = PairSetOf[mt_]
\* the resolution rule walks the tables in order: they must be sorted
TablesSortedByDegree ==
    Idle => \A mt_ \in Methods : \A i_ \in 1..NEntries(mt_) - 1 : Entry(mt_, i_)[1] < Entry(mt_, i_ + 1)[1]
=============================================================================
