----------------------------- MODULE ErrorPaths -----------------------------
(***************************************************************************)
(* X01 - error paths are part of the model.                                *)
(*                                                                         *)
(* For every public entry point `op` of the library listed in Ops this     *)
(* module gives                                                            *)
(*   Dom(op)        the abstract arguments: a finite set of records whose  *)
(*                  fields are exactly the attributes the validation of    *)
(*                  the entry point depends on (lengths, numbers of        *)
(*                  dimensions, signs, option names from a small set with  *)
(*                  one unsupported name, None / given flags, dtype class);*)
(*   Clauses(op, a) the validation of the entry point as an ORDERED list   *)
(*                  of clauses [cond, cls, rule]: the first clause whose   *)
(*                  condition holds decides that the call raises and the   *)
(*                  class of the exception (validation code is sequential, *)
(*                  so the order is part of the contract: it decides the   *)
(*                  class when two checks fail together).  `rule` names    *)
(*                  the file:line of /repo/src/grid the clause was read    *)
(*                  from.  cls = "*" means "raises, class not documented"  *)
(*                  (the failure is implicit: NumPy / Python raises it).   *)
(*   Rejects(op, a) == some clause fires.                                  *)
(*   Pure(op)       an ACCEPTED call leaves the receiver unchanged too.    *)
(*                                                                         *)
(* The enumerator below visits every (op, a); TLC checks the laws of the   *)
(* table itself (every clause is the deciding one for some argument, every *)
(* op has accepted arguments, arguments the docstring calls valid are      *)
(* accepted) and prints one CASE line per pair.  The harness builds one    *)
(* concrete call per CASE, observes the real code and hands the            *)
(* observations back; ErrorPathsJudge judges them against this module.     *)
(***************************************************************************)
EXTENDS Integers, Sequences, FiniteSets, TLC

VE == "ValueError"
TE == "TypeError"
IE == "IndexError"
ZE == "ZeroDivisionError"
NI == "NotImplementedError"
ANY == "*"
Classes == {VE, TE, IE, ZE, NI, ANY}

C(cond_, cls_, rule_) == [cond |-> cond_, cls |-> cls_, rule |-> rule_]

\* ---- shapes ------------------------------------------------------------------------------
\* an array of `n_` rows with `d_` dimensions and (for d_ >= 2) `c_` columns
Shape(n_, d_, c_) == IF d_ = 1 THEN <<n_>> ELSE IF d_ = 2 THEN <<n_, c_>> ELSE <<n_, c_, c_>>

(***************************************************************************)
(* grid.basegrid                                                           *)
(***************************************************************************)
\* Grid(points, weights): np/nw = len(points)/len(weights), pd/wd = points.ndim/weights.ndim
Dom_Grid_new == [np : 0..2, nw : 0..2, pd : 1..3, wd : 1..2]
Cl_Grid_new(a_) == <<
    C(a_.np # a_.nw, VE, "basegrid.py:46 len(points) != len(weights)"),
    C(a_.wd # 1, VE, "basegrid.py:51 weights.ndim != 1"),
    C(a_.pd \notin {1, 2}, VE, "basegrid.py:53 points.ndim not in [1, 2]") >>
\* docstring: points (N,) or (N, M), weights (N,)
Valid_Grid_new(a_) == a_.np = a_.nw /\ a_.wd = 1 /\ a_.pd \in {1, 2}

\* grid.points = value on a grid whose points have `pd` dimensions, 3 rows (2 columns);
\* the value has vn rows, vd dimensions, vc columns
Dom_Grid_points_set == [pd : 1..2, vn : 2..4, vd : 1..3, vc : 2..3]
Cl_Grid_points_set(a_) == <<
    C(Shape(a_.vn, a_.vd, a_.vc) # Shape(3, a_.pd, 2), VE, "basegrid.py:69 value.shape != points.shape") >>
Valid_Grid_points_set(a_) == Shape(a_.vn, a_.vd, a_.vc) = Shape(3, a_.pd, 2)

\* grid.weights = value (3 points)
Dom_Grid_weights_set == [vn : 2..4, vd : 1..2]
Cl_Grid_weights_set(a_) == <<
    C(Shape(a_.vn, a_.vd, 1) # <<3>>, VE, "basegrid.py:85 value.shape != weights.shape") >>
Valid_Grid_weights_set(a_) == a_.vn = 3 /\ a_.vd = 1

\* grid.integrate(*arrays): the kinds of the arrays in call order
\*   "ok" ndarray (N,)   "list" a list of N floats   "shortlist" a list of N-1 floats (the type is checked first)
\*   "short" ndarray (N-1,)   "col" ndarray (N, 1)
IntKinds == {"ok", "list", "shortlist", "short", "col"}
Dom_Grid_integrate == [ks : UNION {[1..n_ -> IntKinds] : n_ \in 0..2}]
FirstBad(ks_) == IF \E i_ \in 1..Len(ks_) : ks_[i_] # "ok"
                 THEN ks_[CHOOSE i_ \in 1..Len(ks_) : ks_[i_] # "ok" /\ \A j_ \in 1..i_ - 1 : ks_[j_] = "ok"]
                 ELSE "ok"
Cl_Grid_integrate(a_) == <<
    C(Len(a_.ks) = 0, VE, "basegrid.py:135 no array given"),
    C(FirstBad(a_.ks) \in {"list", "shortlist"}, TE, "basegrid.py:138 argument is not a numpy array"),
    C(FirstBad(a_.ks) \in {"short", "col"}, VE, "basegrid.py:140 array.shape != (size,)") >>
Valid_Grid_integrate(a_) == Len(a_.ks) >= 1 /\ \A i_ \in 1..Len(a_.ks) : a_.ks[i_] = "ok"

\* grid.get_localgrid(center, radius) on Grid (1-D flat points / 2-D points), OneDGrid, AtomGrid:
\*   cs: "match" (shape points.shape[1:]), "long" (one more component), "mat" (a 1 x M matrix)
\*   r:  "pos", "zero", "inf", "neg", "neginf", "nan"
CenterKinds == {"match", "long", "mat"}
RadiusKinds == {"pos", "zero", "inf", "neg", "neginf", "nan"}
Dom_Grid_get_localgrid == [cls : {"Grid1", "Grid2", "OneDGrid", "AtomGrid"}, cs : CenterKinds, r : RadiusKinds]
Cl_Grid_get_localgrid(a_) == <<
    C(a_.cs # "match", VE, "basegrid.py:170 center.shape != points.shape[1:]"),
    C(a_.r \in {"neg", "neginf"}, VE, "basegrid.py:175 radius < 0"),
    C(a_.r = "nan", VE, "basegrid.py:177 radius neither finite nor +inf") >>
Valid_Grid_get_localgrid(a_) == a_.cs = "match" /\ a_.r \in {"pos", "zero", "inf"}

\* grid[i] for an integer i (Python int or NumPy integer) on 3 points
Dom_Grid_getitem == [cls : {"Grid", "OneDGrid", "PeriodicGrid"}, ik : {"int", "npint"}, i : (-5)..4]
Cl_Grid_getitem(a_) == <<
    C(a_.i < -3 \/ a_.i >= 3, IE, "basegrid.py:111,474 periodicgrid.py:361 points[index] out of range") >>
Valid_Grid_getitem(a_) == 0 <= a_.i /\ a_.i < 3

\* grid.moments(orders, centers, func_vals, type_mom) on a 3-D grid of N points:
\*   fd = func_vals.ndim, fl = "N" / "short" (len(func_vals)), cd = centers.ndim, cc = centers.shape[-1],
\*   tm = type_mom, ord = 0 / 1 / 2 given as ot = "int" (Python int), "npint" (numpy.int64) or "float" (0.0, 1.0, 2.0)
MomTypes == {"cartesian", "radial", "pure", "pure-radial", "bogus"}
Dom_Grid_moments == [fd : 1..2, fl : {"N", "short"}, cd : 1..3, cc : 2..3, tm : MomTypes, ord : 0..2,
                     ot : {"int", "npint", "float"}]
Cl_Grid_moments(a_) == <<
    C(a_.fd > 1, VE, "basegrid.py:253 func_vals.ndim > 1"),
    C(a_.cd # 2, VE, "basegrid.py:255 centers.ndim != 2"),
    C(a_.cc # 3, VE, "basegrid.py:259 dimension of centers != dimension of points"),
    C(a_.fl # "N", VE, "basegrid.py:264 len(func_vals) != number of points"),
    C(a_.tm = "pure-radial" /\ a_.ord = 0, VE, "basegrid.py:269 pure-radial with orders = 0"),
    C(a_.ot = "float", TE, "basegrid.py:279 orders is not an integer"),
    C(a_.tm = "bogus", VE, "utils.py:972 unknown type of moments") >>
Valid_Grid_moments(a_) ==
    a_.fd = 1 /\ a_.fl = "N" /\ a_.cd = 2 /\ a_.cc = 3 /\ a_.tm # "bogus" /\ a_.ot = "int"
    /\ ~(a_.tm = "pure-radial" /\ a_.ord = 0)

\* LocalGrid(points (np, 3), weights (nw,), center, indices): ni = 0 for indices = None else len(indices)
Dom_LocalGrid_new == [np : 1..2, nw : 1..2, ni : 0..2, idim : 1..2]
Cl_LocalGrid_new(a_) == <<
    C(a_.ni # 0 /\ a_.ni # a_.np, VE, "basegrid.py:370 len(points) != len(indices)"),
    C(a_.ni # 0 /\ a_.idim # 1, VE, "basegrid.py:375 indices.ndim != 1"),
    C(a_.np # a_.nw, VE, "basegrid.py:46 len(points) != len(weights) (Grid.__init__)") >>
Valid_LocalGrid_new(a_) == a_.np = a_.nw /\ (a_.ni = 0 \/ (a_.ni = a_.np /\ a_.idim = 1))

\* OneDGrid(points, weights, domain) with points 1.0, 2.0:
\*   pd = points.ndim, nw = len(weights), dl = 0 (domain None) or len(domain),
\*   ord = order of the two bounds, lo / hi = position of the bound relative to the extreme point:
\*   "out" (leaves room), "slack" (cuts the point off by 5e-8 < 1e-7), "cut" (cuts the point off by 0.25)
Dom_OneDGrid_new == [pd : 1..2, nw : 1..3, dl : 0..3, ord : {"asc", "desc"}, lo : {"out", "slack", "cut"},
                     hi : {"out", "slack", "cut"}]
Cl_OneDGrid_new(a_) == <<
    C(a_.pd # 1, VE, "basegrid.py:432 points.ndim != 1"),
    C(a_.dl \in {1, 3} \/ (a_.dl = 2 /\ a_.ord = "desc"), VE, "basegrid.py:437 domain not an ascending pair"),
    C(a_.dl = 2 /\ a_.lo = "cut", VE, "basegrid.py:442 a point lies below the domain"),
    C(a_.dl = 2 /\ a_.hi = "cut", VE, "basegrid.py:447 a point lies above the domain"),
    C(a_.nw # 2, VE, "basegrid.py:46 len(points) != len(weights) (Grid.__init__)") >>
Valid_OneDGrid_new(a_) == a_.pd = 1 /\ a_.nw = 2 /\ (a_.dl = 0 \/ (a_.dl = 2 /\ a_.ord = "asc" /\ a_.lo = "out" /\ a_.hi = "out"))

\* grid.save(filename): the directory of the file exists or not (np.savez raises OSError)
Dom_Grid_save == [cls : {"Grid", "LocalGrid", "AtomGrid"}, dir : {"exists", "missing"}]
Cl_Grid_save(a_) == << C(a_.dir = "missing", ANY, "basegrid.py:348,409 atomgrid.py:364 np.savez cannot create the file") >>
Valid_Grid_save(a_) == a_.dir = "exists"

(***************************************************************************)
(* grid.angular                                                            *)
(***************************************************************************)
AngMethods == {"lebedev", "spherical", "maxdet", "ahrens_beylkin"}
\* spellings the constructor accepts: it lower-cases the name first (angular.py:410)
Lower(m_) == CASE m_ = "Lebedev" -> "lebedev" [] m_ = "MAXDET" -> "maxdet" [] OTHER -> m_
\* a degree / size request: None, -1, 0, a small value, the largest tabulated value, one more, 5.0 (a float)
ReqKinds == {"none", "neg", "zero", "mid", "max", "over", "float"}
Dom_AngularGrid_new == [deg : ReqKinds, size : ReqKinds, meth : AngMethods \cup {"Lebedev", "MAXDET", "bogus"},
                        cache : BOOLEAN]
\* "If size is provided, degree is ignored" (angular.py:376, :427-434)
EffDeg(a_) == IF a_.size # "none" THEN "none" ELSE a_.deg
Cl_AngularGrid_new(a_) == <<
    C(Lower(a_.meth) \notin AngMethods, VE, "angular.py:421 method not supported"),
    C(EffDeg(a_) \in {"neg", "float"}, VE, "angular.py:552 degree not a non-negative integer"),
    C(a_.size \in {"neg", "float"}, VE, "angular.py:554 size not a non-negative integer"),
    C(EffDeg(a_) = "over", VE, "angular.py:567 degree above the largest tabulated degree"),
    C(a_.size = "over", VE, "angular.py:578 size above the largest tabulated size"),
    C(EffDeg(a_) = "none" /\ a_.size = "none", VE, "angular.py:586 neither degree nor size") >>
Valid_AngularGrid_new(a_) ==
    /\ a_.meth \in AngMethods
    /\ \/ a_.size \in {"zero", "mid", "max"}
       \/ a_.size = "none" /\ a_.deg \in {"zero", "mid", "max"}
\* the module-level cache of the method gains exactly one entry when a grid is built with cache=True from an
\* empty cache, and none otherwise ("cache: If True, then store the points and weights", angular.py:381)
CacheGain_AngularGrid_new(a_, rejected_) == IF ~rejected_ /\ a_.cache THEN 1 ELSE 0

\* AngularGrid.convert_angular_sizes_to_degrees(sizes, method): n sizes, the last one of kind sk (the others
\* "mid"); the method name is NOT lower-cased here and an empty `sizes` is never validated: both left out
Dom_AngularGrid_convert == [n : 1..2, sk : ReqKinds \ {"none"}, meth : AngMethods \cup {"bogus"}]
Cl_AngularGrid_convert(a_) == <<
    C(a_.meth \notin AngMethods, VE, "angular.py:546 method not supported"),
    C(a_.sk \in {"neg", "float"}, VE, "angular.py:554 size not a non-negative integer"),
    C(a_.sk = "over", VE, "angular.py:578 size above the largest tabulated size") >>
Valid_AngularGrid_convert(a_) == a_.meth \in AngMethods /\ a_.sk \in {"zero", "mid", "max"}

(***************************************************************************)
(* grid.atomgrid                                                           *)
(***************************************************************************)
\* the radial grid argument: "ok" OneDGrid on (0, inf); "nodomain" OneDGrid without domain, points >= 0;
\* "notgrid" an ndarray; "negdomain" OneDGrid on (-1, 1) with positive points; "negpoints" OneDGrid without
\* domain and a negative point
RgKinds == {"ok", "nodomain", "notgrid", "negdomain", "negpoints"}
\* center: None, (3,), (4,)
CenKinds == {"none", "ok", "long"}
\* rotate: 0, a small positive seed, -1, 2^32, 1.0
RotKinds == {"zero", "pos", "neg", "huge", "float"}
\* AtomGrid._input_type_check (atomgrid.py:835-843), shared by the constructor and the two class methods
Cl_InputCheck(rg_, cen_) == <<
    C(rg_ = "notgrid", TE, "atomgrid.py:836 rgrid is not a OneDGrid"),
    C(rg_ = "negdomain", TE, "atomgrid.py:838 rgrid.domain[0] < 0"),
    C(rg_ = "negpoints", TE, "atomgrid.py:840 smallest radial point is negative"),
    C(cen_ = "long", VE, "atomgrid.py:842 center.shape != (3,)") >>
Cl_Rotate(rot_) == <<
    C(rot_ = "float", TE, "atomgrid.py:104 rotate is not an integer"),
    C(rot_ \in {"neg", "huge"}, VE, "atomgrid.py:106 rotate outside [0, 2^32 - len(rgrid))") >>

\* AtomGrid(rgrid, degrees | sizes=..., center=, rotate=, method=) - the front part: rgrid, center, rotate, and a
\* tail that is fine ("ok"), not a list / array ("tuple") or of the wrong length ("badlen"), to pin the precedence
Dom_AtomGrid_new == [rg : RgKinds, cen : CenKinds, rot : RotKinds, tail : {"ok", "tuple", "badlen"}]
Cl_AtomGrid_new(a_) ==
    Cl_InputCheck(a_.rg, a_.cen) \o Cl_Rotate(a_.rot) \o <<
    C(a_.tail = "tuple", TE, "atomgrid.py:123 degrees is neither a list nor an array"),
    C(a_.tail = "badlen", VE, "atomgrid.py:889 len(degrees) != number of radial points") >>
Valid_AtomGrid_new(a_) == a_.rg \in {"ok", "nodomain"} /\ a_.cen # "long" /\ a_.rot \in {"zero", "pos"} /\ a_.tail = "ok"

\* ... and the shells part (valid rgrid of 3 points, center, rotate): which of degrees / sizes is given (`how`), as
\* what (`seq`: list, array, tuple, None), how many entries (n = 1, 2, 3), the kind of the LAST entry (`el`, the
\* others "mid"), the method.  The spelling "Lebedev" is left to the degrees route: the sizes route hands the
\* name to the converter without lower-casing it (atomgrid.py:121 vs :134), see the report.
Dom_AtomGrid_shells == {x_ \in [how : {"degrees", "sizes"}, seq : {"list", "array", "tuple", "none"}, n : 1..3,
                               el : ReqKinds \ {"none"}, meth : {"lebedev", "spherical", "Lebedev", "bogus"}] :
                          ~(x_.how = "sizes" /\ x_.meth = "Lebedev")}
Cl_AtomGrid_shells(a_) == <<
    C(a_.how = "sizes" /\ a_.seq = "tuple", TE, "atomgrid.py:119 sizes is neither a list nor an array"),
    C(a_.how = "sizes" /\ a_.seq # "none" /\ a_.meth = "bogus", VE, "angular.py:546 method not supported (converter)"),
    C(a_.how = "sizes" /\ a_.seq # "none" /\ a_.el \in {"neg", "float"}, VE, "angular.py:554 size not a non-negative integer"),
    C(a_.how = "sizes" /\ a_.seq # "none" /\ a_.el = "over", VE, "angular.py:578 size above the largest tabulated size"),
    C(a_.seq \in {"tuple", "none"}, TE, "atomgrid.py:123 degrees is neither a list nor an array"),
    C(a_.n = 2, VE, "atomgrid.py:889 len(degrees) != number of radial points"),
    C(a_.meth = "bogus", VE, "angular.py:421 method not supported (AngularGrid of a shell)"),
    C(a_.el \in {"neg", "float"}, VE, "angular.py:552 degree not a non-negative integer"),
    C(a_.el = "over", VE, "angular.py:567 degree above the largest tabulated degree") >>
Valid_AtomGrid_shells(a_) ==
    a_.seq \in {"list", "array"} /\ a_.n \in {1, 3} /\ a_.el \in {"zero", "mid", "max"} /\ a_.meth \in AngMethods

\* AtomGrid.from_preset(atnum, preset, rgrid, center, rotate, method):
\*   atnum "H" (default radial grid and preset data exist), "At" (85: preset data, no default radial grid),
\*   "Nd" (60: neither);  preset "coarse" / "bogus";  rg as above or "none" (build the default radial grid)
Dom_AtomGrid_from_preset == [atnum : {"H", "At", "Nd"}, preset : {"coarse", "bogus"},
                             rg : RgKinds \cup {"none"}, cen : {"none", "long"},
                             meth : {"lebedev", "bogus"}, rot : {"zero", "neg", "float"}]
Cl_AtomGrid_from_preset(a_) ==
    << C(a_.rg = "none" /\ a_.atnum # "H", VE, "atomgrid.py:212 no default radial grid for the atomic number") >>
    \o Cl_InputCheck(a_.rg, a_.cen) \o <<
    C(a_.preset = "bogus", ANY, "atomgrid.py:218 np.load: no data file of that preset"),
    C(a_.atnum = "Nd", ANY, "atomgrid.py:220 the preset has no entry for the atomic number"),
    C(a_.meth = "bogus", VE, "angular.py:546 method not supported (converter)") >>
    \o Cl_Rotate(a_.rot)
Valid_AtomGrid_from_preset(a_) ==
    a_.preset = "coarse" /\ a_.cen = "none" /\ a_.meth = "lebedev" /\ a_.rot = "zero"
    /\ ((a_.rg = "none" /\ a_.atnum = "H") \/ (a_.rg \in {"ok", "nodomain"} /\ a_.atnum # "Nd"))

\* AtomGrid.from_pruned(rgrid, radius, r_sectors, d_sectors | s_sectors=, center=, rotate=, method=):
\*   nr = len(r_sectors), nd = len of the degree / size sectors (0: None), how = "d" / "s", el = kind of the last
\*   sector entry
Dom_AtomGrid_from_pruned == [rg : RgKinds, cen : {"none", "long"}, nr : 1..2, nd : 0..3, how : {"d", "s"},
                             el : {"mid", "neg", "over", "float"}, meth : {"lebedev", "bogus"}, rot : {"zero", "neg", "float"}]
Cl_AtomGrid_from_pruned(a_) == <<
    C(a_.how = "s" /\ a_.nd # 0 /\ a_.meth = "bogus", VE, "angular.py:546 method not supported (converter, atomgrid.py:315)"),
    C(a_.how = "s" /\ a_.nd # 0 /\ a_.el \in {"neg", "float"}, VE, "angular.py:554 size not a non-negative integer"),
    C(a_.how = "s" /\ a_.nd # 0 /\ a_.el = "over", VE, "angular.py:578 size above the largest tabulated size") >>
    \o Cl_InputCheck(a_.rg, a_.cen) \o <<
    C(a_.nd = 0, ANY, "atomgrid.py:876 len() of d_sectors = None (docstring: then s_sectors should be given)"),
    C(a_.nd - a_.nr # 1, VE, "atomgrid.py:876 len(d_sectors) != len(r_sectors) + 1"),
    C(a_.meth = "bogus", VE, "angular.py:546 method not supported"),
    C(a_.el \in {"neg", "float"}, VE, "angular.py:552 degree not a non-negative integer"),
    C(a_.el = "over", VE, "angular.py:567 degree above the largest tabulated degree") >>
    \o Cl_Rotate(a_.rot)
Valid_AtomGrid_from_pruned(a_) ==
    a_.rg \in {"ok", "nodomain"} /\ a_.cen = "none" /\ a_.nd = a_.nr + 1 /\ a_.el = "mid" /\ a_.meth = "lebedev" /\ a_.rot = "zero"

\* atgrid.get_shell_grid(index, r_sq) on 3 shells
Dom_AtomGrid_get_shell_grid == [i : (-2)..4, ik : {"int", "npint"}, rsq : BOOLEAN]
Cl_AtomGrid_get_shell_grid(a_) == <<
    C(a_.i < 0 \/ a_.i >= 3, VE, "atomgrid.py:400 index outside [0, number of radial points)") >>
Valid_AtomGrid_get_shell_grid(a_) == 0 <= a_.i /\ a_.i < 3

\* atgrid.integrate_angular_coordinates(func_vals) / spherical_average(func_vals): length of the last axis is
\* N, N - 1 or N + 1 (a length of 1 broadcasts silently: left out), fd = func_vals.ndim
Dom_AtomGrid_integrate_angular == [meth : {"integrate_angular_coordinates", "spherical_average"}, fl : {"N", "short", "long"}, fd : 1..2]
Cl_AtomGrid_integrate_angular(a_) == <<
    C(a_.fl # "N", ANY, "atomgrid.py:481 func_vals * self.weights: last axis is not the grid size") ,
    C(a_.meth = "spherical_average" /\ a_.fd = 2, ANY, "atomgrid.py:529 CubicSpline of a (K, M) array over M radial points")>>
Valid_AtomGrid_integrate_angular(a_) == a_.fl = "N" /\ (a_.fd = 1 \/ a_.meth = "integrate_angular_coordinates")

\* atgrid.interpolate(func_vals) with a 1-D array of N, N - 1, N + 1 or 0 values, on a grid whose harmonics basis is
\* not built yet ("fresh") or already built ("warm")
Dom_AtomGrid_interpolate == [fl : {"N", "short", "long", "empty"}, state : {"fresh", "warm"}]
Cl_AtomGrid_interpolate(a_) == <<
    C(a_.fl # "N", VE, "atomgrid.py:604 func_vals.size != grid size") >>
Valid_AtomGrid_interpolate(a_) == a_.fl = "N"

\* the callable returned by interpolate: f(points, deriv, deriv_spherical, only_radial_deriv)
Dom_AtomGrid_interpolate_call == [deriv : 0..3, sph : BOOLEAN, rad : BOOLEAN]
Cl_AtomGrid_interpolate_call(a_) == <<
    C(~a_.rad /\ a_.deriv \notin {0, 1}, VE, "atomgrid.py:745 higher derivatives only with respect to the radius") >>
Valid_AtomGrid_interpolate_call(a_) == a_.rad \/ a_.deriv \in {0, 1}

(***************************************************************************)
(* grid.rtransform                                                         *)
(***************************************************************************)
\* constructors: T(p1, p2, p3) with small integers (converted to floats; p3 is the integer parameter k / m).
\*   LinearInfinite(rmin, rmax)  Exp(rmin, rmax)  Power(rmin, rmax)  Hyperbolic(a, b)  Knowles(rmin, R, k)
\*   Handy(rmin, R, m)  HandyMod(rmin, rmax, m)  Becke(rmin, R)  MultiExp(rmin, R)  LinearFinite(rmin, rmax)
\* Left out (code and message disagree): Exp with rmin = 0 (accepted; "need to be positive"), HandyMod with
\* rmax = rmin (accepted; "rmax needs to be greater than rmin").
TfClasses == {"LinearInfinite", "Exp", "Power", "Hyperbolic", "Knowles", "Handy", "HandyMod", "Becke", "MultiExp",
              "LinearFinite"}
Dom_RTransform_new == {x_ \in [cls : TfClasses, p1 : (-1)..2, p2 : (-1)..2, p3 : (-1)..1] :
                         /\ ~(x_.cls = "Exp" /\ x_.p1 = 0)
                         /\ ~(x_.cls = "HandyMod" /\ x_.p1 = x_.p2)}
Cl_RTransform_new(a_) == <<
    C(a_.cls = "LinearInfinite" /\ a_.p1 >= a_.p2, VE, "rtransform.py:824 rmin >= rmax"),
    C(a_.cls = "Exp" /\ (a_.p1 < 0 \/ a_.p2 < 0), VE, "rtransform.py:989 rmin < 0 or rmax < 0"),
    C(a_.cls = "Exp" /\ a_.p1 >= a_.p2, VE, "rtransform.py:991 rmin >= rmax"),
    C(a_.cls = "Power" /\ a_.p1 >= a_.p2, VE, "rtransform.py:1162 rmin >= rmax"),
    C(a_.cls = "Power" /\ (a_.p1 <= 0 \/ a_.p2 <= 0), VE, "rtransform.py:1164 rmin <= 0 or rmax <= 0"),
    C(a_.cls = "Hyperbolic" /\ a_.p1 <= 0, VE, "rtransform.py:1340 a <= 0"),
    C(a_.cls = "Hyperbolic" /\ a_.p2 <= 0, VE, "rtransform.py:1342 b <= 0"),
    C(a_.cls = "Knowles" /\ a_.p3 <= 0, VE, "rtransform.py:1651 k <= 0"),
    C(a_.cls = "Handy" /\ a_.p3 <= 0, VE, "rtransform.py:1833 m <= 0"),
    C(a_.cls = "HandyMod" /\ a_.p3 <= 0, VE, "rtransform.py:2021 m <= 0"),
    C(a_.cls = "HandyMod" /\ a_.p2 < a_.p1, VE, "rtransform.py:2024 rmax < rmin") >>
\* documented: only k > 0 / m > 0 ("integer k > 0"); the other constraints are stated by the error messages only
Valid_RTransform_new(a_) ==
    CASE a_.cls \in {"Becke", "MultiExp", "LinearFinite"} -> TRUE
      [] a_.cls \in {"Knowles", "Handy"} -> a_.p3 > 0
      [] a_.cls = "HandyMod" -> a_.p3 > 0 /\ a_.p1 < a_.p2
      [] a_.cls = "Hyperbolic" -> a_.p1 > 0 /\ a_.p2 > 0
      [] a_.cls = "LinearInfinite" -> a_.p1 < a_.p2
      [] OTHER -> 0 < a_.p1 /\ a_.p1 < a_.p2

\* InverseRTransform(transform)
Dom_InverseRTransform_new == [arg : {"transform", "inverse", "onedgrid", "none"}]
Cl_InverseRTransform_new(a_) == <<
    C(a_.arg \in {"onedgrid", "none"}, TE, "rtransform.py:540 argument is not a transform") >>
Valid_InverseRTransform_new(a_) == a_.arg \in {"transform", "inverse"}

\* BeckeRTransform.find_parameter(array, rmin, radius)
Dom_Becke_find_parameter == [rmin : 0..2, radius : 0..2, n : 1..4]
Cl_Becke_find_parameter(a_) == << C(a_.rmin > a_.radius, VE, "rtransform.py:277 rmin > radius") >>
Valid_Becke_find_parameter(a_) == a_.rmin <= a_.radius

\* tf.transform_1d_grid(oned_grid): the domain of the transformation is [-1, 1] or [0, inf) (inf written 9);
\* the argument is an ndarray ("notgrid") or a OneDGrid with domain [lo, hi].  Grids without a domain are left
\* out: the code subscripts None (TypeError) although it later provides for "new_domain is not None".
TfDomain(cls_) == IF cls_ \in {"Becke", "LinearFinite", "MultiExp", "Knowles", "Handy", "HandyMod"} THEN <<-1, 1>> ELSE <<0, 9>>
Dom_RTransform_transform_1d_grid ==
    {x_ \in [cls : TfClasses \cup {"Identity"}, g : {"grid", "notgrid"}, lo : (-2)..0, hi : {1, 2, 9}] :
        \* accepted grids must lie where the transformation is regular (the transformed grid is a OneDGrid again)
        /\ (x_.g = "notgrid" => x_.lo = 0 /\ x_.hi = 1)}
Cl_RTransform_transform_1d_grid(a_) == <<
    C(a_.g = "notgrid", TE, "rtransform.py:160 argument is not a OneDGrid"),
    C(a_.lo < TfDomain(a_.cls)[1] \/ a_.hi > TfDomain(a_.cls)[2], VE, "rtransform.py:163 grid domain not inside the domain of the transformation") >>
Valid_RTransform_transform_1d_grid(a_) ==
    a_.g = "grid" /\ a_.lo >= TfDomain(a_.cls)[1] /\ a_.hi <= TfDomain(a_.cls)[2]

\* HyperbolicRTransform(a, b = q/4).transform / deriv / deriv2 / deriv3 (x of n points): b (n - 1) >= 1 is rejected
Dom_Hyperbolic_transform == [meth : {"transform", "deriv", "deriv2", "deriv3"}, n : 1..5, q : 1..2]
Cl_Hyperbolic_transform(a_) == <<
    C(a_.q * (a_.n - 1) >= 4, VE, "rtransform.py:1378,1397,1417,1437 b (npoint - 1) >= 1") >>
Valid_Hyperbolic_transform(a_) == a_.q * (a_.n - 1) < 4

\* LinearInfinite / Exp / Power .transform(x) with the scale b given to the constructor or to be taken from the
\* first array ("none"); x positive or all zeros: a zero maximum cannot serve as scale
Dom_Scaled_transform == [cls : {"LinearInfinite", "Exp", "Power"}, b : {"none", "given"}, x : {"positive", "zeros"}]
Cl_Scaled_transform(a_) == <<
    C(a_.b = "none" /\ a_.x = "zeros", VE, "rtransform.py:851,1018,1181 maximum of the grid is zero") >>
Valid_Scaled_transform(a_) == a_.x = "positive"

(***************************************************************************)
(* grid.molgrid (a molecule of two atoms)                                  *)
(***************************************************************************)
\* MolGrid(atnums, atgrids, aim_weights, store): aim_weights is a callable, an array of the grid size, an array
\* one short, a list, or None
Dom_MolGrid_new == [aw : {"callable", "array", "short", "list", "none"}, store : BOOLEAN]
Cl_MolGrid_new(a_) == <<
    C(a_.aw = "short", VE, "molgrid.py:93 aim_weights.size != grid size"),
    C(a_.aw \in {"list", "none"}, TE, "molgrid.py:100 aim_weights neither callable nor array") >>
Valid_MolGrid_new(a_) == a_.aw \in {"callable", "array"}

\* MolGrid.from_preset(atnums, atcoords, preset, rgrid): cd = atcoords.ndim, na = len(atnums) (two coordinate rows),
\* rg / pre = how the radial grid / the preset is given ("bogus": a str naming no preset)
Dom_MolGrid_from_preset == [cd : 1..3, na : 1..3, rg : {"none", "onedgrid", "list", "dict", "tuple"},
                            pre : {"str", "list", "dict", "tuple", "bogus"}]
Cl_MolGrid_from_preset(a_) == <<
    C(a_.cd # 2, VE, "molgrid.py:346 atcoords.ndim != 2"),
    C(a_.na # 2, VE, "molgrid.py:350 len(atnums) != number of coordinate rows"),
    C(a_.rg = "tuple", TE, "molgrid.py:370 unsupported type of rgrid"),
    C(a_.pre = "tuple", TE, "molgrid.py:379 unsupported type of preset"),
    C(a_.pre = "bogus", ANY, "atomgrid.py:218 np.load: no data file of that preset") >>
Valid_MolGrid_from_preset(a_) == a_.cd = 2 /\ a_.na = 2 /\ a_.rg # "tuple" /\ a_.pre \in {"str", "list", "dict"}

\* MolGrid.from_size(atnums, atcoords, size, rgrid): atoms "H" (default radial grid exists) / "Nd" (none)
Dom_MolGrid_from_size == [size : {"mid", "neg", "over", "float"}, rg : {"none", "ok", "notgrid"}, atnum : {"H", "Nd"}]
Cl_MolGrid_from_size(a_) == <<
    C(a_.rg = "none" /\ a_.atnum = "Nd", VE, "molgrid.py:645 no default radial grid for the atomic number"),
    C(a_.rg = "notgrid", TE, "atomgrid.py:836 rgrid is not a OneDGrid"),
    C(a_.size \in {"neg", "float"}, VE, "angular.py:554 size not a non-negative integer"),
    C(a_.size = "over", VE, "angular.py:578 size above the largest tabulated size") >>
Valid_MolGrid_from_size(a_) == a_.size = "mid" /\ (a_.rg = "ok" \/ (a_.rg = "none" /\ a_.atnum = "H"))

\* MolGrid.from_pruned(atnums, atcoords, radius, r_sectors, d_sectors | s_sectors=, rgrid=): sec = how the angular
\* sectors are given: one integer, one list per atom, or a list for one atom only ("short")
Dom_MolGrid_from_pruned == [cd : 1..3, na : 1..3, how : {"d", "s"}, sec : {"int", "lists", "short"},
                            rg : {"none", "onedgrid", "list", "dict", "tuple"}]
Cl_MolGrid_from_pruned(a_) == <<
    C(a_.cd # 2, VE, "molgrid.py:503 atcoords.ndim != 2"),
    C(a_.na # 2, VE, "molgrid.py:507 atnums.size != number of coordinate rows"),
    C(a_.sec = "short", VE, "molgrid.py:530,535 one list of angular sectors per atom"),
    C(a_.rg = "tuple", TE, "molgrid.py:552 unsupported type of rgrid") >>
Valid_MolGrid_from_pruned(a_) == a_.cd = 2 /\ a_.na = 2 /\ a_.sec # "short" /\ a_.rg # "tuple"

\* molgrid.get_atomic_grid(index) / molgrid[index] (two atoms).  Negative indices of molgrid[...] are left out:
\* with store=False they are accepted and answer with an empty or a wrong LocalGrid (C07's known finding on store).
Dom_MolGrid_get_atomic_grid == [i : (-2)..3, store : BOOLEAN]
Cl_MolGrid_get_atomic_grid(a_) == <<
    C(a_.i < 0, VE, "molgrid.py:585 index < 0"),
    C(a_.i >= 2, IE, "molgrid.py:588,590 index beyond the last atom") >>
Valid_MolGrid_get_atomic_grid(a_) == 0 <= a_.i /\ a_.i < 2
Dom_MolGrid_getitem == [i : 0..3, store : BOOLEAN]
Cl_MolGrid_getitem(a_) == << C(a_.i >= 2, IE, "molgrid.py:609,616 index beyond the last atom") >>
Valid_MolGrid_getitem(a_) == a_.i < 2

(***************************************************************************)
(* grid.periodicgrid                                                       *)
(***************************************************************************)
\* PeriodicGrid(points, weights, realvecs, wrap): pd = points.ndim (2-D points have two columns);
\*   rv: "none", "match" (pd = 1: one number; pd = 2: two independent vectors), "ndim" (the other number of
\*   dimensions), "cols" (three columns), "many" (three vectors), "singular" (two parallel vectors)
\* 1-D points with "cols" / "many" / "singular" are left out (no column count to compare; a zero or a two-element
\* 1-D lattice "vector" is not validated)
Dom_PeriodicGrid_new == {x_ \in [pd : 1..2, rv : {"none", "match", "ndim", "cols", "many", "singular"}, wrap : BOOLEAN,
                                nw : {"N", "short"}] : x_.pd = 1 => x_.rv \in {"none", "match", "ndim"}}
Cl_PeriodicGrid_new(a_) == <<
    C(a_.rv = "ndim", VE, "periodicgrid.py:250 points.ndim != realvecs.ndim"),
    C(a_.rv = "cols", VE, "periodicgrid.py:255 different number of columns"),
    C(a_.rv = "many", VE, "periodicgrid.py:262 more lattice vectors than dimensions"),
    C(a_.rv = "singular", VE, "periodicgrid.py:278 singular cell vectors"),
    C(a_.nw = "short", VE, "basegrid.py:46 len(points) != len(weights) (Grid.__init__)") >>
Valid_PeriodicGrid_new(a_) == a_.rv \in {"none", "match"} /\ a_.nw = "N"

\* periodicgrid.get_localgrid(center, radius) on a grid WITH lattice vectors (an infinite radius would need
\* infinitely many images)
Dom_PeriodicGrid_get_localgrid == [pd : 1..2, cs : CenterKinds, r : RadiusKinds]
Cl_PeriodicGrid_get_localgrid(a_) == <<
    C(a_.cs # "match", VE, "periodicgrid.py:392 center.shape != points.shape[1:]"),
    C(a_.r \in {"nan", "inf", "neginf"}, VE, "periodicgrid.py:397 radius not finite"),
    C(a_.r = "neg", VE, "periodicgrid.py:399 radius < 0") >>
Valid_PeriodicGrid_get_localgrid(a_) == a_.cs = "match" /\ a_.r \in {"pos", "zero"}

(***************************************************************************)
(* grid.cubic                                                              *)
(***************************************************************************)
\* Tensor1DGrids(oned_x, oned_y, oned_z): each a OneDGrid or an ndarray (z may be None); `one` = the axis whose
\* grid has a single point
Dom_Tensor1DGrids_new == [x : {"grid", "array"}, y : {"grid", "array"}, z : {"none", "grid", "array"},
                          one : {"none", "x", "y", "z"}]
Cl_Tensor1DGrids_new(a_) == <<
    C(a_.x = "array", TE, "cubic.py:344 oned_x is not a OneDGrid"),
    C(a_.y = "array", TE, "cubic.py:348 oned_y is not a OneDGrid"),
    C(a_.z = "array", TE, "cubic.py:352 oned_z is neither a OneDGrid nor None"),
    C(a_.one \in {"x", "y"} \/ (a_.one = "z" /\ a_.z = "grid"), VE, "cubic.py:54 fewer than two points along an axis") >>
Valid_Tensor1DGrids_new(a_) == a_.x = "grid" /\ a_.y = "grid" /\ a_.z # "array" /\ (a_.one = "none" \/ (a_.one = "z" /\ a_.z = "none"))

\* UniformGrid(origin, axes, shape, weight): ot / at / st = array or list; osz = origin.size; ssz / ash = shape.size /
\* axes.shape fits the origin or not; det = axes independent or not; sh = every count >= 2, a zero, a one
Dom_UniformGrid_new == [ot : {"array", "list"}, at : {"array", "list"}, st : {"array", "list"}, osz : 2..4,
                        ssz : {"match", "other"}, ash : {"match", "other"}, det : {"ok", "singular"},
                        sh : {"pos", "zero", "one"}, weight : {"Trapezoid", "Rectangle", "bogus"}]
Cl_UniformGrid_new(a_) == <<
    C(a_.ot = "list", TE, "cubic.py:529 origin is not an array"),
    C(a_.at = "list", TE, "cubic.py:531 axes is not an array"),
    C(a_.st = "list", TE, "cubic.py:533 shape is not an array"),
    C(a_.osz = 4, VE, "cubic.py:535 origin.size not 2 or 3"),
    C(a_.ssz = "other", VE, "cubic.py:537 shape.size != origin.size"),
    C(a_.ash = "other", VE, "cubic.py:539 axes.shape != (origin.size, origin.size)"),
    C(a_.det = "singular", VE, "cubic.py:543 axes linearly dependent"),
    C(a_.sh = "zero", VE, "cubic.py:547 a non-positive number of points"),
    C(a_.weight = "bogus", VE, "cubic.py:919 unknown weight scheme"),
    C(a_.sh = "one", VE, "cubic.py:54 fewer than two points along an axis") >>
Valid_UniformGrid_new(a_) ==
    a_.ot = "array" /\ a_.at = "array" /\ a_.st = "array" /\ a_.osz \in {2, 3} /\ a_.ssz = "match" /\ a_.ash = "match"
    /\ a_.det = "ok" /\ a_.sh = "pos" /\ a_.weight # "bogus"

\* UniformGrid.from_molecule(atcorenums, atcoords, spacing, extension, rotate, weight)
Dom_UniformGrid_from_molecule == [rotate : BOOLEAN, weight : {"Trapezoid", "Rectangle", "bogus"}]
Cl_UniformGrid_from_molecule(a_) == << C(a_.weight = "bogus", VE, "cubic.py:919 unknown weight scheme") >>
Valid_UniformGrid_from_molecule(a_) == a_.weight # "bogus"

\* UniformGrid.from_cube(fname, weight, return_data)
Dom_UniformGrid_from_cube == [ext : {"cube", "txt"}, exists : BOOLEAN, weight : {"Trapezoid", "bogus"}, data : BOOLEAN]
Cl_UniformGrid_from_cube(a_) == <<
    C(a_.ext # "cube", VE, "cubic.py:708 file name does not end with .cube"),
    C(~a_.exists, ANY, "cubic.py:710 open: no such file"),
    C(a_.weight = "bogus", VE, "cubic.py:919 unknown weight scheme") >>
Valid_UniformGrid_from_cube(a_) == a_.ext = "cube" /\ a_.exists /\ a_.weight # "bogus"

(***************************************************************************)
(* grid.ngrid                                                              *)
(***************************************************************************)
\* MultiDomainGrid(grid_list, num_domains): gl = None, a tuple of grids, [], one grid, two grids, a list with a
\* non-grid; nd = None, 0, 2, -1, 2.0  (num_domains = 1 left out: accepted, "must be ... greater than 1")
Dom_MultiDomainGrid_new == [gl : {"none", "tuple", "empty", "one", "two", "mixed"}, nd : {"none", "zero", "two", "neg", "float"}]
Cl_MultiDomainGrid_new(a_) == <<
    C(a_.gl \in {"none", "tuple"}, VE, "ngrid.py:89 grid_list is not a list"),
    C(a_.gl = "empty", VE, "ngrid.py:91 empty list"),
    C(a_.gl = "mixed", VE, "ngrid.py:93 an element is not a Grid"),
    C(a_.nd # "none" /\ a_.gl = "two", VE, "ngrid.py:96 num_domains needs exactly one grid"),
    C(a_.nd \in {"zero", "neg", "float"}, VE, "ngrid.py:98 num_domains not a positive integer") >>
Valid_MultiDomainGrid_new(a_) == (a_.gl \in {"one", "two"} /\ a_.nd = "none") \/ (a_.gl = "one" /\ a_.nd = "two")

\* methods of a MultiDomainGrid of two grids: the two unsupported ones; integrate with an integrand that returns
\* one value per point of the last grid ("ok") or one value too few ("short")
Dom_MultiDomainGrid_method == [meth : {"get_localgrid", "moments", "integrate"}, f : {"ok", "short"}]
Cl_MultiDomainGrid_method(a_) == <<
    C(a_.meth = "get_localgrid", NI, "ngrid.py:245 not implemented"),
    C(a_.meth = "moments", NI, "ngrid.py:257 not implemented"),
    C(a_.f = "short", VE, "basegrid.py:140 integrand values are not of shape (size,) (ngrid.py:236)") >>
Valid_MultiDomainGrid_method(a_) == a_.meth = "integrate" /\ a_.f = "ok"

(***************************************************************************)
(* grid.becke / grid.hirshfeld                                             *)
(***************************************************************************)
\* BeckeWeights(radii, order)
Dom_BeckeWeights_new == [order : {"int", "float", "none"}, radii : {"none", "dict", "list", "strkeys"}]
Cl_BeckeWeights_new(a_) == <<
    C(a_.order # "int", VE, "becke.py:47 order is not an integer"),
    C(a_.radii = "list", TE, "becke.py:55 radii is not a dictionary"),
    C(a_.radii = "strkeys", TE, "becke.py:57 a key of radii is not an integer") >>
Valid_BeckeWeights_new(a_) == a_.order = "int" /\ a_.radii \in {"none", "dict"}

\* becke.generate_weights / compute_weights(points, atcoords, atnums, select=, pt_ind=) for two atoms:
\*   sel = None (both atoms), an integer, a list of one or two atoms; pt = None or a list of 1, 2, 3 boundaries
NSel(sel_) == CASE sel_ = "none" -> 2 [] sel_ = "int" -> 1 [] sel_ = "list1" -> 1 [] sel_ = "list2" -> 2
NSectors(pt_) == CASE pt_ = "none" -> 1 [] pt_ = "len1" -> 1 [] pt_ = "len2" -> 1 [] pt_ = "len3" -> 2
Dom_BeckeWeights_weights == [meth : {"generate_weights", "compute_weights"}, sel : {"none", "int", "list1", "list2"},
                             pt : {"none", "len1", "len2", "len3"}]
Cl_BeckeWeights_weights(a_) == <<
    C(a_.pt = "len1", VE, "becke.py:146,302 pt_ind with a single boundary"),
    C(NSectors(a_.pt) # NSel(a_.sel), VE, "becke.py:150,306 number of sections != number of selected atoms") >>
Valid_BeckeWeights_weights(a_) == a_.pt # "len1" /\ NSectors(a_.pt) = NSel(a_.sel)

\* HirshfeldWeights()(points, atcoords, atnums, indices): dtype class of atnums
Dom_HirshfeldWeights_call == [dt : {"int", "float"}]
Cl_HirshfeldWeights_call(a_) == << C(a_.dt # "int", TE, "hirshfeld.py:107 atnums.dtype is not int") >>
Valid_HirshfeldWeights_call(a_) == a_.dt = "int"

(***************************************************************************)
(* dispatch                                                                *)
(***************************************************************************)
Ops == {"Grid.new", "Grid.points.set", "Grid.weights.set", "Grid.integrate", "Grid.get_localgrid",
        "Grid.getitem", "Grid.moments", "LocalGrid.new", "OneDGrid.new", "Grid.save",
        "AngularGrid.new", "AngularGrid.convert",
        "AtomGrid.new", "AtomGrid.shells", "AtomGrid.from_preset", "AtomGrid.from_pruned", "AtomGrid.get_shell_grid", "AtomGrid.integrate_angular",
        "AtomGrid.interpolate", "AtomGrid.interpolate_call", "RTransform.new", "InverseRTransform.new", "Becke.find_parameter", "RTransform.transform_1d_grid", "Hyperbolic.transform", "Scaled.transform",
        "MolGrid.new", "MolGrid.from_preset", "MolGrid.from_size", "MolGrid.from_pruned", "MolGrid.get_atomic_grid", "MolGrid.getitem",
        "PeriodicGrid.new", "PeriodicGrid.get_localgrid", "Tensor1DGrids.new", "UniformGrid.new", "UniformGrid.from_molecule", "UniformGrid.from_cube",
        "MultiDomainGrid.new", "MultiDomainGrid.method", "BeckeWeights.new", "BeckeWeights.weights", "HirshfeldWeights.call"}

Dom(op_) ==
    CASE op_ = "Grid.new" -> Dom_Grid_new
      [] op_ = "Grid.points.set" -> Dom_Grid_points_set
      [] op_ = "Grid.weights.set" -> Dom_Grid_weights_set
      [] op_ = "Grid.integrate" -> Dom_Grid_integrate
      [] op_ = "Grid.get_localgrid" -> Dom_Grid_get_localgrid
      [] op_ = "Grid.getitem" -> Dom_Grid_getitem
      [] op_ = "Grid.moments" -> Dom_Grid_moments
      [] op_ = "LocalGrid.new" -> Dom_LocalGrid_new
      [] op_ = "OneDGrid.new" -> Dom_OneDGrid_new
      [] op_ = "Grid.save" -> Dom_Grid_save
      [] op_ = "AngularGrid.new" -> Dom_AngularGrid_new
      [] op_ = "AngularGrid.convert" -> Dom_AngularGrid_convert
      [] op_ = "AtomGrid.new" -> Dom_AtomGrid_new
      [] op_ = "AtomGrid.shells" -> Dom_AtomGrid_shells
      [] op_ = "AtomGrid.from_preset" -> Dom_AtomGrid_from_preset
      [] op_ = "AtomGrid.from_pruned" -> Dom_AtomGrid_from_pruned
      [] op_ = "AtomGrid.get_shell_grid" -> Dom_AtomGrid_get_shell_grid
      [] op_ = "AtomGrid.integrate_angular" -> Dom_AtomGrid_integrate_angular
      [] op_ = "AtomGrid.interpolate" -> Dom_AtomGrid_interpolate
      [] op_ = "AtomGrid.interpolate_call" -> Dom_AtomGrid_interpolate_call
      [] op_ = "RTransform.new" -> Dom_RTransform_new
      [] op_ = "InverseRTransform.new" -> Dom_InverseRTransform_new
      [] op_ = "Becke.find_parameter" -> Dom_Becke_find_parameter
      [] op_ = "RTransform.transform_1d_grid" -> Dom_RTransform_transform_1d_grid
      [] op_ = "Hyperbolic.transform" -> Dom_Hyperbolic_transform
      [] op_ = "Scaled.transform" -> Dom_Scaled_transform
      [] op_ = "MolGrid.new" -> Dom_MolGrid_new
      [] op_ = "MolGrid.from_preset" -> Dom_MolGrid_from_preset
      [] op_ = "MolGrid.from_size" -> Dom_MolGrid_from_size
      [] op_ = "MolGrid.from_pruned" -> Dom_MolGrid_from_pruned
      [] op_ = "MolGrid.get_atomic_grid" -> Dom_MolGrid_get_atomic_grid
      [] op_ = "MolGrid.getitem" -> Dom_MolGrid_getitem
      [] op_ = "PeriodicGrid.new" -> Dom_PeriodicGrid_new
      [] op_ = "PeriodicGrid.get_localgrid" -> Dom_PeriodicGrid_get_localgrid
      [] op_ = "Tensor1DGrids.new" -> Dom_Tensor1DGrids_new
      [] op_ = "UniformGrid.new" -> Dom_UniformGrid_new
      [] op_ = "UniformGrid.from_molecule" -> Dom_UniformGrid_from_molecule
      [] op_ = "UniformGrid.from_cube" -> Dom_UniformGrid_from_cube
      [] op_ = "MultiDomainGrid.new" -> Dom_MultiDomainGrid_new
      [] op_ = "MultiDomainGrid.method" -> Dom_MultiDomainGrid_method
      [] op_ = "BeckeWeights.new" -> Dom_BeckeWeights_new
      [] op_ = "BeckeWeights.weights" -> Dom_BeckeWeights_weights
      [] op_ = "HirshfeldWeights.call" -> Dom_HirshfeldWeights_call

Clauses(op_, a_) ==
    CASE op_ = "Grid.new" -> Cl_Grid_new(a_)
      [] op_ = "Grid.points.set" -> Cl_Grid_points_set(a_)
      [] op_ = "Grid.weights.set" -> Cl_Grid_weights_set(a_)
      [] op_ = "Grid.integrate" -> Cl_Grid_integrate(a_)
      [] op_ = "Grid.get_localgrid" -> Cl_Grid_get_localgrid(a_)
      [] op_ = "Grid.getitem" -> Cl_Grid_getitem(a_)
      [] op_ = "Grid.moments" -> Cl_Grid_moments(a_)
      [] op_ = "LocalGrid.new" -> Cl_LocalGrid_new(a_)
      [] op_ = "OneDGrid.new" -> Cl_OneDGrid_new(a_)
      [] op_ = "Grid.save" -> Cl_Grid_save(a_)
      [] op_ = "AngularGrid.new" -> Cl_AngularGrid_new(a_)
      [] op_ = "AngularGrid.convert" -> Cl_AngularGrid_convert(a_)
      [] op_ = "AtomGrid.new" -> Cl_AtomGrid_new(a_)
      [] op_ = "AtomGrid.shells" -> Cl_AtomGrid_shells(a_)
      [] op_ = "AtomGrid.from_preset" -> Cl_AtomGrid_from_preset(a_)
      [] op_ = "AtomGrid.from_pruned" -> Cl_AtomGrid_from_pruned(a_)
      [] op_ = "AtomGrid.get_shell_grid" -> Cl_AtomGrid_get_shell_grid(a_)
      [] op_ = "AtomGrid.integrate_angular" -> Cl_AtomGrid_integrate_angular(a_)
      [] op_ = "AtomGrid.interpolate" -> Cl_AtomGrid_interpolate(a_)
      [] op_ = "AtomGrid.interpolate_call" -> Cl_AtomGrid_interpolate_call(a_)
      [] op_ = "RTransform.new" -> Cl_RTransform_new(a_)
      [] op_ = "InverseRTransform.new" -> Cl_InverseRTransform_new(a_)
      [] op_ = "Becke.find_parameter" -> Cl_Becke_find_parameter(a_)
      [] op_ = "RTransform.transform_1d_grid" -> Cl_RTransform_transform_1d_grid(a_)
      [] op_ = "Hyperbolic.transform" -> Cl_Hyperbolic_transform(a_)
      [] op_ = "Scaled.transform" -> Cl_Scaled_transform(a_)
      [] op_ = "MolGrid.new" -> Cl_MolGrid_new(a_)
      [] op_ = "MolGrid.from_preset" -> Cl_MolGrid_from_preset(a_)
      [] op_ = "MolGrid.from_size" -> Cl_MolGrid_from_size(a_)
      [] op_ = "MolGrid.from_pruned" -> Cl_MolGrid_from_pruned(a_)
      [] op_ = "MolGrid.get_atomic_grid" -> Cl_MolGrid_get_atomic_grid(a_)
      [] op_ = "MolGrid.getitem" -> Cl_MolGrid_getitem(a_)
      [] op_ = "PeriodicGrid.new" -> Cl_PeriodicGrid_new(a_)
      [] op_ = "PeriodicGrid.get_localgrid" -> Cl_PeriodicGrid_get_localgrid(a_)
      [] op_ = "Tensor1DGrids.new" -> Cl_Tensor1DGrids_new(a_)
      [] op_ = "UniformGrid.new" -> Cl_UniformGrid_new(a_)
      [] op_ = "UniformGrid.from_molecule" -> Cl_UniformGrid_from_molecule(a_)
      [] op_ = "UniformGrid.from_cube" -> Cl_UniformGrid_from_cube(a_)
      [] op_ = "MultiDomainGrid.new" -> Cl_MultiDomainGrid_new(a_)
      [] op_ = "MultiDomainGrid.method" -> Cl_MultiDomainGrid_method(a_)
      [] op_ = "BeckeWeights.new" -> Cl_BeckeWeights_new(a_)
      [] op_ = "BeckeWeights.weights" -> Cl_BeckeWeights_weights(a_)
      [] op_ = "HirshfeldWeights.call" -> Cl_HirshfeldWeights_call(a_)

\* what the docstring of the entry point calls a valid call (Parameters section)
Valid(op_, a_) ==
    CASE op_ = "Grid.new" -> Valid_Grid_new(a_)
      [] op_ = "Grid.points.set" -> Valid_Grid_points_set(a_)
      [] op_ = "Grid.weights.set" -> Valid_Grid_weights_set(a_)
      [] op_ = "Grid.integrate" -> Valid_Grid_integrate(a_)
      [] op_ = "Grid.get_localgrid" -> Valid_Grid_get_localgrid(a_)
      [] op_ = "Grid.getitem" -> Valid_Grid_getitem(a_)
      [] op_ = "Grid.moments" -> Valid_Grid_moments(a_)
      [] op_ = "LocalGrid.new" -> Valid_LocalGrid_new(a_)
      [] op_ = "OneDGrid.new" -> Valid_OneDGrid_new(a_)
      [] op_ = "Grid.save" -> Valid_Grid_save(a_)
      [] op_ = "AngularGrid.new" -> Valid_AngularGrid_new(a_)
      [] op_ = "AngularGrid.convert" -> Valid_AngularGrid_convert(a_)
      [] op_ = "AtomGrid.new" -> Valid_AtomGrid_new(a_)
      [] op_ = "AtomGrid.shells" -> Valid_AtomGrid_shells(a_)
      [] op_ = "AtomGrid.from_preset" -> Valid_AtomGrid_from_preset(a_)
      [] op_ = "AtomGrid.from_pruned" -> Valid_AtomGrid_from_pruned(a_)
      [] op_ = "AtomGrid.get_shell_grid" -> Valid_AtomGrid_get_shell_grid(a_)
      [] op_ = "AtomGrid.integrate_angular" -> Valid_AtomGrid_integrate_angular(a_)
      [] op_ = "AtomGrid.interpolate" -> Valid_AtomGrid_interpolate(a_)
      [] op_ = "AtomGrid.interpolate_call" -> Valid_AtomGrid_interpolate_call(a_)
      [] op_ = "RTransform.new" -> Valid_RTransform_new(a_)
      [] op_ = "InverseRTransform.new" -> Valid_InverseRTransform_new(a_)
      [] op_ = "Becke.find_parameter" -> Valid_Becke_find_parameter(a_)
      [] op_ = "RTransform.transform_1d_grid" -> Valid_RTransform_transform_1d_grid(a_)
      [] op_ = "Hyperbolic.transform" -> Valid_Hyperbolic_transform(a_)
      [] op_ = "Scaled.transform" -> Valid_Scaled_transform(a_)
      [] op_ = "MolGrid.new" -> Valid_MolGrid_new(a_)
      [] op_ = "MolGrid.from_preset" -> Valid_MolGrid_from_preset(a_)
      [] op_ = "MolGrid.from_size" -> Valid_MolGrid_from_size(a_)
      [] op_ = "MolGrid.from_pruned" -> Valid_MolGrid_from_pruned(a_)
      [] op_ = "MolGrid.get_atomic_grid" -> Valid_MolGrid_get_atomic_grid(a_)
      [] op_ = "MolGrid.getitem" -> Valid_MolGrid_getitem(a_)
      [] op_ = "PeriodicGrid.new" -> Valid_PeriodicGrid_new(a_)
      [] op_ = "PeriodicGrid.get_localgrid" -> Valid_PeriodicGrid_get_localgrid(a_)
      [] op_ = "Tensor1DGrids.new" -> Valid_Tensor1DGrids_new(a_)
      [] op_ = "UniformGrid.new" -> Valid_UniformGrid_new(a_)
      [] op_ = "UniformGrid.from_molecule" -> Valid_UniformGrid_from_molecule(a_)
      [] op_ = "UniformGrid.from_cube" -> Valid_UniformGrid_from_cube(a_)
      [] op_ = "MultiDomainGrid.new" -> Valid_MultiDomainGrid_new(a_)
      [] op_ = "MultiDomainGrid.method" -> Valid_MultiDomainGrid_method(a_)
      [] op_ = "BeckeWeights.new" -> Valid_BeckeWeights_new(a_)
      [] op_ = "BeckeWeights.weights" -> Valid_BeckeWeights_weights(a_)
      [] op_ = "HirshfeldWeights.call" -> Valid_HirshfeldWeights_call(a_)

\* receiver state: ops that assign on acceptance (everything else must leave the receiver as it was, accepted or not)
\* (AtomGrid.interpolate builds the harmonics basis on first use; transform_1d_grid / transform of the scaled
\* transformations remember the scale b taken from the first grid)
Mutators == {"Grid.points.set", "Grid.weights.set", "AtomGrid.interpolate", "RTransform.transform_1d_grid",
             "Scaled.transform"}
Pure(op_) == op_ \notin Mutators

\* number of entries the module-level caches of grid.angular gain (harness empties them before the call)
CacheGain(op_, a_, rejected_) ==
    IF op_ = "AngularGrid.new" THEN CacheGain_AngularGrid_new(a_, rejected_) ELSE 0
CacheJudged(op_) == op_ \in {"AngularGrid.new", "AngularGrid.convert"}

(***************************************************************************)
(* the verdict                                                             *)
(***************************************************************************)
FirstClause(cl_) ==
    IF \E k_ \in 1..Len(cl_) : cl_[k_].cond
    THEN CHOOSE k_ \in 1..Len(cl_) : cl_[k_].cond /\ \A j_ \in 1..k_ - 1 : ~cl_[j_].cond
    ELSE 0
Verdict(op_, a_) ==
    LET cl == Clauses(op_, a_)
        k == FirstClause(cl)
    IN IF k = 0 THEN [cls |-> "", rule |-> "accepted", k |-> 0]
       ELSE [cls |-> cl[k].cls, rule |-> cl[k].rule, k |-> k]
Rejects(op_, a_) == Verdict(op_, a_).cls # ""

(***************************************************************************)
(* enumerator: idle -> an op -> one abstract argument of the op            *)
(***************************************************************************)
VARIABLES phase, cop, carg
evars == <<phase, cop, carg>>

EInit == phase = "idle" /\ cop = "" /\ carg = <<>>
PickOp == /\ phase = "idle"
          /\ \E o_ \in Ops : cop' = o_
          /\ phase' = "op" /\ UNCHANGED carg
PickArg == /\ phase = "op"
           /\ \E x_ \in Dom(cop) : carg' = x_
           /\ phase' = "case" /\ UNCHANGED cop
ENext == PickOp \/ PickArg
ESpec == EInit /\ [][ENext]_evars

\* ---- laws of the table ---------------------------------------------------------------------
AtCase == phase = "case"
VerdictWellFormed ==
    AtCase => /\ Verdict(cop, carg).cls \in Classes \cup {""}
              /\ \A k_ \in 1..Len(Clauses(cop, carg)) : Clauses(cop, carg)[k_].cls \in Classes
\* what the documentation calls valid is never rejected
DocumentedValidIsAccepted == AtCase /\ Valid(cop, carg) => ~Rejects(cop, carg)
\* anti-vacuity, per op: every clause is the deciding clause of some argument; some argument is accepted;
\* some documented-valid argument exists
EveryClauseDecides ==
    phase = "op" =>
        LET n == Len(Clauses(cop, CHOOSE x_ \in Dom(cop) : TRUE)) IN
        /\ \A x_ \in Dom(cop) : Len(Clauses(cop, x_)) = n
        /\ \A k_ \in 0..n : \/ \E x_ \in Dom(cop) : Verdict(cop, x_).k = k_
                            \/ (PrintT(<<"UNDECIDED", cop, k_>>) /\ FALSE)
SomeValid == phase = "op" => \E x_ \in Dom(cop) : Valid(cop, x_)
\* one CASE line per pair (the harness replays them); holes = accepted although not documented as valid
Emit == AtCase => PrintT(<<"CASE", cop, carg, Verdict(cop, carg).k, Valid(cop, carg)>>)
=============================================================================
