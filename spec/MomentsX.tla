------------------------------- MODULE MomentsX -------------------------------
(***************************************************************************)
(* Multipole moments (property C14), second part: the dimensions of the    *)
(* quantifier that Moments.tla / MC_Moments.tla keep fixed.  Definitions   *)
(* only; the state machine, the emission and the judges are in             *)
(* MC_MomentsX.tla.                                                        *)
(*                                                                         *)
(*  1. Cartesian monomials as trees (orders beyond what TLC's 32-bit       *)
(*     rationals can judge) and the scaling law of every basis function    *)
(*  2. argument forms: how function values, centres, grid points, the      *)
(*     maximal order and the call itself may be handed over - each form    *)
(*     with the value lattice on which it is admissible                    *)
(*  3. extended quadrature cases: per-case maximal orders 0..L, 1..6       *)
(*     centres (duplicates allowed), point geometries (star about a        *)
(*     centre: r = 0 and all six axis directions; one-point and empty      *)
(*     grids; duplicate points), zero / negative / fractional weights, dyadic *)
(*     coordinates of three resolutions, power-of-two rescaling            *)
(*  4. sessions: sequences of calls on shared objects (two grids, two      *)
(*     centre sets, two value vectors) interleaved with assignments to and *)
(*     in-place edits of grid.points and with scribbling over every array  *)
(*     returned so far - the library keeps no state, so every call must    *)
(*     return the moments of the grid as it is at the time of the call     *)
(*  5. order-listing call forms                                            *)
(*  6. extended dipole cases: 1..6 nuclei, charges from the whole table,   *)
(*     argument forms of charges / coordinates / density                   *)
(***************************************************************************)
EXTENDS Moments

\* a linear congruential step with a quadratic term (plain LCG streams of neighbouring seeds are arithmetic progressions)
XLcg(x_) == ((x_ % 256) * (x_ \div 256) * 37 + x_ * 1103 + 12345) % 65536
RECURSIVE XLcgSeq(_, _)
XLcgSeq(x_, n_) == IF n_ = 0 THEN <<>> ELSE <<XLcg(x_)>> \o XLcgSeq(XLcg(x_), n_ - 1)
XPick(x_, m_) == (x_ \div 7) % m_
RECURSIVE MulTo(_, _)         \* tree f[1] * ... * f[n]
MulTo(f_, n_) == IF n_ = 0 THEN CI(1) ELSE Mul(MulTo(f_, n_ - 1), f_[n_])
RECURSIVE IPowX(_, _)
IPowX(b_, k_) == IF k_ = 0 THEN 1 ELSE b_ * IPowX(b_, k_ - 1)

(***************************************************************************)
(* 1. Cartesian monomial trees; degree of a row; scaling law.              *)
(***************************************************************************)
CartTree(t_) == MulTo([r_ \in 1..Len(t_) |-> Pow(V(VarNames[r_]), t_[r_])], Len(t_))      \* 0^0 = 1
BasisTreeX(type_, row_, dim_) == IF type_ = "cartesian" THEN CartTree(row_) ELSE BasisTree(type_, row_, dim_)
\* B(s d) = s^Degree B(d) for every basis function B of the four families
Degree(type_, row_) ==
    CASE type_ = "cartesian" -> ISumTo(row_, Len(row_))
      [] type_ = "radial" -> row_[1]
      [] type_ = "pure" -> row_[1]
      [] type_ = "pure-radial" -> row_[1] + row_[2]
ScaledPoint(p_, s_) == [r_ \in 1..Len(p_) |-> QMul(s_, p_[r_])]
ScaledPoints(pts_, s_) == [x_ \in 1..Len(pts_) |-> ScaledPoint(pts_[x_], s_)]
\* moving points and centre by the common factor s multiplies the moment of row t by s^|t|
CartScaleLaw(t_, pts_, wts_, fvals_, c_, s_) ==
    CartMoment(t_, ScaledPoints(pts_, s_), wts_, fvals_, ScaledPoint(c_, s_))
        = QMul(QPow(s_, Degree("cartesian", t_)), CartMoment(t_, pts_, wts_, fvals_, c_))

(***************************************************************************)
(* 2. Argument forms.  The harness realises a form; the specification says *)
(* on which values it is admissible (the array holds exactly the numbers   *)
(* of the case) and that the moments do not depend on it.                  *)
(***************************************************************************)
\* function values: float64, int64, int32, float32, float16, longdouble, bool, uint8, read-only float64,
\* every-second-element view of a float64 array
FvalForms == <<"f8", "i8", "f4", "g", "bool", "i4", "f2", "u1", "readonly", "strided">>
FvalOf(form_, x_) ==            \* value drawn for the form from the generator word x_
    CASE form_ \in {"i8", "i4"} -> QI(XPick(x_, 7) - 3)
      [] form_ = "bool" -> QI(XPick(x_, 2))
      [] form_ = "u1" -> QI(XPick(x_, 6))
      [] OTHER -> Q(XPick(x_, 25) - 12, 4)          \* quarters in -3..3: exact in every floating type used
\* centres: float64 C order, int64 (integer coordinates), float32, Fortran order, strided view, read-only
CentreForms == <<"f8", "i8", "F", "f4", "strided", "readonly">>
\* grid points (weights follow for strided / readonly): C order, Fortran order, strided view, read-only,
\* int64 (what UniformGrid builds from integer origin and axes), float32, flat (N,) array (dim 1)
GridForms == <<"C", "int", "F", "strided", "readonly", "f4", "flat">>
\* maximal order: Python int or the NumPy integers Grid.moments names
OrderForms == <<"int", "np.int64", "np.int32">>
\* the call: keywords / positional, return_orders given / omitted; Cartesian additionally with type_mom omitted
CallForms == <<"kw", "pos", "kw-noret", "pos-noret">>
\* power-of-two rescaling of points and centres (exact in floating point): 2^shift
Shifts == <<0, 0, 0, 9, 30, 0 - 12, 0 - 40>>

(***************************************************************************)
(* 3. Extended quadrature cases.                                           *)
(***************************************************************************)
\* "empty": a grid without points (what get_localgrid returns when no point lies inside the sphere): every moment is 0
XGeoms == <<"random", "random", "star", "random", "single", "dup", "empty">>
\* coordinates on the lattice 2^-cb_: integers -3..3, halves -2..2, quarters -1..1
XCoord(cb_, x_) == IF cb_ = 0 THEN QI(XPick(x_, 7) - 3) ELSE IF cb_ = 1 THEN Q(XPick(x_, 9) - 4, 2) ELSE Q(XPick(x_, 9) - 4, 4)
\* largest order for which TLC's 32-bit rationals hold every Cartesian moment of such a case exactly:
\* |p - c| <= 6, 4, 2 -> numerators 6^6, 8^4, 8^3 times |w f| <= 48/8 times 7 points, cross-multiplied < 2^31
ExactCap(cb_) == IF cb_ = 0 THEN 6 ELSE IF cb_ = 1 THEN 4 ELSE 3
UnitVec(dim_, r_, sgn_) == [q_ \in 1..dim_ |-> IF q_ = r_ THEN QI(sgn_) ELSE QZero]
PAdd(p_, d_) == [r_ \in 1..Len(p_) |-> QAdd(p_[r_], d_[r_])]
StarPoints(c_, dim_) ==     \* the centre itself and the centre +/- e_r
    <<c_>> \o [x_ \in 1..2 * dim_ |-> PAdd(c_, UnitVec(dim_, (x_ + 1) \div 2, IF x_ % 2 = 1 THEN 1 ELSE -1))]
XCaseOf(seed_, k_, cartl_, bigl_, purel_) ==
    LET s == XLcgSeq((seed_ * 389 + k_ * 5003 + 77) % 65536, 80)
        geom == IF k_ <= 6 THEN <<"random", "star", "random", "random", "dup", "random">>[k_] ELSE XGeoms[1 + ((k_ + XPick(s[1], 2) * 3) % 7)]
        d5 == XPick(s[3], 5)
        dim == IF k_ <= 6 THEN 3 ELSE IF d5 >= 2 THEN 3 ELSE d5 + 1
        \* the first six cases fix the combinations that matter most: rescaled float64 (1, 2), integer-typed points with
        \* fractional centres (3), integer-typed centres (4), both integer-typed (5), float32 points (6)
        gform0 == IF k_ <= 6 THEN <<"C", "C", "int", "C", "int", "f4">>[k_] ELSE GridForms[1 + XPick(s[8], 7)]
        gform == IF gform0 = "flat" /\ dim # 1 THEN "C" ELSE gform0
        cform0 == IF k_ <= 6 THEN <<"f8", "f8", "f8", "i8", "i8", "f8">>[k_] ELSE CentreForms[1 + XPick(s[7], 6)]
        cform == IF cform0 = "f4" /\ gform = "f4" THEN "f8" ELSE cform0     \* float32 - float32 would be float32 arithmetic
        cb0 == IF k_ = 3 \/ k_ = 1 THEN 1 ELSE IF k_ = 2 THEN 2 ELSE XPick(s[2], 3)
        \* integer-typed points may go with fractional centres and vice versa (a star is drawn about its centre)
        cbc == IF cform = "i8" \/ (gform = "int" /\ geom = "star") THEN 0 ELSE cb0
        cbp == IF gform = "int" THEN 0 ELSE IF geom = "star" THEN cbc ELSE cb0
        cb == Max2(cbp, cbc)
        fform == IF k_ <= 2 THEN "f8" ELSE FvalForms[1 + XPick(s[6], 10)]
        ncen == IF geom = "dup" THEN 2 + XPick(s[5], 4) ELSE 1 + XPick(s[5], 6)
        cen0 == [c_ \in 1..ncen |-> [r_ \in 1..dim |-> XCoord(cbc, s[41 + 3 * c_ + r_])]]
        cen == IF geom = "dup" THEN [cen0 EXCEPT ![2] = cen0[1]] ELSE cen0
        npts0 == IF geom = "single" THEN 1 ELSE IF geom = "empty" THEN 0 ELSE IF k_ <= 2 THEN 4 + XPick(s[4], 3) ELSE 2 + XPick(s[4], 5)
        pts0 == [x_ \in 1..npts0 |-> [r_ \in 1..dim |-> XCoord(cbp, s[17 + 3 * x_ + r_])]]
        pts == IF geom = "star" THEN StarPoints(cen[1], dim)
               ELSE IF geom = "dup" THEN [pts0 EXCEPT ![2] = pts0[1]] ELSE pts0
        npts == Len(pts)
        cap == Min2(cartl_, ExactCap(cb))
        lcart == XPick(s[11], cap + 1)
        intforms == gform = "int" \/ cform = "i8"
        \* the first two cases are always rescaled: all points within 1e-11 of the centres / far away
        shift == IF intforms THEN 0 ELSE IF k_ = 1 THEN 0 - 40 ELSE IF k_ = 2 THEN 30 ELSE Shifts[1 + XPick(s[15], 7)]
    IN [dim |-> dim, geom |-> geom, cbits |-> cb, pts |-> pts, centres |-> cen,
        \* halves in -2..2: zero and negative weights; the two rescaled cases have no vanishing term (w f # 0)
        wts |-> [x_ \in 1..npts |-> IF k_ <= 2 THEN Q(1 + XPick(s[63 + x_], 4), 2) ELSE Q(XPick(s[63 + x_], 9) - 4, 2)],
        fvals |-> [x_ \in 1..npts |-> IF k_ <= 2 THEN Q(2 * XPick(s[71 + x_], 6) - 5, 4) ELSE FvalOf(fform, s[71 + x_])],
        fform |-> fform, cform |-> cform, gform |-> gform,
        oform |-> OrderForms[1 + XPick(s[9], 3)], callform |-> CallForms[1 + XPick(s[10], 4)],
        notype |-> XPick(s[16], 2) = 1,                                       \* Cartesian call leaves type_mom out
        shift |-> shift,
        lcart |-> lcart,                                                      \* judged exactly by TLC
        lbits |-> cb * lcart + 3,                                             \* its moments are multiples of 2^-lbits
        lbig |-> IF intforms THEN lcart + XPick(s[12], Min2(bigl_, 8) - lcart + 1)                \* integer arithmetic: 7^8 < 2^63
                ELSE IF k_ <= 2 THEN bigl_                                                    \* the largest order, fractional coordinates
                ELSE lcart + XPick(s[12], bigl_ - lcart + 1),                                \* Cartesian / radial by trees
        lpure |-> IF k_ <= 2 THEN purel_ ELSE XPick(s[13], purel_ + 1),
        lpr |-> IF k_ <= 2 THEN purel_ ELSE 1 + XPick(s[14], purel_)]
RowsCount(type_, ll_, dim_) == Len(AllOrders(type_, ll_, dim_))
XRowCounts(c_) == [cart |-> RowsCount("cartesian", c_.lcart, c_.dim), big |-> RowsCount("cartesian", c_.lbig, c_.dim),
                   radial |-> RowsCount("radial", c_.lbig, c_.dim), pure |-> RowsCount("pure", c_.lpure, 3),
                   pure_radial |-> RowsCount("pure-radial", c_.lpr, 3)]

(***************************************************************************)
(* 4. Sessions.  Objects: grids "a", "b" (same number of points, own       *)
(* point lists), centre sets 1, 2, value vectors 1, 2.  Steps:             *)
(*   moments  g c f type L ret : g.moments(L, cset[c], fvec[f], type[, True])*)
(*   orders   type L dim       : generate_orders_horton_order(L, type, dim)*)
(*   assign   g                : g.points = (a new array holding) the other*)
(*                               grid's current points                     *)
(*   edit     g                : g.points[0, 0] += 1  (in place)           *)
(*   scribble                  : every array returned so far is overwritten*)
(* The only state is the current point list of each grid.                  *)
(***************************************************************************)
SessTypes == <<"cartesian", "radial", "pure", "pure-radial">>
Other(g_) == IF g_ = "a" THEN "b" ELSE "a"
SessHalf(x_) == Q(XPick(x_, 9) - 4, 2)
SessObjects(seed_, k_) ==
    LET s == XLcgSeq((seed_ * 577 + k_ * 7001 + 5) % 65536, 80)
        d5 == XPick(s[1], 5)
        dim == IF k_ <= 2 THEN 3 ELSE IF d5 >= 2 THEN 3 ELSE d5 + 1
        npts == 2 + XPick(s[2], 3)
        nc2 == 1 + 2 * XPick(s[3], 2)
    IN [dim |-> dim,
        a |-> [x_ \in 1..npts |-> [r_ \in 1..dim |-> SessHalf(s[3 + 3 * x_ + r_])]],
        b |-> [x_ \in 1..npts |-> [r_ \in 1..dim |-> SessHalf(s[18 + 3 * x_ + r_])]],
        wa |-> [x_ \in 1..npts |-> QI(1 + XPick(s[33 + x_], 3))],
        wb |-> [x_ \in 1..npts |-> QI(1 + XPick(s[38 + x_], 3))],
        csets |-> << [c_ \in 1..2 |-> [r_ \in 1..dim |-> SessHalf(s[41 + 3 * c_ + r_])]],
                     [c_ \in 1..nc2 |-> [r_ \in 1..dim |-> SessHalf(s[48 + 3 * c_ + r_])]] >>,
        fvecs |-> << [x_ \in 1..npts |-> QI(XPick(s[60 + x_], 5) - 2)],
                     [x_ \in 1..npts |-> QI(XPick(s[66 + x_], 5) - 2)] >>]
\* Steps come in triples (call, perturbation, call again): the third step repeats the first one's family on the same
\* grid - mostly with the same maximal order and centre set - after something happened in between.
SessStepOf(seed_, k_, j_, dim_) ==
    LET i == (j_ - 1) \div 3
        pos == (j_ - 1) % 3
        t == XLcgSeq((seed_ * 131 + k_ * 3001 + i * 977 + 11) % 65536, 8)          \* shared by the triple
        s == XLcgSeq((seed_ * 173 + k_ * 2003 + j_ * 1009 + 7) % 65536, 8)         \* of the step
        typ0 == SessTypes[1 + ((i + k_) % 4)]
        typ == IF dim_ # 3 /\ typ0 \in {"pure", "pure-radial"} THEN (IF typ0 = "pure" THEN "cartesian" ELSE "radial") ELSE typ0
        g == IF XPick(t[1], 4) = 0 THEN "b" ELSE "a"
        ll == IF typ = "pure-radial" THEN 1 + XPick(t[2], 3) ELSE XPick(t[2], 4)
        cs == 1 + XPick(t[3], 2)
        other == SessTypes[1 + ((i + k_ + 1 + XPick(s[5], 3)) % 4)]
        othert == IF dim_ # 3 /\ other \in {"pure", "pure-radial"} THEN "radial" ELSE other
        p == XPick(s[1], 8)
    IN IF pos = 0 THEN [op |-> "moments", g |-> g, c |-> cs, f |-> 1 + XPick(s[2], 2), type |-> typ, order |-> ll, ret |-> XPick(s[3], 3) # 0]
       ELSE IF pos = 2 THEN
            [op |-> "moments", g |-> g, c |-> IF XPick(s[4], 4) = 0 THEN 3 - cs ELSE cs, f |-> 1 + XPick(s[2], 2), type |-> typ,
             order |-> IF XPick(s[6], 4) = 0 THEN (IF typ = "pure-radial" THEN 1 + XPick(s[7], 3) ELSE XPick(s[7], 4)) ELSE ll,
             ret |-> XPick(s[3], 3) # 0]
       ELSE IF p <= 1 THEN [op |-> "edit", g |-> g]
       ELSE IF p = 2 THEN [op |-> "assign", g |-> g]
       ELSE IF p = 3 THEN [op |-> "scribble"]
       ELSE IF p = 4 THEN [op |-> "orders", type |-> typ, order |-> IF typ = "pure-radial" THEN ll ELSE XPick(s[2], 5), dim |-> dim_]
       ELSE IF p = 5 THEN [op |-> "edit", g |-> Other(g)]
       ELSE [op |-> "moments", g |-> g, c |-> 3 - cs, f |-> 1 + XPick(s[2], 2), type |-> othert,
             order |-> IF othert = "pure-radial" THEN 1 + XPick(s[7], 3) ELSE XPick(s[7], 4), ret |-> XPick(s[3], 2) = 0]
\* the state: current points of the two grids
SessInit(obj_) == [a |-> obj_.a, b |-> obj_.b]
Edited(pts_) == [pts_ EXCEPT ![1] = [pts_[1] EXCEPT ![1] = QAdd(pts_[1][1], QOne)]]
SessApply(st_, step_) ==
    IF step_.op = "assign" THEN [st_ EXCEPT ![step_.g] = st_[Other(step_.g)]]
    ELSE IF step_.op = "edit" THEN [st_ EXCEPT ![step_.g] = Edited(st_[step_.g])]
    ELSE st_
RECURSIVE SessStateAfter(_, _, _, _)
SessStateAfter(seed_, k_, j_, obj_) ==
    IF j_ = 0 THEN SessInit(obj_) ELSE SessApply(SessStateAfter(seed_, k_, j_ - 1, obj_), SessStepOf(seed_, k_, j_, obj_.dim))
SessWeights(obj_, g_) == IF g_ = "a" THEN obj_.wa ELSE obj_.wb

(***************************************************************************)
(* 5. Order-listing call forms.                                            *)
(*   nodim   generate_orders_horton_order(order, type)          (dim = 3)  *)
(*   kwargs  generate_orders_horton_order(order=, type_ord=, dim=)         *)
(*   twice   the same call again after its first result was overwritten    *)
(*   np64 / np32   Grid.moments(np.int64(order) / np.int32(order), ...,    *)
(*           return_orders=True) on a dim-dimensional grid                 *)
(* The dimension is documented to matter for Cartesian orders only.        *)
(***************************************************************************)
ListForms == <<"nodim", "kwargs", "twice", "np64", "np32">>
ListDirect(form_) == form_ \in {"nodim", "kwargs", "twice"}
ListExpected(form_, type_, order_, dim_) ==
    IF form_ = "nodim" THEN OrdersLoop(type_, order_, 3)
    ELSE IF ListDirect(form_) THEN OrdersLoop(type_, order_, dim_)
    ELSE AllOrders(type_, order_, dim_)
ListDims(form_, type_) ==
    IF form_ = "nodim" THEN {3}
    ELSE IF ListDirect(form_) THEN 1..3                       \* dim is ignored by the other three families
    ELSE IF type_ \in {"cartesian", "radial"} THEN 1..3 ELSE {3}

(***************************************************************************)
(* 6. Extended dipole cases.                                               *)
(***************************************************************************)
ZPoolX == <<1, 2, 3, 4, 5, 6, 7, 8, 9, 10, 11, 12, 13, 14, 15, 16, 17, 18, 19, 20, 22, 24, 26, 28, 29, 30, 33, 35, 36,
            38, 40, 43, 46, 47, 50, 53, 55, 56, 57, 58, 61, 64, 71, 74, 78, 79, 80, 82>>
\* charges: integer arrays of several widths, float64 (nuclear charges often come as floats), read-only
ChargeForms == <<"i8", "f8", "i4", "u1", "readonly", "i2">>
CoordForms == <<"f8", "i8", "F", "readonly">>
DensityForms == <<"f8", "f4", "i8", "readonly", "strided">>
DipoleCaseXOf(seed_, k_) ==
    LET s == XLcgSeq((seed_ * 263 + k_ * 9001 + 3) % 65536, 80)
        nat == IF k_ = 1 THEN 1 ELSE 1 + XPick(s[1], 6)
        npts == 1 + XPick(s[2], 6)
        \* the first cases run through the forms
        coform == IF k_ <= 4 THEN CoordForms[k_] ELSE CoordForms[1 + XPick(s[4], 4)]
        dform == IF k_ <= 5 THEN DensityForms[6 - k_] ELSE DensityForms[1 + XPick(s[5], 5)]
    IN [mol |-> [a_ \in 1..nat |-> [z |-> ZPoolX[1 + XPick(s[5 + a_], 48)],
                                    r |-> [r_ \in 1..3 |-> IF coform = "i8" THEN QI(XPick(s[9 + 3 * a_ + r_], 7) - 3)
                                                            ELSE Q(XPick(s[9 + 3 * a_ + r_], 17) - 8, 4)]]],
        pts |-> [x_ \in 1..npts |-> [r_ \in 1..3 |-> Q(XPick(s[28 + 3 * x_ + r_], 17) - 8, 4)]],
        wts |-> [x_ \in 1..npts |-> Q(1 + XPick(s[52 + x_], 6), 2)],
        rho |-> [x_ \in 1..npts |-> IF dform = "i8" THEN QI(XPick(s[60 + x_], 5)) ELSE Q(XPick(s[60 + x_], 13), 4)],
        zform |-> IF k_ <= 6 THEN ChargeForms[1 + ((k_ + 1) % 6)] ELSE ChargeForms[1 + XPick(s[3], 6)], coform |-> coform, dform |-> dform]
\* the law the dipole tree must satisfy, with the masses instantiated by small integers 1..4 (the tree is a
\* rational function of the masses; small values keep TLC's 32-bit rationals in range for charges up to 82)
DipoleLaw(c_) ==
    LET nat == Len(c_.mol)
        mass == [a_ \in 1..nat |-> QI(1 + ((c_.mol[a_].z + a_) % 4))]
        env == [n_ \in Range(MassNames) |-> IF \E a_ \in 1..nat : MassNames[a_] = n_
                                            THEN mass[CHOOSE a_ \in 1..nat : MassNames[a_] = n_] ELSE QOne]
        tot == QSumTo(mass, nat)
        com == [r_ \in 1..3 |-> QDiv(QSumTo([a_ \in 1..nat |-> QMul(mass[a_], c_.mol[a_].r[r_])], nat), tot)]
        unit(r_) == [q_ \in 1..3 |-> IF q_ = r_ THEN 1 ELSE 0]
        nuclear(r_) == CartMoment(unit(r_), [a_ \in 1..nat |-> c_.mol[a_].r], [a_ \in 1..nat |-> QI(c_.mol[a_].z)],
                                  [a_ \in 1..nat |-> QOne], com)
        electronic(r_) == CartMoment(unit(r_), c_.pts, c_.wts, c_.rho, com)
    IN \A r_ \in 1..3 : EvalQ(DipoleTree(c_.mol, c_.pts, c_.wts, c_.rho, r_), env) = QSub(nuclear(r_), electronic(r_))
=============================================================================
