SPECIFICATION XSpec
INVARIANT ChannelsDerived
INVARIANT ChannelLinear
INVARIANT ChanLiteral
INVARIANT HarmonicOK
INVARIANT CasesSound
INVARIANT SpecSolvesPoisson
INVARIANT AffineDerived
INVARIANT XTablesSane
INVARIANT XCasesSound
