SPECIFICATION GSpec
CONSTANTS
  Methods <- MC_Methods
  Scaled <- MC_Scaled
  Degrees <- MC_Degrees
  NCen = 2
  MaxObjs = 5
  NBuf = 40
  Vals <- MC_Vals
  GridSizes <- Gen_GridSizes
  QCen <- Gen_QCen
  Radii <- Gen_Radii
  Sels <- Gen_Sels
  FVals <- Gen_FVals
  AimVals <- MC_AimVals
  Tab <- MC_Tab
  Shares <- ShippedShares
  Aliasing = "copying"
  Discipline = TRUE
  MaxDepth = 0
  Scenario = 0
  MaxLen = 12
INVARIANT Emit
INVARIANT FreshIsShipped
INVARIANT CacheClean
INVARIANT NoAliasCacheUser
INVARIANT TreeFresh
INVARIANT OwnershipDiscipline
INVARIANT FreshIsFresh
