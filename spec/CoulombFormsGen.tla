--------------------------- MODULE CoulombFormsGen ---------------------------
(***************************************************************************)
(* Emits the request tables of CoulombForms for the harness                *)
(* (coulomb_forms.json) and checks that the tables themselves are sane:    *)
(* every radius class / shape / form occurs in some request, both truth    *)
(* values of the flag, every exponent pool is non-empty and positive.      *)
(***************************************************************************)
EXTENDS CoulombForms, Json

NR == Len(RFormSeq)
NC == Len(CompSeq)
RCAll == [k_ \in 1..(NR * NC) |-> <<RFormSeq[((k_ - 1) \div NC) + 1], CompSeq[((k_ - 1) % NC) + 1]>>]
RCValid == SelectSeq(RCAll, LAMBDA p_ : ValidRC(p_[1], p_[2]))
RTable == [k_ \in 1..Len(RCValid) |->
             [rform |-> RCValid[k_][1], comp |-> RCValid[k_][2], dom |-> RDom(RCValid[k_][1]),
              rshape |-> RShape(RCValid[k_][1]), slots |-> Slots(RCValid[k_][1], RCValid[k_][2]),
              shape |-> ExpShape(RCValid[k_][1], RCValid[k_][2])]]
ATable == [k_ \in 1..Len(AFormSeq) |->
             [aform |-> AFormSeq[k_], dom |-> ADom(AFormSeq[k_]), tol |-> ATol(AFormSeq[k_]),
              pool |-> APool(ADom(AFormSeq[k_]))]]
NTable == [k_ \in 1..Len(NFormSeq) |-> [nform |-> NFormSeq[k_], truth |-> Truth(NFormSeq[k_]), fac |-> NormFac(NFormSeq[k_])]]
BTable == [sset |-> SSetSeq, pset |-> PSetSeq, layout |-> LayoutSeq, npts |-> NPtsSeq, dform |-> DFormSeq,
           nform |-> BNFormSeq, style |-> StyleSeq,
           truth |-> [k_ \in 1..Len(BNFormSeq) |-> BTruth(BNFormSeq[k_])],
           kfixed |-> [one |-> KFixed("one"), few |-> KFixed("few"), many |-> KFixed("many")],
           judged |-> JudgedMax]
Emission == [kinds |-> Kinds, rtable |-> RTable, atable |-> ATable, ntable |-> NTable, tolexp |-> TolExp,
             sys |-> BTable,
             lattice |-> [decades |-> [k_ \in 1..Cardinality(AlphaDecades) |-> k_ - 11],
                          huge |-> <<150, 200, 300>>]]
ASSUME JsonSerialize("coulomb_forms.json", Emission)

VARIABLE g
GInit == g = 0
GNext == g' = g
GSpec == GInit /\ [][GNext]_g

TablesSane ==
    /\ \A f_ \in Range(RFormSeq) : \E c_ \in Range(CompSeq) : ValidRC(f_, c_)
    /\ \A c_ \in Range(CompSeq) : \E f_ \in Range(RFormSeq) : ValidRC(f_, c_)
    \* every radius class is requested in a vector, in a matrix and (where it can be) as a scalar
    /\ \A x_ \in RClasses : \E p_ \in RCPairs : RShape(p_[1]) = "vec" /\ x_ \in Range(Slots(p_[1], p_[2]))
    /\ \A x_ \in RClasses : \E p_ \in RCPairs : RShape(p_[1]) = "one" /\ Slots(p_[1], p_[2]) = <<x_>>
    /\ \A x_ \in RClasses \ {"T"} : \E p_ \in RCPairs : RShape(p_[1]) = "mat" /\ x_ \in Range(Slots(p_[1], p_[2]))
    \* homogeneous requests exist: all radii on one side of the switch
    /\ \E p_ \in RCPairs : Len(Slots(p_[1], p_[2])) >= 2 /\ Range(Slots(p_[1], p_[2])) \subseteq {"Z", "B"}
    /\ \E p_ \in RCPairs : Len(Slots(p_[1], p_[2])) >= 2 /\ Range(Slots(p_[1], p_[2])) \cap {"Z", "B"} = {}
    \* the shape of a conforming answer holds exactly the radii of the request
    /\ \A p_ \in RCPairs :
         LET sh_ == ExpShape(p_[1], p_[2])
             n_ == Len(Slots(p_[1], p_[2]))
         IN CASE Len(sh_) = 1 -> sh_[1] = n_
              [] Len(sh_) = 2 -> sh_[1] * sh_[2] = n_
              [] Len(sh_) = 3 -> sh_[1] * sh_[2] * sh_[3] = n_
    /\ \A p_ \in RCPairs : Range(Slots(p_[1], p_[2])) \subseteq Repr(RDom(p_[1]))
    /\ \A f_ \in Range(AFormSeq) : /\ Len(APool(ADom(f_))) >= 3
                                   /\ \A q_ \in Range(APool(ADom(f_))) : q_[1] > 0 /\ q_[2] > 0
    /\ \A f_ \in Range(AFormSeq) : ADom(f_) \in {"int", "smallint"} => \A q_ \in Range(APool(ADom(f_))) : q_[2] = 1
    /\ \A q_ \in Range(APool("smallint")) : q_[1] <= 127
    /\ {Truth(n_) : n_ \in Range(NFormSeq)} = BOOLEAN /\ Truth("omitted")
    /\ {BTruth(n_) : n_ \in Range(BNFormSeq)} = BOOLEAN /\ BTruth("omitted")
    /\ Cardinality(ACases) = 2 * Cardinality(RCPairs) * Len(AFormSeq) * Len(NFormSeq)
    /\ Cardinality(RCPairs) = Len(RCValid)
    /\ \A d_ \in Range(BDims) : Len(BPool(d_)) >= 2
    /\ AlphaDecades = -10..10
=============================================================================
