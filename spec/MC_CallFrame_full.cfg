SPECIFICATION Spec
CONSTANTS
  Writes = "none"
  FullMasks = TRUE
INVARIANT FrameObserved
INVARIANT ProgramsWellFormed
INVARIANT Complete
INVARIANT Emit
PROPERTY CallerFrame
