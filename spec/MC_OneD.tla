------------------------------- MODULE MC_OneD -------------------------------
(***************************************************************************)
(* Model-checking instances of OneD.tla for property C01: the constants of *)
(* the two tiers (DESIGN.md section 5, C01 "Tiers").                       *)
(***************************************************************************)
EXTENDS OneD

QuickN == [i_ \in 1..11 |-> i_ + 1]                                   \* 2..12
ThoroughN == [i_ \in 1..99 |-> i_ + 1] \o <<127, 128, 255, 256>>             \* 2..100, 127, 128, 255, 256
QuickAlpha == <<<<-1, 2>>, <<5, 2>>>>
ThoroughAlpha == <<<<-1, 2>>, <<0, 1>>, <<1, 3>>, <<1, 2>>, <<1, 1>>, <<5, 2>>>>
QuickStep == <<<<1, 10>>, <<1, 2>>>>
ThoroughStep == <<<<1, 20>>, <<1, 10>>, <<1, 2>>, <<1, 1>>>>
AllD == <<1, 5, 9>>
QuickRho == <<<<11, 10>>, <<2, 1>>>>
ThoroughRho == <<<<11, 10>>, <<3, 2>>, <<2, 1>>>>
QuickBase == <<"GaussLegendre", "Trapezoidal">>
ThoroughBase == <<"GaussLegendre", "FejerFirst", "Trapezoidal", "GaussChebyshevLobatto">>
=============================================================================
