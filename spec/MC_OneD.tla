------------------------------- MODULE MC_OneD -------------------------------
(***************************************************************************)
(* Model-checking instances of OneD.tla for property C01: the constants of *)
(* the two tiers (DESIGN.md section 5, C01 "Tiers").                       *)
(*                                                                         *)
(* Every tier is a fixed lattice PLUS values drawn from the pools below by *)
(* VERIF_SEED: the harness writes only a start index and a count per pool  *)
(* (module OneDSeed, generated per run: SeedAlpha == <<start, count>>,     *)
(* ...), the values are the ones written here (taken with stride 5,        *)
(* coprime to every pool length: distinct as long as count <= length).     *)
(* The pools are disjoint from the fixed lattices.                         *)
(* The fixed lattices contain the defaults declared by the constructors    *)
(* (alpha 0, delta/h 1/10 and 1, d 9, rho 11/10) so that the call form     *)
(* "omitted" (OneD.tla section 7b) is exercised in both tiers, and n = 1   *)
(* (smallest admissible size of the Gauss-Chebyshev-2 rules and of the     *)
(* exp-sinh family).                                                       *)
(***************************************************************************)
EXTENDS OneD, OneDSeed

Pick(pool_, sc_) == [q_ \in 1..sc_[2] |-> pool_[((sc_[1] + 5 * (q_ - 1)) % Len(pool_)) + 1]]

\* (alphas with small denominators only: the exact orthogonality proof FamiliesOrthogonal of every
\* alpha in use must fit TLC's 32-bit integers; alpha <= 8: beyond, the float evaluation of the
\* orthonormal Laguerre family by the harness loses the 3 orders of slack below the tolerance
\* - 3.5e-12 at alpha = 10, 3.7e-11 at 12, 2.9e-9 at 15, n <= 64)
AlphaPool == <<<<-4, 5>>, <<-3, 4>>, <<-2, 3>>, <<-1, 3>>, <<3, 2>>, <<2, 1>>, <<3, 1>>, <<7, 2>>, <<4, 1>>,
               <<9, 2>>, <<5, 1>>, <<11, 2>>, <<6, 1>>, <<8, 1>>>>
StepPool == <<<<1, 40>>, <<1, 8>>, <<1, 5>>, <<1, 4>>, <<3, 10>>, <<1, 3>>, <<2, 5>>, <<3, 5>>,
              <<7, 10>>, <<3, 4>>, <<4, 5>>, <<9, 10>>, <<5, 4>>, <<3, 2>>>>
RhoPool == <<<<21, 20>>, <<6, 5>>, <<5, 4>>, <<7, 5>>, <<7, 4>>, <<5, 2>>, <<3, 1>>, <<4, 1>>,
             <<5, 1>>, <<8, 1>>, <<10, 1>>>>
QuickNPool == [i_ \in 1..36 |-> i_ + 13]                                   \* 14..49
ThoroughNPool == [i_ \in 1..127 |-> i_ + 256]                             \* 257..383

QuickN == [i_ \in 1..12 |-> i_] \o Pick(QuickNPool, SeedN)                      \* 1..12 + one drawn size
ThoroughN == [i_ \in 1..100 |-> i_] \o <<127, 128, 255, 256>> \o Pick(ThoroughNPool, SeedN)  \* 1..100, 127, 128, 255, 256 + one
QuickAlpha == <<<<-1, 2>>, <<0, 1>>, <<5, 2>>>> \o Pick(AlphaPool, SeedAlpha)
ThoroughAlpha == <<<<-1, 2>>, <<0, 1>>, <<1, 3>>, <<1, 2>>, <<1, 1>>, <<5, 2>>>> \o Pick(AlphaPool, SeedAlpha)
QuickStep == <<<<1, 10>>, <<1, 2>>, <<1, 1>>>> \o Pick(StepPool, SeedStep)
ThoroughStep == <<<<1, 20>>, <<1, 10>>, <<1, 2>>, <<1, 1>>>> \o Pick(StepPool, SeedStep)
AllD == <<1, 5, 9>>
QuickRho == <<<<11, 10>>, <<2, 1>>>> \o Pick(RhoPool, SeedRho)
ThoroughRho == <<<<11, 10>>, <<3, 2>>, <<2, 1>>>> \o Pick(RhoPool, SeedRho)
QuickBase == <<"GaussLegendre", "Trapezoidal", "Simpson">>
ThoroughBase == <<"GaussLegendre", "FejerFirst", "Trapezoidal", "GaussChebyshevLobatto", "Simpson",
                  "ClenshawCurtis", "GaussChebyshev">>
=============================================================================
