SPECIFICATION BSpec
INVARIANT AdmissibleRetained
INVARIANT ProductsExact
INVARIANT PrefixIsWholeDegrees
INVARIANT BandLimitWithinRetained
INVARIANT UniformCase
INVARIANT ObsConforms
INVARIANT RouteConforms
INVARIANT RouteLaws
INVARIANT CallModeLaws
