SPECIFICATION Spec
CONSTANTS
  Inst = {1, 2}
  Ops = {"transform", "deriv", "inverse"}
  XMaxs = {3, 7}
  BInit = {0, 5}
INVARIANT WitnessTwoScales
