----------------------------- MODULE CacheTrace -----------------------------
(***************************************************************************)
(* Trace validation for C19 (caches).  traces_c19.json: sequence of traces;*)
(* every event carries the action, its arguments and what the harness      *)
(* measured after the call: contents of the new object compared with the   *)
(* shipped file loaded independently (p, w: "ok"/"dirty"), whether its      *)
(* arrays share memory with a cached array (pa, wa), and whether every      *)
(* cached array still equals the shipped data (clean).                      *)
(***************************************************************************)
EXTENDS CacheSys, Json
Traces == JsonDeserialize("traces_c19.json")
VARIABLES tid, l
tvars == <<vars, tid, l>>
Ev == Traces[tid][l]

Predicted(e_) ==   \* the observation the specification predicts for event e_ in the current state
    [p |-> SrcP(e_.m, e_.d), w |-> SrcW(e_.m, e_.d)]
Clause(e_) ==
    IF e_.exc # "" THEN "raised:" \o e_.exc
    ELSE CASE e_.ev \in {"New", "Atom", "Shell", "AtomOp", "AtomRot", "Mol"} ->
                 IF e_.p # Predicted(e_).p THEN "points-differ-from-shipped-data"
                 ELSE IF e_.w # Predicted(e_).w THEN "weights-differ-from-shipped-data"
                 ELSE IF e_.pa THEN "points-array-aliases-cache"
                 ELSE IF e_.wa THEN "weights-array-aliases-cache"
                 ELSE IF ~e_.clean THEN "cached-array-modified"
                 ELSE IF e_.ev = "New" /\ e_.incache # InCacheAfter(e_.m, e_.d, e_.flag) THEN "cache-membership"
                 ELSE "ok"
           [] e_.ev \in {"Edit", "Drop"} ->
                 IF ~e_.clean THEN "cached-array-modified" ELSE "ok"
           [] OTHER -> "unknown-event"
Apply(e_) ==
    CASE e_.ev = "New" -> NewAngular(e_.m, e_.d, e_.flag)
      [] e_.ev = "Edit" -> Edit(e_.i, e_.part)
      [] e_.ev = "Drop" -> Drop(e_.i)
      [] e_.ev = "Atom" -> NewAtom(e_.m, e_.d)
      [] e_.ev = "Shell" -> Shell(e_.m, e_.d)
      [] e_.ev = "AtomOp" -> AtomOp(e_.m, e_.d)
      [] e_.ev = "AtomRot" -> NewAtomRot(e_.m, e_.d)
      [] e_.ev = "Mol" -> NewMol(e_.m, e_.d)
Reset(t_) == /\ tid' = t_ /\ l' = 1
             /\ cache' = [mm_ \in Methods |-> [dd_ \in Degrees |-> Absent]]
             /\ objs' = <<>> /\ obs' = NoObs
TInit == Init /\ tid = 1 /\ l = 1
TNext ==
    /\ tid <= Len(Traces)
    /\ IF l > Len(Traces[tid])
         THEN PrintT(<<"ACCEPT", tid>>) /\ Reset(tid + 1)
         ELSE IF Clause(Ev) = "ok"
                THEN Apply(Ev) /\ l' = l + 1 /\ tid' = tid
                ELSE PrintT(<<"REJECT", tid, l, Ev.ev, Clause(Ev)>>) /\ Reset(tid + 1)
TSpec == TInit /\ [][TNext]_tvars
=============================================================================
