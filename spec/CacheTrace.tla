----------------------------- MODULE CacheTrace -----------------------------
(***************************************************************************)
(* Trace validation for C19 (caches).  traces_c19.json: sequence of traces;*)
(* every event carries the action, its arguments and what the harness      *)
(* measured after the call: contents of the new object compared with the   *)
(* shipped file loaded independently (p, w: "ok"/"dirty"), whether its      *)
(* arrays share memory with a cached array (pa, wa), and whether every      *)
(* cached array still equals the shipped data (clean).                      *)
(*                                                                          *)
(* New events also say HOW the grid was asked for (method spelling mreq,    *)
(* by = "degree" | "size", the number req) and what the object reports      *)
(* (od, os); CacheReq states which tabulated grid such a request denotes.   *)
(* AtomSet events (atomic grids whose shells use several degrees) carry the *)
(* per-shell requests reqs and the degrees ds the harness compared with.    *)
(***************************************************************************)
EXTENDS CacheSys, CacheReq
ASSUME TabsMonotone
Traces == JsonDeserialize("traces_c19.json")
VARIABLES tid, l
tvars == <<vars, tid, l>>
Ev == Traces[tid][l]

Predicted(e_) ==   \* the observation the specification predicts for event e_ in the current state
    [p |-> SrcP(e_.m, e_.d), w |-> SrcW(e_.m, e_.d)]
DegSet(e_) == {e_.ds[k_] : k_ \in 1..Len(e_.ds)}
\* the request layer: does the event name the grid the specification resolves the request to?
RequestClause(e_) ==
    IF "req" \notin DOMAIN e_ THEN "ok"
    ELSE IF ~Denotes(e_.mreq, e_.m) THEN "method-spelling-unknown-to-the-specification"
    ELSE IF ResolvedDegree(e_.m, e_.by, e_.req) # e_.d THEN "harness-and-specification-disagree-on-the-requested-grid"
    ELSE IF e_.od # e_.d THEN "reported-degree-is-not-that-of-the-requested-grid"
    ELSE IF e_.os # ResolvedSize(e_.m, e_.by, e_.req) THEN "reported-size-is-not-that-of-the-requested-grid"
    ELSE "ok"
Clause(e_) ==
    IF e_.exc # "" THEN "raised:" \o e_.exc
    ELSE CASE e_.ev = "AtomSet" ->
                 IF ~Denotes(e_.mreq, e_.m) THEN "method-spelling-unknown-to-the-specification"
                 ELSE IF Len(e_.ds) # Len(e_.reqs) \/ \E k_ \in 1..Len(e_.ds) : ResolvedDegree(e_.m, e_.by, e_.reqs[k_]) # e_.ds[k_]
                        THEN "harness-and-specification-disagree-on-the-requested-grid"
                 ELSE IF e_.p # AllOk(e_.m, DegSet(e_), "p") THEN "points-differ-from-shipped-data"
                 ELSE IF e_.w # AllOk(e_.m, DegSet(e_), "w") THEN "weights-differ-from-shipped-data"
                 ELSE IF e_.pa THEN "points-array-aliases-cache"
                 ELSE IF e_.wa THEN "weights-array-aliases-cache"
                 ELSE IF ~e_.clean THEN "cached-array-modified"
                 ELSE "ok"
           [] e_.ev = "Use" ->
                 IF e_.pa THEN "points-array-aliases-cache"
                 ELSE IF ~e_.clean THEN "cached-array-modified" ELSE "ok"
           [] e_.ev \in {"New", "Atom", "Shell", "AtomOp", "AtomRot", "Mol", "MolSize"} ->
                 IF e_.ev = "New" /\ RequestClause(e_) # "ok" THEN RequestClause(e_)
                 ELSE IF e_.p # Predicted(e_).p THEN "points-differ-from-shipped-data"
                 ELSE IF e_.w # Predicted(e_).w THEN "weights-differ-from-shipped-data"
                 ELSE IF e_.pa THEN "points-array-aliases-cache"
                 ELSE IF e_.wa THEN "weights-array-aliases-cache"
                 ELSE IF ~e_.clean THEN "cached-array-modified"
                 ELSE IF e_.ev = "New" /\ e_.incache # InCacheAfter(e_.m, e_.d, e_.flag) THEN "cache-membership"
                 ELSE "ok"
           [] e_.ev \in {"Edit", "Drop"} ->
                 IF ~e_.clean THEN "cached-array-modified" ELSE "ok"
           [] OTHER -> "unknown-event"
Apply(e_) ==
    CASE e_.ev = "New" -> NewAngular(e_.m, e_.d, e_.flag)
      [] e_.ev = "Edit" -> Edit(e_.i, e_.part)
      [] e_.ev = "Drop" -> Drop(e_.i)
      [] e_.ev = "Atom" -> NewAtom(e_.m, e_.d)
      [] e_.ev = "Shell" -> Shell(e_.m, e_.d)
      [] e_.ev = "AtomOp" -> AtomOp(e_.m, e_.d)
      [] e_.ev = "AtomRot" -> NewAtomRot(e_.m, e_.d)
      [] e_.ev = "Mol" -> NewMol(e_.m, e_.d)
      [] e_.ev = "MolSize" -> NewMol(e_.m, e_.d)
      [] e_.ev = "AtomSet" -> NewAtomSet(e_.m, DegSet(e_))
      [] e_.ev = "Use" -> Use(e_.i)
Reset(t_) == /\ tid' = t_ /\ l' = 1
             /\ cache' = [mm_ \in Methods |-> [dd_ \in Degrees |-> Absent]]
             /\ objs' = <<>> /\ obs' = NoObs
TInit == Init /\ tid = 1 /\ l = 1
TNext ==
    /\ tid <= Len(Traces)
    /\ IF l > Len(Traces[tid])
         THEN PrintT(<<"ACCEPT", tid>>) /\ Reset(tid + 1)
         ELSE IF Clause(Ev) = "ok"
                THEN Apply(Ev) /\ l' = l + 1 /\ tid' = tid
                ELSE PrintT(<<"REJECT", tid, l, Ev.ev, Clause(Ev)>>) /\ Reset(tid + 1)
TSpec == TInit /\ [][TNext]_tvars
=============================================================================
