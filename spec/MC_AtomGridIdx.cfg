INIT InitIdx
NEXT NextIdx
INVARIANT LawsHold
INVARIANT Emitted
INVARIANT IdxLoopInvariant
INVARIANT IdxEqualsDefinition
INVARIANT IdxMonotone
INVARIANT IdxLastIsTotal
INVARIANT IdxPartition
INVARIANT IdxShellLengths
