SPECIFICATION JSpec
INVARIANT LawsHold
INVARIANT CaseKnown
INVARIANT Judge
