\* C04, thorough tier: exact transformed grids of the rational rules
SPECIFICATION Spec4
CONSTANT Tier = "thorough"
CONSTANT EmitFile = "rtransform_trees.json"
INVARIANT BaseRuleExact
INVARIANT WeightsNonNegative
INVARIANT DomainOrdered
INVARIANT NodesInDomain
INVARIANT DomainIsCodomain
INVARIANT InferredBHitsRmax
INVARIANT SignedWeightsFollowDirection
INVARIANT GridRoundTrip
INVARIANT ExactnessTransport
INVARIANT EmitGrid
