----------------------------- MODULE CoulombGen -----------------------------
\* CoulombSys with a history variable: every behaviour of length MaxLen is printed once.
EXTENDS CoulombSys
CONSTANT MaxLen
VARIABLE chist
ggvars == <<cvars, chist>>
GInit == CInit /\ chist = <<>>
GNext ==
    /\ Len(chist) < MaxLen
    /\ \/ \E zz_ \in Fitted, sp_ \in Spell : Load(zz_, sp_) /\ chist' = Append(chist, <<"Load", sp_, zz_>>)
       \/ \E i_ \in 1..MaxObjs, pp_ \in {"c", "a"} : CEdit(i_, pp_) /\ chist' = Append(chist, <<"Edit", pp_, i_>>)
       \/ \E i_ \in 1..MaxObjs : CDrop(i_) /\ chist' = Append(chist, <<"Drop", "", i_>>)
       \/ \E kk_ \in RefusedKinds : Refused(kk_) /\ chist' = Append(chist, <<"Refused", kk_, 0>>)
GSpec == GInit /\ [][GNext]_ggvars
Emit == Len(chist) = MaxLen => PrintT(<<"CBEH", chist>>)
=============================================================================
