SPECIFICATION GRSpec
CONSTANTS
  Sizes <- MC_Sizes
  Wts <- MC_Wts
  MaxGens = 3
  Fresh = TRUE
INVARIANT NewGenFresh
INVARIANT YieldsExactlySize
INVARIANT ItemInOrder
INVARIANT SizeIsTotal
INVARIANT StaticLaws
PROPERTY StepIndependent
