INIT InitFan
NEXT NextFan
INVARIANT FanIsOption
INVARIANT FanConforms
