INIT InitCfg
NEXT NextCfg
INVARIANT CfgIsConfig
INVARIANT CfgConforms
INVARIANT CfgExpectedWellFormed
