SPECIFICATION XSpec
INVARIANT XProblemSound
INVARIANT XCoefSound
INVARIANT XIntervalSound
INVARIANT XWitness
