------------------------------ MODULE CacheReq ------------------------------
(***************************************************************************)
(* C19, request layer.  The cache machine (CacheSys) is keyed by the       *)
(* RESOLVED grid (method, tabulated degree).  Callers name a grid in many  *)
(* ways: the method in any letter case, a degree that is tabulated or not  *)
(* (the next tabulated one is used), a number of points that is tabulated  *)
(* or not (the next tabulated size is used), Python or NumPy integers.     *)
(* This module states which tabulated grid a request denotes; CacheTrace   *)
(* judges with it that the harness and the library agree on the grid that  *)
(* was asked for, whatever was built or cached before.                     *)
(*                                                                          *)
(* tabs_c19.json (written by the harness from the tables the library ships)*)
(*   [method |-> <<[d |-> degree, s |-> size], ...>>]                      *)
(***************************************************************************)
EXTENDS Integers, Sequences, FiniteSets, Json
Tabs == JsonDeserialize("tabs_c19.json")
Idx(mm_) == 1..Len(Tabs[mm_])

\* tables are strictly increasing in degree and in size (checked once by ASSUME in CacheTrace)
TabsMonotone ==
    \A mm_ \in DOMAIN Tabs : \A k_ \in 1..(Len(Tabs[mm_]) - 1) :
        Tabs[mm_][k_].d < Tabs[mm_][k_ + 1].d /\ Tabs[mm_][k_].s < Tabs[mm_][k_ + 1].s

\* the row a request denotes: the least tabulated degree (size) that is >= the requested number; 0 = none
RowByDeg(mm_, r_) ==
    LET cand == {k_ \in Idx(mm_) : Tabs[mm_][k_].d >= r_}
    IN IF cand = {} THEN 0 ELSE CHOOSE k_ \in cand : \A j_ \in cand : k_ <= j_
RowBySize(mm_, r_) ==
    LET cand == {k_ \in Idx(mm_) : Tabs[mm_][k_].s >= r_}
    IN IF cand = {} THEN 0 ELSE CHOOSE k_ \in cand : \A j_ \in cand : k_ <= j_
Row(mm_, by_, r_) == IF by_ = "degree" THEN RowByDeg(mm_, r_) ELSE RowBySize(mm_, r_)
ResolvedDegree(mm_, by_, r_) == IF Row(mm_, by_, r_) = 0 THEN 0 ELSE Tabs[mm_][Row(mm_, by_, r_)].d
ResolvedSize(mm_, by_, r_) == IF Row(mm_, by_, r_) = 0 THEN 0 ELSE Tabs[mm_][Row(mm_, by_, r_)].s

\* spellings of the method argument that denote a method (the library lower-cases the argument)
Spellings == [lebedev |-> {"lebedev", "Lebedev", "LEBEDEV", "lEbEdEv"},
              spherical |-> {"spherical", "Spherical", "SPHERICAL", "sPhErIcAl"},
              maxdet |-> {"maxdet", "Maxdet", "MAXDET", "MaxDet"},
              ahrens_beylkin |-> {"ahrens_beylkin", "Ahrens_Beylkin", "AHRENS_BEYLKIN", "Ahrens_beylkin"}]
Denotes(spelling_, mm_) == mm_ \in DOMAIN Spellings /\ spelling_ \in Spellings[mm_]
=============================================================================
