SPECIFICATION ESpec
INVARIANT VerdictWellFormed
INVARIANT DocumentedValidIsAccepted
INVARIANT EveryClauseDecides
INVARIANT SomeValid
INVARIANT Emit
