SPECIFICATION JSpec
INVARIANT TableLawsHold
INVARIANT CaseLawsHold
INVARIANT CaseKnown
INVARIANT Judge
