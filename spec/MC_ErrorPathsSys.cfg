SPECIFICATION SSpec
CONSTANTS
  Kinds = {"Grid", "OneDGrid", "PeriodicGrid", "AtomGrid", "Scaled"}
  Validate = TRUE
INVARIANT SizeConsistent
PROPERTY RejectIsAtomic
PROPERTY OnlyMutatorsMutate
