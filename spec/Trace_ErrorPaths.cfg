SPECIFICATION TSpec
CONSTANTS
  Kinds = {}
  Validate = TRUE
INVARIANT SizeConsistent
PROPERTY RejectIsAtomic
