-------------------------------- MODULE ExprX --------------------------------
(***************************************************************************)
(* Exact evaluation of Expr trees beyond the rational fragment (helper of  *)
(* RTransform.tla; Expr.tla itself is not modified).                       *)
(*                                                                         *)
(* EvalQ of Expr.tla stops at the first root, logarithm or division by     *)
(* zero, and a 32-bit overflow aborts the whole TLC run.  The radial       *)
(* transforms need a little more, and all of it can be done exactly:       *)
(*                                                                         *)
(*  - EXACT ROOTS.  u^(p/q) for a rational u whose numerator and           *)
(*    denominator are perfect q-th powers (the argument of the root in an  *)
(*    inverse map G is by construction the q-th power of a rational when   *)
(*    r = F(x) and x is rational).                                         *)
(*  - ONE LOGARITHM.  Values a + b*ln(c) with rational a, b, c (c > 0):    *)
(*    closed under adding / multiplying by rationals, and exp(b*ln c) =    *)
(*    c^b is rational again.  This is what the value of a logarithmic map  *)
(*    (MultiExp, Knowles, Exp) at a rational point looks like, and its     *)
(*    inverse map takes it back to a rational.                             *)
(*  - THE TWO INFINITIES, with the arithmetic of limits of monotone        *)
(*    functions: u/0 = sign(u)*inf (u # 0), ln 0 = -inf, exp(-inf) = 0,    *)
(*    inf + finite = inf, inf * positive = inf, finite/inf = 0.            *)
(*    Indeterminate forms (0*inf, inf-inf, inf/inf, 0/0) are NOT defined:  *)
(*    TLC stops with an error if an evaluation meets one.                  *)
(*  - CHECKED ARITHMETIC.  Every integer product / sum is tested BEFORE it *)
(*    is formed; if it would leave 32 bits the result is the value XOvf    *)
(*    ("not representable"; also used for an irrational root or ratio of   *)
(*    logarithms), which is absorbing.  A check that meets XOvf             *)
(*    is reported as undecided by TLC (and is decided by the harness with  *)
(*    unbounded integers on the same tree); it is never a wrong verdict.   *)
(*                                                                         *)
(* An X-value is a record [t, a, b, c]: t = "fin" stands for a + b*ln(c),  *)
(* t = "pinf"/"ninf" for the infinities, t = "ovf" for XOvf.  Normal form: *)
(* b = 0 <=> c = 1; c > 1 otherwise (b*ln c = (-b)*ln(1/c)).  Every        *)
(* unsupported combination is a CASE without a matching arm, i.e. a loud   *)
(* TLC evaluation error - never a silently wrong value.                    *)
(***************************************************************************)
EXTENDS Expr

\* ---- checked integer arithmetic -------------------------------------------
MaxInt == 2147483647
MulOK(p_, q_) == q_ = 0 \/ Abs(p_) <= MaxInt \div Abs(q_)
AddOK(p_, q_) == IF p_ >= 0 THEN q_ <= MaxInt - p_ ELSE q_ >= (-MaxInt) - p_

\* ---- checked rational arithmetic; <<0, 0>> = not representable ------------
\* (cancels BEFORE multiplying: the quotient rule produces sums over equal, large
\* denominators, whose cross products would overflow although the result is small)
QOvf == <<0, 0>>
QBad(q_) == q_[2] = 0
QInvS(a_) == IF QBad(a_) THEN QOvf ELSE Q(a_[2], a_[1])          \* a # 0
QAddS(a_, b_) ==
    IF QBad(a_) \/ QBad(b_) THEN QOvf
    ELSE LET g_ == Gcd(a_[2], b_[2])
             x_ == a_[2] \div g_
             y_ == b_[2] \div g_
         IN IF ~(MulOK(x_, b_[2]) /\ MulOK(a_[1], y_) /\ MulOK(b_[1], x_)) THEN QOvf
            ELSE IF ~AddOK(a_[1] * y_, b_[1] * x_) THEN QOvf
            ELSE Q(a_[1] * y_ + b_[1] * x_, x_ * b_[2])
QMulS(a_, b_) ==
    IF QBad(a_) \/ QBad(b_) THEN QOvf
    ELSE IF a_[1] = 0 \/ b_[1] = 0 THEN QZero
    ELSE LET g1_ == Gcd(Abs(a_[1]), b_[2])
             g2_ == Gcd(Abs(b_[1]), a_[2])
             n1_ == a_[1] \div g1_  n2_ == b_[1] \div g2_
             d1_ == a_[2] \div g2_  d2_ == b_[2] \div g1_
         IN IF MulOK(n1_, n2_) /\ MulOK(d1_, d2_) THEN <<n1_ * n2_, d1_ * d2_>> ELSE QOvf
QDivS(a_, b_) == QMulS(a_, QInvS(b_))
RECURSIVE QPowS(_, _)
QPowS(a_, k_) == IF k_ = 0 THEN QOne ELSE IF k_ < 0 THEN QPowS(QInvS(a_), -k_) ELSE QMulS(a_, QPowS(a_, k_ - 1))
\* -1 / 0 / 1, or 9 if the difference is not representable
QCmpS(a_, b_) == LET d_ == QAddS(a_, QNeg(b_)) IN IF QBad(d_) THEN 9 ELSE QSgn(d_)

\* ---- exact integer roots --------------------------------------------------
RECURSIVE IPow(_, _)
IPow(b_, k_) == IF k_ = 0 THEN 1 ELSE b_ * IPow(b_, k_ - 1)
\* largest base whose k-th power still fits a 32-bit integer
RootBound(k_) == CASE k_ = 1 -> MaxInt [] k_ = 2 -> 46340 [] k_ = 3 -> 1290
                   [] k_ = 4 -> 215 [] k_ = 5 -> 73 [] k_ = 6 -> 35 [] k_ = 7 -> 21
                   [] k_ = 8 -> 14 [] k_ = 9 -> 10 [] k_ = 10 -> 8 [] k_ = 11 -> 7
                   [] k_ \in 12..13 -> 5 [] k_ \in 14..15 -> 4 [] k_ \in 16..19 -> 3
                   [] k_ \in 20..30 -> 2 [] k_ > 30 -> 1
RECURSIVE IRootB(_, _, _, _)
IRootB(n_, k_, lo_, hi_) ==   \* invariant lo^k <= n < (hi+1)^k
    IF lo_ >= hi_ THEN lo_
    ELSE LET mid_ == (lo_ + hi_ + 1) \div 2 IN
         IF IPow(mid_, k_) <= n_ THEN IRootB(n_, k_, mid_, hi_) ELSE IRootB(n_, k_, lo_, mid_ - 1)
IRoot(n_, k_) == IRootB(n_, k_, 0, Min2(n_, RootBound(k_)))
HasIRoot(n_, k_) == n_ >= 0 /\ IPow(IRoot(n_, k_), k_) = n_
QHasRoot(q_, k_) == HasIRoot(q_[1], k_) /\ HasIRoot(q_[2], k_)
QRoot(q_, k_) == <<IRoot(q_[1], k_), IRoot(q_[2], k_)>>     \* only if QHasRoot(q_, k_)
\* c = g^j with g not a perfect power (j-th roots tried up to 10, iterated)
PrimExp1(c_) == CHOOSE j_ \in 1..10 : QHasRoot(c_, j_) /\ \A i_ \in (j_ + 1)..10 : ~QHasRoot(c_, i_)
RECURSIVE PrimExp(_)
PrimExp(c_) == LET j_ == PrimExp1(c_) IN IF j_ = 1 THEN 1 ELSE j_ * PrimExp(QRoot(c_, j_))
RECURSIVE PrimBase(_)
PrimBase(c_) == LET j_ == PrimExp1(c_) IN IF j_ = 1 THEN c_ ELSE PrimBase(QRoot(c_, j_))

\* ---- X-values ---------------------------------------------------------------
XQ(q_) == [t |-> "fin", a |-> q_, b |-> QZero, c |-> QOne]
XI(i_) == XQ(QI(i_))
XPInf == [t |-> "pinf", a |-> QZero, b |-> QZero, c |-> QOne]
XNInf == [t |-> "ninf", a |-> QZero, b |-> QZero, c |-> QOne]
XOvf  == [t |-> "ovf", a |-> QZero, b |-> QZero, c |-> QOne]
IsOvf(v_) == v_.t = "ovf"
IsFin(v_) == v_.t = "fin"
IsRat(v_) == v_.t = "fin" /\ v_.b = QZero
IsInf(v_) == v_.t = "pinf" \/ v_.t = "ninf"
\* a + b ln c in normal form (c > 0); XOvf if a component is not representable
XL(a_, b_, c_) ==
    IF QBad(a_) \/ QBad(b_) \/ QBad(c_) THEN XOvf
    ELSE IF b_ = QZero \/ c_ = QOne THEN XQ(a_)
    ELSE IF c_[1] < c_[2] THEN [t |-> "fin", a |-> a_, b |-> QNeg(b_), c |-> <<c_[2], c_[1]>>]
    ELSE [t |-> "fin", a |-> a_, b |-> b_, c |-> c_]
XSignInf(s_) == IF s_ > 0 THEN XPInf ELSE XNInf          \* s_ # 0
InfSign(v_) == IF v_.t = "pinf" THEN 1 ELSE -1
\* sign of a value: rational part only, or pure logarithm part only (c > 1 => ln c > 0),
\* or both parts of the same sign
XSgn(v_) == CASE IsInf(v_) -> InfSign(v_)
              [] IsRat(v_) -> QSgn(v_.a)
              [] IsFin(v_) /\ ~IsRat(v_) /\ v_.a = QZero -> QSgn(v_.b)
              [] IsFin(v_) /\ ~IsRat(v_) /\ v_.a # QZero /\ QSgn(v_.a) = QSgn(v_.b) -> QSgn(v_.a)

XNeg(v_) == CASE v_.t = "pinf" -> XNInf [] v_.t = "ninf" -> XPInf [] v_.t = "ovf" -> XOvf
              [] v_.t = "fin" -> [t |-> "fin", a |-> QNeg(v_.a), b |-> QNeg(v_.b), c |-> v_.c]
XAbs(v_) == IF IsOvf(v_) THEN XOvf ELSE IF XSgn(v_) < 0 THEN XNeg(v_) ELSE v_
XAdd0(u_, v_) ==
    CASE IsFin(u_) /\ IsFin(v_) /\ IsRat(u_) -> XL(QAddS(u_.a, v_.a), v_.b, v_.c)
      [] IsFin(u_) /\ IsFin(v_) /\ ~IsRat(u_) /\ IsRat(v_) -> XL(QAddS(u_.a, v_.a), u_.b, u_.c)
      [] IsFin(u_) /\ IsFin(v_) /\ ~IsRat(u_) /\ ~IsRat(v_) /\ u_.c = v_.c ->
            XL(QAddS(u_.a, v_.a), QAddS(u_.b, v_.b), u_.c)
      [] IsInf(u_) /\ IsFin(v_) -> u_
      [] IsFin(u_) /\ IsInf(v_) -> v_
      [] IsInf(u_) /\ IsInf(v_) /\ u_.t = v_.t -> u_
XAdd(u_, v_) == IF IsOvf(u_) \/ IsOvf(v_) THEN XOvf ELSE XAdd0(u_, v_)
XSub(u_, v_) == XAdd(u_, XNeg(v_))
XScale(q_, v_) == XL(QMulS(q_, v_.a), QMulS(q_, v_.b), v_.c)     \* rational times finite value
XMul0(u_, v_) ==
    CASE IsRat(u_) /\ IsFin(v_) -> XScale(u_.a, v_)
      [] IsFin(u_) /\ ~IsRat(u_) /\ IsRat(v_) -> XScale(v_.a, u_)
      [] IsInf(u_) /\ XSgn(v_) # 0 -> XSignInf(InfSign(u_) * XSgn(v_))
      [] IsFin(u_) /\ IsInf(v_) /\ XSgn(u_) # 0 -> XSignInf(InfSign(v_) * XSgn(u_))
XMul(u_, v_) == IF IsOvf(u_) \/ IsOvf(v_) THEN XOvf ELSE XMul0(u_, v_)
XDiv0(u_, v_) ==
    CASE IsRat(v_) /\ v_.a # QZero /\ IsFin(u_) -> XScale(QInvS(v_.a), u_)
      [] IsRat(v_) /\ v_.a # QZero /\ IsInf(u_) -> XSignInf(InfSign(u_) * QSgn(v_.a))
      \* division by an exact zero: the trees of this specification only ever reach it from
      \* the positive side (1-x at x = 1, x+1 at x = -1, 1-bx at x = 1/b, 1-((x+1)/2)^k at x = 1,
      \* and squares of these)
      [] IsRat(v_) /\ v_.a = QZero /\ XSgn(u_) # 0 -> XSignInf(XSgn(u_))
      [] IsInf(v_) /\ IsFin(u_) -> XQ(QZero)
      \* (b1 ln c1) / (b2 ln c2) with c1 = g^j1, c2 = g^j2  =  b1 j1 / (b2 j2)
      [] IsFin(u_) /\ IsFin(v_) /\ ~IsRat(v_) /\ ~IsRat(u_) /\ u_.a = QZero /\ v_.a = QZero
         /\ PrimBase(u_.c) = PrimBase(v_.c) ->
            XL(QDivS(QMulS(u_.b, QI(PrimExp(u_.c))), QMulS(v_.b, QI(PrimExp(v_.c)))), QZero, QOne)
      [] IsFin(u_) /\ IsFin(v_) /\ ~IsRat(v_) /\ ~IsRat(u_) /\ u_.a = QZero /\ v_.a = QZero
         /\ PrimBase(u_.c) # PrimBase(v_.c) -> XOvf                                   \* irrational ratio
XDiv(u_, v_) == IF IsOvf(u_) \/ IsOvf(v_) THEN XOvf ELSE XDiv0(u_, v_)
RECURSIVE XPowI(_, _)
XPowI(v_, k_) ==
    CASE IsOvf(v_) -> XOvf
      [] ~IsOvf(v_) /\ k_ = 0 -> XI(1)
      [] ~IsOvf(v_) /\ k_ < 0 -> XDiv(XI(1), XPowI(v_, -k_))
      [] k_ > 0 /\ IsRat(v_) -> XL(QPowS(v_.a, k_), QZero, QOne)
      [] k_ > 0 /\ IsInf(v_) -> IF v_.t = "pinf" \/ k_ % 2 = 0 THEN XPInf ELSE XNInf
\* u^(p/q), u >= 0 rational or +inf, exponent a rational constant
XPowQ(u_, e_) ==
    LET p_ == e_[1] q_ == e_[2] IN
    CASE IsOvf(u_) -> XOvf
      [] ~IsOvf(u_) /\ e_ = QZero -> XI(1)
      [] ~IsOvf(u_) /\ e_ # QZero /\ q_ = 1 -> XPowI(u_, p_)
      [] q_ > 1 /\ u_.t = "pinf" -> IF p_ > 0 THEN XPInf ELSE XQ(QZero)
      [] q_ > 1 /\ IsRat(u_) /\ u_.a = QZero /\ p_ > 0 -> XQ(QZero)
      [] q_ > 1 /\ IsRat(u_) /\ u_.a = QZero /\ p_ < 0 -> XPInf
      [] q_ > 1 /\ IsRat(u_) /\ QSgn(u_.a) > 0 /\ QHasRoot(u_.a, q_) -> XPowI(XQ(QRoot(u_.a, q_)), p_)
      [] q_ > 1 /\ IsRat(u_) /\ QSgn(u_.a) > 0 /\ ~QHasRoot(u_.a, q_) -> XOvf      \* irrational root
XPow(u_, e_) == CASE IsOvf(e_) -> XOvf [] IsRat(e_) -> XPowQ(u_, e_.a)
XLn(v_) == CASE IsOvf(v_) -> XOvf
             [] IsRat(v_) /\ QSgn(v_.a) > 0 -> XL(QZero, QOne, v_.a)
             [] IsRat(v_) /\ v_.a = QZero -> XNInf
             [] v_.t = "pinf" -> XPInf
XExp(v_) == CASE IsOvf(v_) -> XOvf
              [] v_.t = "pinf" -> XPInf
              [] v_.t = "ninf" -> XQ(QZero)
              [] IsRat(v_) /\ v_.a = QZero -> XI(1)
              [] IsFin(v_) /\ ~IsRat(v_) /\ v_.a = QZero -> XPowQ(XQ(v_.c), v_.b)

\* ---- order (only where it is decidable without approximating a logarithm) -----
\* XCmp = -1 / 0 / 1, or 9 when an operand or an intermediate value is not representable
XCmp(u_, v_) ==
    CASE IsOvf(u_) \/ IsOvf(v_) -> 9
      [] ~IsOvf(u_) /\ ~IsOvf(v_) /\ u_ = v_ -> 0
      [] ~IsOvf(u_) /\ ~IsOvf(v_) /\ u_ # v_ /\ (u_.t = "ninf" \/ v_.t = "pinf") -> -1
      [] ~IsOvf(u_) /\ ~IsOvf(v_) /\ u_ # v_ /\ (u_.t = "pinf" \/ v_.t = "ninf") -> 1
      [] u_ # v_ /\ IsRat(u_) /\ IsRat(v_) -> QCmpS(u_.a, v_.a)
      \* a + b1 ln c1  vs  a + b2 ln c2 (same a)
      [] u_ # v_ /\ IsFin(u_) /\ IsFin(v_) /\ ~(IsRat(u_) /\ IsRat(v_)) /\ u_.a = v_.a ->
            LET su_ == QSgn(u_.b) sv_ == QSgn(v_.b) IN     \* sign of b ln c, c > 1 (0 for a rational)
            CASE su_ < sv_ -> -1
              [] su_ > sv_ -> 1
              \* same sign s # 0: s|b1| ln c1  vs  s|b2| ln c2; decidable when |b1| = |b2|
              [] su_ = sv_ /\ QAbs(u_.b) = QAbs(v_.b) ->
                    LET c_ == QCmpS(u_.c, v_.c) IN IF c_ = 9 THEN 9 ELSE su_ * c_
XLt(u_, v_) == XCmp(u_, v_) = -1
XLe(u_, v_) == XCmp(u_, v_) \in {-1, 0}
\* "u < v, or undecided because of the 32-bit limit"
XLtU(u_, v_) == XCmp(u_, v_) \in {-1, 9}
\* "u = v, or undecided because of the 32-bit limit"
XEqU(u_, v_) == IsOvf(u_) \/ IsOvf(v_) \/ u_ = v_

\* ---- evaluation ------------------------------------------------------------------
\* env_ maps variable names to X-values
XEnv(qenv_) == [n_ \in DOMAIN qenv_ |-> XQ(qenv_[n_])]
RECURSIVE EvalX(_, _)
EvalX(e_, env_) ==
    CASE e_.op = "c" -> XQ(<<e_.n, e_.d>>)
      [] e_.op = "v" -> env_[e_.name]
      [] e_.op = "pinf" -> XPInf
      [] e_.op = "neg" -> XNeg(EvalX(e_.a, env_))
      [] e_.op = "abs" -> XAbs(EvalX(e_.a, env_))
      [] e_.op = "add" -> XAdd(EvalX(e_.a, env_), EvalX(e_.b, env_))
      [] e_.op = "sub" -> XSub(EvalX(e_.a, env_), EvalX(e_.b, env_))
      [] e_.op = "mul" -> XMul(EvalX(e_.a, env_), EvalX(e_.b, env_))
      [] e_.op = "div" -> XDiv(EvalX(e_.a, env_), EvalX(e_.b, env_))
      [] e_.op = "powi" -> XPowI(EvalX(e_.a, env_), e_.k)
      [] e_.op = "pow" -> XPow(EvalX(e_.a, env_), EvalX(e_.b, env_))
      [] e_.op = "sqrt" -> XPowQ(EvalX(e_.a, env_), <<1, 2>>)
      [] e_.op = "exp" -> XExp(EvalX(e_.a, env_))
      [] e_.op = "log" -> XLn(EvalX(e_.a, env_))

PInfE == [op |-> "pinf"]      \* tree leaf for +infinity (end points of domains / codomains)
=============================================================================
