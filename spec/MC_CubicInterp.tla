---------------------------- MODULE MC_CubicInterp ----------------------------
(***************************************************************************)
(* C13, interpolation.  The specification owns the obligations:            *)
(*   - test functions: polynomials of degree <= 3 in each variable with    *)
(*     small integer coefficients (fixed ones and Seed-dependent sparse    *)
(*     ones), trilinear ones for method="linear", and positive functions   *)
(*     exp(q) with q such a polynomial for the logarithmic variant;        *)
(*   - their partial derivatives of total order <= 3, DERIVED with the     *)
(*     symbolic derivative of Expr.tla (single-variable ones for exp(q));  *)
(*   - the grids (axis-parallel uniform, and tensor grids with unequally   *)
(*     spaced nodes; >= 7 nodes per direction because the implementation   *)
(*     drops the first and the last two nodes and a not-a-knot spline      *)
(*     needs four nodes to reproduce cubics) and rational interior query   *)
(*     points.                                                             *)
(* TLC checks the derived derivative trees against term-by-term calculus   *)
(* (falling factorials) exactly on the integer lattice {-1..2}^3, and the  *)
(* admissibility of every emitted case; the trees are evaluated by the     *)
(* generic evaluator (exact Fractions) to obtain the expected values.      *)
(***************************************************************************)
EXTENDS Cubic, Json, SequencesExt

CONSTANTS Seed, NRandom, NQuery

Lcg(x_) == (x_ * 1103 + 12345) % 65536
RECURSIVE LcgSeq(_, _)
LcgSeq(x_, n_) == IF n_ = 0 THEN <<>> ELSE <<Lcg(x_)>> \o LcgSeq(Lcg(x_), n_ - 1)
Pick(x_, m_) == (x_ \div 7) % m_

DenseTerms == [n_ \in 1..64 |->
    LET ti == (n_ - 1) \div 16  tj == ((n_ - 1) \div 4) % 4  tk == (n_ - 1) % 4
    IN <<ti, tj, tk, ((ti + 2 * tj + 3 * tk + Seed) % 5) - 2>>]
FixedPolys == <<
    DenseTerms,
    << <<3, 3, 3, 1>> >>,
    << <<3, 0, 0, 2>>, <<0, 3, 0, -1>>, <<0, 0, 3, 3>>, <<2, 1, 0, 1>>, <<0, 0, 0, -2>> >>,
    << <<0, 0, 0, 1>>, <<1, 0, 0, 1>>, <<0, 1, 0, 2>>, <<0, 0, 1, -1>>, <<1, 1, 0, 1>>, <<0, 1, 1, -2>>,
       <<1, 0, 1, 1>>, <<1, 1, 1, 3>> >>,
    << <<0, 0, 0, 2>> >> >>
RandomTerms(k_, nterms_, maxdeg_, maxc_) ==
    LET s == LcgSeq((Seed * 577 + k_ * 211 + 3) % 65536, 4 * nterms_)
    IN [n_ \in 1..nterms_ |->
          <<Pick(s[4 * n_ - 3], maxdeg_ + 1), Pick(s[4 * n_ - 2], maxdeg_ + 1), Pick(s[4 * n_ - 1], maxdeg_ + 1),
            LET c == Pick(s[4 * n_], 2 * maxc_) - maxc_ IN IF c >= 0 THEN c + 1 ELSE c>>]
CubicPolys == FixedPolys \o [k_ \in 1..NRandom |-> RandomTerms(k_, 6, 3, 3)]
LinearPolys == <<FixedPolys[4], FixedPolys[5]>> \o [k_ \in 1..NRandom |-> RandomTerms(100 + k_, 5, 1, 3)]
\* exponents for the logarithmic variant: few terms, coefficients +-1 (keeps exp(q) moderate on the box)
LogExponents == << << <<1, 0, 0, 1>>, <<0, 1, 0, -1>>, <<0, 0, 1, 1>> >>,
                   << <<3, 0, 0, 1>>, <<0, 2, 1, -1>>, <<1, 1, 1, 1>>, <<0, 0, 0, -1>> >> >>
                \o [k_ \in 1..NRandom \div 2 |-> RandomTerms(200 + k_, 3, 3, 1)]

\* grids: axis-parallel uniform grids [origin, step: rationals] and tensor grids [nodes: rationals]
UniformGrids == <<
    [shape |-> <<8, 7, 9>>, origin |-> << <<-3, 5>>, <<-1, 2>>, <<-2, 5>> >>, step |-> << <<1, 4>>, <<3, 10>>, <<1, 5>> >>],
    [shape |-> <<7, 7, 7>>, origin |-> << <<1, 10>>, <<-4, 5>>, <<0, 1>> >>, step |-> << <<3, 20>>, <<1, 4>>, <<1, 8>> >>] >>
TensorNodes == <<
    << <<-3, 5>>, <<-2, 5>>, <<-1, 10>>, <<1, 5>>, <<2, 5>>, <<7, 10>>, <<1, 1>>, <<6, 5>> >>,
    << <<-1, 2>>, <<-1, 4>>, <<0, 1>>, <<1, 5>>, <<1, 2>>, <<9, 10>>, <<11, 10>> >>,
    << <<-2, 5>>, <<-1, 5>>, <<1, 10>>, <<3, 10>>, <<2, 5>>, <<3, 5>>, <<9, 10>>, <<1, 1>>, <<6, 5>> >> >>
NodesOfUniform(g_) == [d_ \in 1..3 |-> [x_ \in 1..g_.shape[d_] |-> QAdd(g_.origin[d_], QMul(QI(x_ - 1), g_.step[d_]))]]
AllNodes == [x_ \in 1..Len(UniformGrids) |-> NodesOfUniform(UniformGrids[x_])] \o <<TensorNodes>>
StrictlyIncreasingQ(s_) == \A x_ \in 1..Len(s_) - 1 : QLt(s_[x_], s_[x_ + 1])
GridsAdmissible == \A g_ \in 1..Len(AllNodes) : \A d_ \in 1..3 :
                       Len(AllNodes[g_][d_]) >= 7 /\ StrictlyIncreasingQ(AllNodes[g_][d_])
\* rational query points strictly inside the box of grid g: lo + (hi - lo) * u / 97, u in 1..96
QueryPoints(g_) ==
    [k_ \in 1..NQuery |->
        LET s == LcgSeq((Seed * 389 + g_ * 9973 + k_ * 5381 + 11) % 65536, 6)
        IN [d_ \in 1..3 |->
              LET nodes == AllNodes[g_][d_]
                  lo == nodes[1]  hi == nodes[Len(nodes)]
              IN QAdd(lo, QMul(QSub(hi, lo), Q(1 + Pick(s[d_ + 3], 96), 97)))]]
QueriesInside == \A g_ \in 1..Len(AllNodes) : \A k_ \in 1..NQuery : \A d_ \in 1..3 :
                    LET nodes == AllNodes[g_][d_] IN
                    QLt(nodes[1], QueryPoints(g_)[k_][d_]) /\ QLt(QueryPoints(g_)[k_][d_], nodes[Len(nodes)])

NuSeq(S_) == [x_ \in 1..Cardinality(S_) |->
                 CHOOSE nu_ \in S_ : Cardinality({o_ \in S_ : o_[1] * 16 + o_[2] * 4 + o_[3] < nu_[1] * 16 + nu_[2] * 4 + nu_[3]}) = x_ - 1]
PartialsOf(tree_, S_) == [x_ \in 1..Cardinality(S_) |-> [nu |-> NuSeq(S_)[x_], tree |-> Partial(tree_, NuSeq(S_)[x_])]]
ASSUME /\ \A x_ \in 1..Len(CubicPolys) : MaxDegreeOK(CubicPolys[x_])
       /\ \A x_ \in 1..Len(LinearPolys) : Trilinear(LinearPolys[x_])
       /\ \A x_ \in 1..Len(LogExponents) : MaxDegreeOK(LogExponents[x_])
       /\ GridsAdmissible /\ QueriesInside
ASSUME JsonSerialize("cases_interp.json",
    [uniform |-> UniformGrids, nodes |-> AllNodes,
     queries |-> [g_ \in 1..Len(AllNodes) |-> QueryPoints(g_)],
     cubic |-> [x_ \in 1..Len(CubicPolys) |-> [terms |-> CubicPolys[x_], partials |-> PartialsOf(PolyTree(CubicPolys[x_]), NuSet)]],
     linear |-> [x_ \in 1..Len(LinearPolys) |-> [terms |-> LinearPolys[x_], tree |-> PolyTree(LinearPolys[x_])]],
     logv |-> [x_ \in 1..Len(LogExponents) |->
                 [terms |-> LogExponents[x_], partials |-> PartialsOf(Exp(PolyTree(LogExponents[x_])), SingleNu)]]])

(***************************************************************************)
(* Further grids of the quantifier ("all origins, (skewed) axes"): the     *)
(* reproduction obligation  interpolant(q) = p(q)  is stated in Cartesian  *)
(* coordinates and does not depend on how the grid is laid out:            *)
(*   - axis-parallel uniform grids whose steps are NEGATIVE (the grid runs *)
(*     towards smaller coordinates) and tensor grids with DESCENDING nodes *)
(*     are ordinary rectilinear grids: the polynomial must be reproduced;  *)
(*   - uniform grids whose axes matrix is not diagonal (skewed, or rotated *)
(*     by a quarter turn): the nested one-dimensional splines along the    *)
(*     Cartesian directions do not apply; the weakest reading of the       *)
(*     property is taken: the call either reproduces the polynomial or is  *)
(*     rejected with an exception - it never returns a different number.   *)
(* A grid is [name, shape, origin: 3 rationals, axes: 3 x 3 rationals      *)
(* (rows = axis vectors)].                                                 *)
(***************************************************************************)
ZQ == <<0, 1>>
ExtraUniform == <<
    [name |-> "negative-step", shape |-> <<8, 7, 9>>, origin |-> << <<23, 20>>, <<-1, 2>>, <<6, 5>> >>,
     axes |-> << << <<-1, 4>>, ZQ, ZQ >>, << ZQ, <<3, 10>>, ZQ >>, << ZQ, ZQ, <<-1, 5>> >> >>],
    [name |-> "nondiagonal-skewed", shape |-> <<8, 7, 9>>, origin |-> << <<-3, 5>>, <<-1, 2>>, <<-2, 5>> >>,
     axes |-> << << <<1, 4>>, <<1, 20>>, ZQ >>, << ZQ, <<3, 10>>, ZQ >>, << ZQ, ZQ, <<1, 5>> >> >>],
    [name |-> "nondiagonal-rotated", shape |-> <<7, 8, 9>>, origin |-> << <<11, 10>>, <<-1, 2>>, <<-2, 5>> >>,
     axes |-> << << ZQ, <<3, 10>>, ZQ >>, << <<-1, 4>>, ZQ, ZQ >>, << ZQ, ZQ, <<1, 5>> >> >>] >>
MustReproduce(name_) == name_ \in {"negative-step", "descending"}
ExtraTensor == <<
    [name |-> "descending", nodes |-> <<Reverse(TensorNodes[1]), TensorNodes[2], Reverse(TensorNodes[3])>>] >>
QDet3(a_) == QSub(QAdd(QMul(a_[1][1], QSub(QMul(a_[2][2], a_[3][3]), QMul(a_[2][3], a_[3][2]))),
                       QMul(a_[1][3], QSub(QMul(a_[2][1], a_[3][2]), QMul(a_[2][2], a_[3][1])))),
                  QMul(a_[1][2], QSub(QMul(a_[2][1], a_[3][3]), QMul(a_[2][3], a_[3][1]))))
IsDiagonalQ(a_) == \A r_ \in 1..3, d_ \in 1..3 : r_ # d_ => a_[r_][d_] = ZQ
\* point with fractional position u (each u_r in (0,1)) inside the parallelepiped of the grid
ParaPoint(g_, u_) ==
    [d_ \in 1..3 |-> QAdd(g_.origin[d_],
        QSumTo([r_ \in 1..3 |-> QMul(QMul(u_[r_], QI(g_.shape[r_] - 1)), g_.axes[r_][d_])], 3))]
FracPick(seed_) == LET s == LcgSeq(seed_ % 65536, 6) IN [d_ \in 1..3 |-> Q(1 + Pick(s[d_ + 3], 96), 97)]
ExtraUniformQueries(x_) ==
    [k_ \in 1..NQuery |-> ParaPoint(ExtraUniform[x_], FracPick(Seed * 389 + x_ * 7919 + k_ * 5381 + 29))]
ExtraTensorQueries(x_) ==
    [k_ \in 1..NQuery |->
        LET u == FracPick(Seed * 389 + x_ * 4099 + k_ * 5381 + 31)
        IN [d_ \in 1..3 |->
              LET nodes == ExtraTensor[x_].nodes[d_]
                  lo == QMinTo(nodes, Len(nodes))  hi == QMaxTo(nodes, Len(nodes))
              IN QAdd(lo, QMul(QSub(hi, lo), u[d_]))]]
StrictlyDecreasingQ(s_) == \A x_ \in 1..Len(s_) - 1 : QLt(s_[x_ + 1], s_[x_])
ExtraNu == << <<0, 0, 0>>, <<1, 0, 0>>, <<0, 1, 1>>, <<0, 0, 2>> >>
ExtraCubic == <<FixedPolys[3], RandomTerms(300, 6, 3, 3)>>
ExtraLinear == <<FixedPolys[4]>>
ASSUME /\ \A x_ \in 1..Len(ExtraUniform) :
             /\ QDet3(ExtraUniform[x_].axes) # ZQ
             /\ MustReproduce(ExtraUniform[x_].name) => IsDiagonalQ(ExtraUniform[x_].axes)
             /\ \A d_ \in 1..3 : ExtraUniform[x_].shape[d_] >= 7
       /\ \A x_ \in 1..Len(ExtraTensor) : \A d_ \in 1..3 :
             /\ Len(ExtraTensor[x_].nodes[d_]) >= 7
             /\ StrictlyIncreasingQ(ExtraTensor[x_].nodes[d_]) \/ StrictlyDecreasingQ(ExtraTensor[x_].nodes[d_])
       /\ \E d_ \in 1..3 : StrictlyDecreasingQ(ExtraTensor[1].nodes[d_])
       /\ \A x_ \in 1..Len(ExtraCubic) : MaxDegreeOK(ExtraCubic[x_])
       /\ \A x_ \in 1..Len(ExtraNu) : ExtraNu[x_] \in NuSet
ExtraPartials(tree_) == [x_ \in 1..Len(ExtraNu) |-> [nu |-> ExtraNu[x_], tree |-> Partial(tree_, ExtraNu[x_])]]
ExtraPolys ==
    [cubic |-> [x_ \in 1..Len(ExtraCubic) |-> [terms |-> ExtraCubic[x_], partials |-> ExtraPartials(PolyTree(ExtraCubic[x_]))]],
     linear |-> [x_ \in 1..Len(ExtraLinear) |-> [terms |-> ExtraLinear[x_], tree |-> PolyTree(ExtraLinear[x_])]]]
ASSUME JsonSerialize("cases_interp_extra.json",
    [uniform |-> [x_ \in 1..Len(ExtraUniform) |->
                    [name |-> ExtraUniform[x_].name, shape |-> ExtraUniform[x_].shape, origin |-> ExtraUniform[x_].origin,
                     axes |-> ExtraUniform[x_].axes, must |-> MustReproduce(ExtraUniform[x_].name),
                     queries |-> ExtraUniformQueries(x_)]],
     tensor |-> [x_ \in 1..Len(ExtraTensor) |->
                    [name |-> ExtraTensor[x_].name, nodes |-> ExtraTensor[x_].nodes, must |-> MustReproduce(ExtraTensor[x_].name),
                     queries |-> ExtraTensorQueries(x_)]],
     polys |-> ExtraPolys])

VARIABLES ipc, ipoly, inu
Init == ipc = "idle" /\ ipoly = 0 /\ inu = <<>>
PickPoly == /\ ipc = "idle" /\ \E x_ \in 1..Len(CubicPolys) : ipoly' = x_
            /\ ipc' = "poly" /\ UNCHANGED inu
PickNu == /\ ipc = "poly" /\ \E nu_ \in NuSet : inu' = nu_
          /\ ipc' = "nu" /\ UNCHANGED ipoly
Next == PickPoly \/ PickNu
Spec == Init /\ [][Next]_<<ipc, ipoly, inu>>

Lattice == {<<a_, b_, c_>> : a_ \in -1..2, b_ \in -1..2, c_ \in -1..2}
EnvAt(p_) == [n_ \in {"x", "y", "z"} |-> IF n_ = "x" THEN QI(p_[1]) ELSE IF n_ = "y" THEN QI(p_[2]) ELSE QI(p_[3])]
\* the derived derivative is the derivative (term-by-term calculus), exactly, on the lattice
DerivedPartialIsCalculus ==
    ipc = "nu" =>
        \A p_ \in Lattice :
            EvalQ(Partial(PolyTree(CubicPolys[ipoly]), inu), EnvAt(p_))
              = EvalQ(PolyTree(PolyPartialTerms(CubicPolys[ipoly], inu)), EnvAt(p_))
\* non-vacuity: the test set contains polynomials of full degree and every derivative order is non-trivial
FullDegreePresent ==
    ipc = "idle" => \E x_ \in 1..Len(CubicPolys) : \E n_ \in 1..Len(CubicPolys[x_]) :
                        CubicPolys[x_][n_][1] = 3 /\ CubicPolys[x_][n_][2] = 3 /\ CubicPolys[x_][n_][3] = 3 /\ CubicPolys[x_][n_][4] # 0
=============================================================================
