---------------------------- MODULE MC_CubicClosest ----------------------------
(***************************************************************************)
(* C13, UniformGrid.closest_point on axis-parallel grids (integer origin,  *)
(* signed integer steps).  Query points lie on a lattice of 1/Fine steps   *)
(* inside the box of the grid, which includes every tie (half steps) and   *)
(* every node.  TLC decides that rounding the signed fractional coordinate *)
(* (half to even) yields A nearest node and that flooring it yields the    *)
(* lower corner of the cell, and judges the indices returned by the        *)
(* implementation with the declarative predicates (exact rationals).       *)
(***************************************************************************)
EXTENDS Cubic, Json, Obs_closest      \* ClosestObs (generated; <<>> when emitting)

CONSTANTS Fine, Emit

Grids == <<
    [shape |-> <<3, 4>>,    origin |-> <<-1, 2>>,    step |-> <<2, 3>>],
    [shape |-> <<4, 2>>,    origin |-> <<0, 5>>,     step |-> <<1, -2>>],
    [shape |-> <<3, 2, 3>>, origin |-> <<1, -2, 0>>, step |-> <<2, 1, 3>>],
    [shape |-> <<2, 3, 2>>, origin |-> <<4, 0, -3>>, step |-> <<-1, 2, -3>>],
    [shape |-> <<2, 2, 4>>, origin |-> <<0, 0, 0>>,  step |-> <<1, 1, 1>>],
    [shape |-> <<3, 3, 2>>, origin |-> <<-2, 1, 1>>, step |-> <<-2, -1, -1>> ] >>
\* lattice counts per direction and the query with lattice coordinates q (0-based)
QShape(g_) == [d_ \in 1..Len(g_.shape) |-> Fine * (g_.shape[d_] - 1) + 1]
QueryPoint(g_, q_) == [d_ \in 1..Len(q_) |-> Q(Fine * g_.origin[d_] + q_[d_] * g_.step[d_], Fine)]
NQueries(g_) == NPoints(QShape(g_))
\* queries in lexicographic order of q (the order of the recorded observations)
QueryNo(g_, x_) == I2CCode(QShape(g_), x_ - 1)
ASSUME Emit => JsonSerialize("cases_closest.json",
    [g_ \in 1..Len(Grids) |->
        [shape |-> Grids[g_].shape, origin |-> Grids[g_].origin, step |-> Grids[g_].step,
         queries |-> [x_ \in 1..NQueries(Grids[g_]) |-> QueryPoint(Grids[g_], QueryNo(Grids[g_], x_))]]])

VARIABLES cpc, cgrid, cq
Init == cpc = "idle" /\ cgrid = 0 /\ cq = 0
PickGridBlock == /\ cpc = "idle" /\ ~Emit
                 /\ \E g_ \in 1..Len(Grids) : \E b_ \in 0..(NQueries(Grids[g_]) - 1) \div 64 :
                        cgrid' = g_ /\ cq' = b_
                 /\ cpc' = "block"
PickQuery == /\ cpc = "block"
             /\ \E x_ \in 1..64 : cq * 64 + x_ <= NQueries(Grids[cgrid]) /\ cq' = cq * 64 + x_
             /\ cpc' = "query" /\ UNCHANGED cgrid
Next == PickGridBlock \/ PickQuery
Spec == Init /\ [][Next]_<<cpc, cgrid, cq>>

AtQuery == cpc = "query"
G == Grids[cgrid]
P == QueryPoint(G, QueryNo(G, cq))
QueriesAreInside == AtQuery => InsideBox(G.shape, G.origin, G.step, P)
RoundingFindsNearest == AtQuery => IsNearestNode(G.shape, G.origin, G.step, P, ClosestAlgo(G.shape, G.origin, G.step, P))
FlooringFindsCorner == AtQuery => IsLowerCorner(G.shape, G.origin, G.step, P, LowerCornerAlgo(G.shape, G.origin, G.step, P))
\* the nearest node is unique exactly when no fractional coordinate is a half-integer
TiesAreHalves ==
    AtQuery =>
        LET near == {x_ \in 0..NPoints(G.shape) - 1 : IsNearestNode(G.shape, G.origin, G.step, P, x_)}
            halves == {d_ \in 1..Len(P) : LET t == FracCoord(G.origin, G.step, P)[d_] IN QSub(t, QI(QFloor(t))) = <<1, 2>>}
        IN Cardinality(near) = 2 ^ Cardinality(halves)

\* observations: ClosestObs[g][x] = <<index for which="closest", index for which="origin">>, NotRec = not recorded
NotRec == -1000000
Seen == ClosestObs[cgrid][cq]
JudgeClosest ==
    AtQuery /\ Len(ClosestObs) > 0 /\ Seen[1] # NotRec =>
        IsNearestNode(G.shape, G.origin, G.step, P, Seen[1])
          \/ PrintT(<<"MISMATCH", cgrid, "closest", P, ClosestAlgo(G.shape, G.origin, G.step, P), Seen[1]>>)
JudgeCorner ==
    AtQuery /\ Len(ClosestObs) > 0 /\ Seen[2] # NotRec =>
        IsLowerCorner(G.shape, G.origin, G.step, P, Seen[2])
          \/ PrintT(<<"MISMATCH", cgrid, "origin", P, LowerCornerAlgo(G.shape, G.origin, G.step, P), Seen[2]>>)
=============================================================================
