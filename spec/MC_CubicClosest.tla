---------------------------- MODULE MC_CubicClosest ----------------------------
(***************************************************************************)
(* C13, UniformGrid.closest_point on axis-parallel grids (integer origin,  *)
(* signed integer steps).  Query points lie on a lattice of 1/Fine steps   *)
(* inside the box of the grid, which includes every tie (half steps) and   *)
(* every node.  TLC decides that rounding the signed fractional coordinate *)
(* (half to even) yields A nearest node and that flooring it yields the    *)
(* lower corner of the cell, and judges the indices returned by the        *)
(* implementation with the declarative predicates (exact rationals).       *)
(* Query points OUTSIDE the box (half-step lattice, OutM steps beyond every *)
(* face): TLC decides that the rounded coordinates CLAMPED to the grid give *)
(* a nearest node and judges the returned indices with the same predicate.  *)
(* Grids may carry a denominator den (non-integer origin / steps) and a     *)
(* representation tag for the harness (integer arrays).                     *)
(***************************************************************************)
EXTENDS Cubic, Json, Obs_closest      \* ClosestObs, ClosestOutObs (generated; <<>> when emitting)

CONSTANTS Fine, OutM, OutStride, OutPhase, Emit    \* outside lattice: every OutStride-th point, starting at OutPhase

\* den: the grid handed to the implementation is the integer grid divided by den (a power of two, so
\* that the division is exact in binary floating point): non-integer origins and steps.  Nearest node
\* and lower corner are invariant under this scaling, hence the judge works on the integer grid.
\* repr: how the harness represents origin / axes ("float" arrays or "int" arrays; "int" needs den = 1)
Grids == <<
    [shape |-> <<3, 4>>,    origin |-> <<-1, 2>>,    step |-> <<2, 3>>,      den |-> 1, repr |-> "float"],
    [shape |-> <<4, 2>>,    origin |-> <<0, 5>>,     step |-> <<1, -2>>,     den |-> 4, repr |-> "float"],
    [shape |-> <<3, 2, 3>>, origin |-> <<1, -2, 0>>, step |-> <<2, 1, 3>>,   den |-> 1, repr |-> "int"],
    [shape |-> <<2, 3, 2>>, origin |-> <<4, 0, -3>>, step |-> <<-1, 2, -3>>, den |-> 8, repr |-> "float"],
    [shape |-> <<2, 2, 4>>, origin |-> <<0, 0, 0>>,  step |-> <<1, 1, 1>>,   den |-> 1, repr |-> "float"],
    [shape |-> <<3, 3, 2>>, origin |-> <<-2, 1, 1>>, step |-> <<-2, -1, -1>>, den |-> 1, repr |-> "int"] >>
ASSUME \A g_ \in 1..Len(Grids) : Grids[g_].den \in {1, 2, 4, 8, 16} /\ (Grids[g_].repr = "int" => Grids[g_].den = 1)
\* lattice counts per direction and the query with lattice coordinates q (0-based)
QShape(g_) == [d_ \in 1..Len(g_.shape) |-> Fine * (g_.shape[d_] - 1) + 1]
QueryPoint(g_, q_) == [d_ \in 1..Len(q_) |-> Q(Fine * g_.origin[d_] + q_[d_] * g_.step[d_], Fine)]
NQueries(g_) == NPoints(QShape(g_))
\* queries in lexicographic order of q (the order of the recorded observations)
QueryNo(g_, x_) == I2CCode(QShape(g_), x_ - 1)
\* query points OUTSIDE the box ("all query points"): the half-step lattice that extends OutM steps
\* beyond the box in every direction, without the points of the box itself
OShape(g_) == [d_ \in 1..Len(g_.shape) |-> 2 * (g_.shape[d_] - 1 + 2 * OutM) + 1]
OPoint(g_, q_) == [d_ \in 1..Len(q_) |-> Q(2 * g_.origin[d_] + (q_[d_] - 2 * OutM) * g_.step[d_], 2)]
OutsideOf(g_) ==
    SelectSeq([x_ \in 1..(NPoints(OShape(g_)) - OutPhase + OutStride - 1) \div OutStride |->
                  OPoint(g_, I2CCode(OShape(g_), (x_ - 1) * OutStride + OutPhase))],
              LAMBDA p_ : ~InsideBox(g_.shape, g_.origin, g_.step, p_))
ForceC(f_) == IF f_ = f_ THEN f_ ELSE f_
OutTable == ForceC([g_ \in 1..Len(Grids) |-> OutsideOf(Grids[g_])])
ASSUME Emit => JsonSerialize("cases_closest.json",
    [g_ \in 1..Len(Grids) |->
        [shape |-> Grids[g_].shape, origin |-> Grids[g_].origin, step |-> Grids[g_].step,
         den |-> Grids[g_].den, repr |-> Grids[g_].repr,
         queries |-> [x_ \in 1..NQueries(Grids[g_]) |-> QueryPoint(Grids[g_], QueryNo(Grids[g_], x_))],
         outside |-> OutTable[g_]]])

VARIABLES cpc, cgrid, cq
Init == cpc = "idle" /\ cgrid = 0 /\ cq = 0
PickGridBlock == /\ cpc = "idle" /\ ~Emit
                 /\ \E g_ \in 1..Len(Grids) : \E b_ \in 0..(NQueries(Grids[g_]) - 1) \div 64 :
                        cgrid' = g_ /\ cq' = b_
                 /\ cpc' = "block"
PickQuery == /\ cpc = "block"
             /\ \E x_ \in 1..64 : cq * 64 + x_ <= NQueries(Grids[cgrid]) /\ cq' = cq * 64 + x_
             /\ cpc' = "query" /\ UNCHANGED cgrid
PickOutBlock == /\ cpc = "idle" /\ ~Emit
                /\ \E g_ \in 1..Len(Grids) : \E b_ \in 0..(Len(OutTable[g_]) - 1) \div 64 :
                       cgrid' = g_ /\ cq' = b_
                /\ cpc' = "oblock"
PickOutQuery == /\ cpc = "oblock"
                /\ \E x_ \in 1..64 : cq * 64 + x_ <= Len(OutTable[cgrid]) /\ cq' = cq * 64 + x_
                /\ cpc' = "oquery" /\ UNCHANGED cgrid
Next == PickGridBlock \/ PickQuery \/ PickOutBlock \/ PickOutQuery
Spec == Init /\ [][Next]_<<cpc, cgrid, cq>>

AtQuery == cpc = "query"
G == Grids[cgrid]
P == QueryPoint(G, QueryNo(G, cq))
QueriesAreInside == AtQuery => InsideBox(G.shape, G.origin, G.step, P)
RoundingFindsNearest == AtQuery => IsNearestNode(G.shape, G.origin, G.step, P, ClosestAlgo(G.shape, G.origin, G.step, P))
FlooringFindsCorner == AtQuery => IsLowerCorner(G.shape, G.origin, G.step, P, LowerCornerAlgo(G.shape, G.origin, G.step, P))
\* the nearest node is unique exactly when no fractional coordinate is a half-integer
TiesAreHalves ==
    AtQuery =>
        LET near == {x_ \in 0..NPoints(G.shape) - 1 : IsNearestNode(G.shape, G.origin, G.step, P, x_)}
            halves == {d_ \in 1..Len(P) : LET t == FracCoord(G.origin, G.step, P)[d_] IN QSub(t, QI(QFloor(t))) = <<1, 2>>}
        IN Cardinality(near) = 2 ^ Cardinality(halves)

\* observations: ClosestObs[g][x] = <<index for which="closest", index for which="origin">>, NotRec = not recorded
NotRec == -1000000
Seen == ClosestObs[cgrid][cq]
JudgeClosest ==
    AtQuery /\ Len(ClosestObs) > 0 /\ Seen[1] # NotRec =>
        IsNearestNode(G.shape, G.origin, G.step, P, Seen[1])
          \/ PrintT(<<"MISMATCH", cgrid, "closest", P, ClosestAlgo(G.shape, G.origin, G.step, P), Seen[1]>>)
JudgeCorner ==
    AtQuery /\ Len(ClosestObs) > 0 /\ Seen[2] # NotRec =>
        IsLowerCorner(G.shape, G.origin, G.step, P, Seen[2])
          \/ PrintT(<<"MISMATCH", cgrid, "origin", P, LowerCornerAlgo(G.shape, G.origin, G.step, P), Seen[2]>>)

(***************************************************************************)
(* Query points outside the box: the true nearest node is the node whose   *)
(* coordinates are the rounded fractional coordinates CLAMPED to the grid. *)
(***************************************************************************)
AtOut == cpc = "oquery"
OP == OutTable[cgrid][cq]
ClampedAlgo(shape_, origin_, step_, p_) ==
    IndexOf(shape_, [d_ \in 1..Len(p_) |-> Max2(0, Min2(shape_[d_] - 1, QRint(FracCoord(origin_, step_, p_)[d_])))])
OutsideIsOutside == AtOut => ~InsideBox(G.shape, G.origin, G.step, OP)
ClampedRoundingFindsNearest ==
    AtOut => IsNearestNode(G.shape, G.origin, G.step, OP, ClampedAlgo(G.shape, G.origin, G.step, OP))
\* inside the box clamping changes nothing: the rule of the inside queries is the same rule
ClampIsNeutralInside ==
    AtQuery => ClampedAlgo(G.shape, G.origin, G.step, P) = ClosestAlgo(G.shape, G.origin, G.step, P)
\* observations: ClosestOutObs[g][x] = index returned for which="closest"
OSeen == ClosestOutObs[cgrid][cq]
JudgeOutside ==
    AtOut /\ Len(ClosestOutObs) > 0 /\ OSeen # NotRec =>
        IsNearestNode(G.shape, G.origin, G.step, OP, OSeen)
          \/ PrintT(<<"MISMATCH", cgrid, "closest-outside", OP, ClampedAlgo(G.shape, G.origin, G.step, OP), OSeen>>)
=============================================================================
