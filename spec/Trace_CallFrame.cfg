SPECIFICATION TSpec
CONSTANT Writes = "none"
INVARIANT Finished
