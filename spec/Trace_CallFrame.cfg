SPECIFICATION TSpec
CONSTANTS
  Writes = "none"
  FullMasks = TRUE
INVARIANT Finished
