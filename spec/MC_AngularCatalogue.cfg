SPECIFICATION CSpec
INVARIANT EveryEntryHasItsFile
INVARIANT DegreesAndSizesUnique
INVARIANT SizesGrowWithDegrees
INVARIANT EntriesPositive
INVARIANT RecordsAreCatalogued
INVARIANT AllRequiredDischarged
INVARIANT RecordsClean
INVARIANT ObligationCount
