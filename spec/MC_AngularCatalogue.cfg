SPECIFICATION CSpec
INVARIANT EveryEntryHasItsFile
INVARIANT DegreesAndSizesUnique
INVARIANT SizesGrowWithDegrees
INVARIANT EntriesPositive
INVARIANT ObligationCount
INVARIANT SizeTableNamesTheSameCatalogue
INVARIANT TablesSortedByDegree
INVARIANT RouteGeneratorLaws
