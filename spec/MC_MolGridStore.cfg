INIT InitStore
NEXT NextStore
INVARIANT StoreInvisible
