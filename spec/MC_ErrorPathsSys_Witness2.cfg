SPECIFICATION SSpec
CONSTANTS
  Kinds = {"Grid", "OneDGrid", "PeriodicGrid"}
  Validate = TRUE
INVARIANT WitnessRejectAfterAccept
