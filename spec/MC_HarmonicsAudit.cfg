SPECIFICATION XSpec
CONSTANT LTree = 12
CONSTANT LExact = 6
CONSTANT LOrth = 4
CONSTANT LRow = 80
CONSTANT LForm = 5
CONSTANT EmitFile = "harmonics_trees.json"
CONSTANT AuditFile = "harmonics_audit.json"
CONSTANT ObsFile = ""
INVARIANT AdditionTheorem
INVARIANT Parity
INVARIANT PoleValues
INVARIANT DerivativeRoutesAgree
INVARIANT OrthonormalExact
INVARIANT RowOrder
INVARIANT CartSphInverse
INVARIANT LatticeIsLattice
INVARIANT ChainRule
INVARIANT FrameOrthogonal
INVARIANT PoleConvention
INVARIANT OriginConvention
INVARIANT SphHomogeneous
