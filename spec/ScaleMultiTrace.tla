-------------------------- MODULE ScaleMultiTrace --------------------------
(***************************************************************************)
(* Trace validation of recorded call sequences on TWO transform objects    *)
(* (same or different classes, bare or wrapped in InverseRTransform) with   *)
(* argument arrays in any order / dtype.  traces_scale2.json: every trace   *)
(* starts with a Setup event (b0 = the scales passed to the constructors,   *)
(* 0 = None); every later event carries the object k it was made on, the    *)
(* scales of BOTH objects before and after (bpre, bpost), the true maximum  *)
(* xmax of the array passed, and the harness' measurements pure / dep.      *)
(***************************************************************************)
EXTENDS ScaleMulti, Json
Traces == JsonDeserialize("traces_scale2.json")
VARIABLES tid, l
tvars == <<mvars, tid, l>>
Ev == Traces[tid][l]
AsFun(s_) == [i_ \in Inst |-> s_[i_]]
Clause(e_) ==
    IF e_.ev = "Scribble"
      THEN IF AsFun(e_.bpost) # bs THEN "scale-follows-the-callers-array" ELSE "ok"
    \* a grid the library REFUSED (its domain does not fit the transformation): the call returned nothing, so it
    \* is not a grid the object "has seen" - no scale may be left behind and no scale may change
    ELSE IF e_.ev = "Refused"
      THEN IF AsFun(e_.bpre) # bs THEN "scale-changed-between-calls"
           ELSE IF e_.exc = "" THEN "harness-logged-an-accepted-call-as-refused"
           ELSE IF AsFun(e_.bpost) # bs THEN "refused-grid-leaves-a-scale-behind"
           ELSE "ok"
    ELSE IF AsFun(e_.bpre) # bs THEN "scale-changed-between-calls"
    ELSE IF \E j_ \in Inst \ {e_.k} : e_.bpost[j_] # bs[j_] THEN "call-changed-the-scale-of-another-object"
    ELSE IF e_.xmax = 0 /\ bs[e_.k] = None
      THEN IF e_.bpost[e_.k] # None THEN "refused-grid-leaves-a-scale-behind" ELSE "ok"
    ELSE IF e_.exc # "" THEN "raised:" \o e_.exc
    ELSE IF bs[e_.k] # None /\ e_.bpost[e_.k] # bs[e_.k] THEN "fixed-scale-overwritten"
    ELSE IF bs[e_.k] = None /\ e_.bpost[e_.k] \notin {None, e_.xmax} THEN "scale-is-not-the-maximum-of-the-first-grid"
    ELSE IF bs[e_.k] = None /\ e_.dep /\ e_.bpost[e_.k] = None THEN "scale-dependent-result-without-fixing-the-scale"
    ELSE IF ~e_.pure THEN "result-depends-on-history"
    ELSE "ok"
Apply(e_) ==
    /\ bs' = AsFun(e_.bpost)
    /\ IF e_.ev = "Scribble" THEN Scribble(e_.k)
       ELSE IF e_.ev = "Refused" \/ e_.xmax = 0 THEN ZeroCall(e_.k, e_.op)
       ELSE Call(e_.k, e_.op, e_.xmax)
Reset(t_) == /\ tid' = t_ /\ l' = 2 /\ last' = NoCall
             /\ bs' = IF t_ <= Len(Traces) THEN AsFun(Traces[t_][1].b0) ELSE [i_ \in Inst |-> None]
TInit == /\ tid = 1 /\ l = 2 /\ bs = AsFun(Traces[1][1].b0) /\ last = NoCall
TNext ==
    /\ tid <= Len(Traces)
    /\ IF l > Len(Traces[tid])
         THEN PrintT(<<"ACCEPT", tid>>) /\ Reset(tid + 1)
         ELSE IF Clause(Ev) = "ok"
                THEN Apply(Ev) /\ l' = l + 1 /\ tid' = tid
                ELSE PrintT(<<"REJECT", tid, l, Ev.ev, Clause(Ev)>>) /\ Reset(tid + 1)
TSpec == TInit /\ [][TNext]_tvars
=============================================================================
