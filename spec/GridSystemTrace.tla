-------------------------- MODULE GridSystemTrace --------------------------
(***************************************************************************)
(* Trace validation for X03.  traces_x03.json: a sequence of traces, each   *)
(* a sequence of events recorded while a behaviour of GridSystem was        *)
(* replayed on real objects.  An event carries the action and the FULL      *)
(* PROJECTION of the real state after the call:                              *)
(*   a        the action tuple (a Query carries the indices reported)        *)
(*   exc      "" or the exception class                                      *)
(*   live     <<slot, kind, size>> of every live object                      *)
(*   alias    every pair <<<<o1, part1>>, <<o2, part2>>>> of reachable       *)
(*            arrays with np.shares_memory                                   *)
(*   chg      <<slot, part, cells>> for every array whose content differs    *)
(*            from before the call (all arrays of a new object); the other   *)
(*            arrays were compared and are unchanged                          *)
(*   given    arrays of the result that share memory with an argument array   *)
(*   ret, val object returned (slot) / value returned                        *)
(*   cclean, calias   cached arrays equal the shipped files / user arrays     *)
(*            that share memory with a cached array                           *)
(*   callerchg  number of arrays made by the caller that a library call       *)
(*            changed                                                         *)
(* tab_x03.json holds the contents derived from the shipped files            *)
(* (independently of grid.angular), in the cell encoding of GridSystem.      *)
(* Every event is judged against Do(state, a); the first failing clause is    *)
(* reported (REJECT) and the next trace started, so every trace gets a        *)
(* verdict.                                                                   *)
(***************************************************************************)
EXTENDS GridSystem, Json
Traces == JsonDeserialize("traces_x03.json")
J == JsonDeserialize("tab_x03.json")
Force(f_) == IF f_ = f_ THEN f_ ELSE f_
TraceTab ==
    [nsh |-> J.nsh, cen |-> J.cen,
     angp    |-> Force([md_ \in MD |-> J.angp[md_[1]][ToString(md_[2])]]),
     angwraw |-> Force([md_ \in MD |-> J.angwraw[md_[1]][ToString(md_[2])]]),
     angw    |-> Force([md_ \in MD |-> J.angw[md_[1]][ToString(md_[2])]]),
     atomw   |-> Force([md_ \in MD |-> J.atomw[md_[1]][ToString(md_[2])]]),
     atomp   |-> Force([x_ \in Methods \X Degrees \X (1..NCen) |-> J.atomp[x_[1]][ToString(x_[2])][x_[3]]]),
     shellp  |-> Force([x_ \in Methods \X Degrees \X (1..J.nsh) |-> J.shellp[x_[1]][ToString(x_[2])][x_[3]]]),
     shellw  |-> Force([x_ \in Methods \X Degrees \X (1..J.nsh) \X {0, 1} |-> J.shellw[x_[1]][ToString(x_[2])][x_[3]][x_[4] + 1]])]

VARIABLES tid, l
tvars == <<vars, tid, l>>
Ev == Traces[tid][l]

\* ---- the projection of a model state -------------------------------------------------------------
Pairs(s_) == {{x_, y_} : <<x_, y_>> \in {z_ \in AllParts(s_) \X AllParts(s_) : z_[1] # z_[2] /\ Overlap(PRef(s_, z_[1]), PRef(s_, z_[2]))}}
LoggedPairs(e_) == {{<<pr_[1][1], pr_[1][2]>>, <<pr_[2][1], pr_[2][2]>>} : pr_ \in SeqSet(e_.alias)}
LiveSet(s_) == {<<i_, s_.objs[i_].k, s_.objs[i_].w[3]>> : i_ \in Live(s_)}
\* arrays whose content is observed: the references, and the points an AtomGrid reports
Shown(s_) == AllParts(s_) \cup {<<i_, "p">> : i_ \in {j_ \in Live(s_) : s_.objs[j_].k = "Atom"}}
ShownContent(s_, x_) == IF s_.objs[x_[1]].k = "Atom" /\ x_[2] = "p" THEN s_.objs[x_[1]].pc ELSE ContentOf(s_, x_)
Name(s_, x_) == s_.objs[x_[1]].k \o "." \o x_[2]
ChgIdx(e_, x_) == {k_ \in 1..Len(e_.chg) : e_.chg[k_][1] = x_[1] /\ e_.chg[k_][2] = x_[2]}
Logged(e_, x_) == e_.chg[CHOOSE k_ \in ChgIdx(e_, x_) : TRUE][3]
\* is x_ an array that existed before the call (same object)?
Old(x_, r_) == x_ \in Shown(S) /\ ~(r_.obs.kind \in {"new", "query", "item", "atomic"} /\ r_.obs.o = x_[1])
\* content clause for one array; "" = agrees
ContentClause(e_, r_, x_) ==
    IF ChgIdx(e_, x_) = {}
      THEN (IF ~Old(x_, r_) THEN "content-not-reported:" \o Name(r_.s, x_)
            ELSE IF ShownContent(r_.s, x_) # ShownContent(S, x_) THEN "content-did-not-change:" \o Name(r_.s, x_)
            ELSE "")
      ELSE (IF Logged(e_, x_) = ShownContent(r_.s, x_) THEN ""
            ELSE IF Old(x_, r_) /\ ShownContent(r_.s, x_) = ShownContent(S, x_)
                   THEN (IF e_.a[1] = "Edit" THEN "spooky-action:" ELSE "array-changed-by-call:") \o Name(r_.s, x_)
            ELSE "content:" \o Name(r_.s, x_))
BadContent(e_, r_) == {x_ \in Shown(r_.s) : ContentClause(e_, r_, x_) # ""}
PairName(s_, pr_) == LET x == CHOOSE u_ \in pr_ : \A v_ \in pr_ : u_[1] <= v_[1]
                         y == IF Cardinality(pr_) = 1 THEN x ELSE CHOOSE v_ \in pr_ : v_ # x
                     IN Name(s_, x) \o "~" \o Name(s_, y)
StructOk(e_) == /\ \A pr_ \in SeqSet(e_.alias) : pr_[1][1] \in 1..MaxObjs /\ pr_[2][1] \in 1..MaxObjs
                /\ \A g_ \in SeqSet(e_.given) : g_[1] \in 1..MaxObjs
                /\ \A g_ \in SeqSet(e_.chg) : g_[1] \in 1..MaxObjs

\* (an empty array shares memory with nothing)
MGiven(r_) == {x_ \in r_.obs.given : PRef(r_.s, x_)[3] > 0}
Verdict(e_, r_) ==
    IF e_.a[1] = "Reject"
      THEN (IF e_.exc = "" THEN "bad-argument-accepted:" \o e_.a[3]
            ELSE IF e_.exc # "ValueError" THEN "raised:" \o e_.exc
            ELSE IF e_.chg # <<>> THEN "state-changed-by-rejected-call:" \o e_.a[3]
            ELSE IF LiveSet(r_.s) # SeqSet(e_.live) \/ Pairs(r_.s) # LoggedPairs(e_) THEN "objects-changed-by-rejected-call:" \o e_.a[3]
            ELSE "")
    ELSE IF e_.exc # "" THEN "raised:" \o e_.exc
    ELSE IF LiveSet(r_.s) # SeqSet(e_.live) THEN "result-kind-or-size"
    ELSE IF ~StructOk(e_) THEN "harness:malformed-event"
    ELSE IF Pairs(r_.s) # LoggedPairs(e_)
      THEN (IF LoggedPairs(e_) \ Pairs(r_.s) # {}
              THEN "aliasing:unexpected:" \o PairName(r_.s, CHOOSE pr_ \in LoggedPairs(e_) \ Pairs(r_.s) : TRUE)
              ELSE "aliasing:missing:" \o PairName(r_.s, CHOOSE pr_ \in Pairs(r_.s) \ LoggedPairs(e_) : TRUE))
    ELSE IF MGiven(r_) # {<<g_[1], g_[2]>> : g_ \in SeqSet(e_.given)}
      THEN (IF MGiven(r_) \ {<<g_[1], g_[2]>> : g_ \in SeqSet(e_.given)} # {}
              THEN "argument-array-copied:" \o Name(r_.s, CHOOSE g_ \in MGiven(r_) \ {<<h_[1], h_[2]>> : h_ \in SeqSet(e_.given)} : TRUE)
              ELSE "argument-array-kept:" \o Name(r_.s, CHOOSE g_ \in {<<h_[1], h_[2]>> : h_ \in SeqSet(e_.given)} \ MGiven(r_) : TRUE))
    ELSE IF e_.calias # <<>> THEN "array-aliases-cache"
    ELSE IF ~e_.cclean THEN "cached-array-modified"
    ELSE IF e_.callerchg # 0 /\ e_.a[1] # "Edit" THEN "caller-buffer-modified"
    ELSE IF BadContent(e_, r_) # {} THEN ContentClause(e_, r_, CHOOSE x_ \in BadContent(e_, r_) : \A y_ \in BadContent(e_, r_) : x_[1] <= y_[1])
    ELSE IF r_.obs.kind = "stored" /\ e_.ret # r_.obs.ret THEN "stored-atomic-grid-not-returned"
    ELSE IF r_.obs.kind = "integral" /\ r_.obs.val # BIG /\ e_.val # r_.obs.val THEN "integral-differs-from-content"
    ELSE IF r_.obs.kind = "query" /\ (e_.a[4] = Inf \/ Decidable(PtsOf(S, objs[e_.a[2]])))
            /\ SeqSet(e_.a[5]) # BallSet(PtsOf(S, objs[e_.a[2]]), e_.a[3], e_.a[4]) THEN "wrong-point-set"
    ELSE IF r_.obs.kind = "query" /\ Cardinality(SeqSet(e_.a[5])) # Len(e_.a[5]) THEN "duplicate-point"
    ELSE ""

Reset(t_) == /\ tid' = t_ /\ l' = 1
             /\ heap' = S0.heap /\ cache' = S0.cache /\ objs' = S0.objs /\ obs' = NoObs
TInit == Init /\ tid = 1 /\ l = 1
\* a Query event whose indices are out of range cannot even be replayed
Replayable(e_) == e_.a[1] = "Query" /\ IsLive(S, e_.a[2]) => \A k_ \in 1..Len(e_.a[5]) : e_.a[5][k_] \in 0..(Len(PtsOf(S, objs[e_.a[2]])) - 1)
TNext ==
    /\ tid <= Len(Traces)
    /\ IF l > Len(Traces[tid])
         THEN PrintT(<<"ACCEPT", tid>>) /\ Reset(tid + 1)
         ELSE IF ~Replayable(Ev) THEN PrintT(<<"REJECT", tid, l, Ev.a[1], "index-out-of-range">>) /\ Reset(tid + 1)
         ELSE IF ~En(S, Ev.a) THEN PrintT(<<"REJECT", tid, l, Ev.a[1], "harness:behaviour-outside-specification">>) /\ Reset(tid + 1)
         ELSE LET r == Do(S, Ev.a)
                  v == Verdict(Ev, r)
              IN IF v = "" THEN Become(r) /\ l' = l + 1 /\ tid' = tid
                 ELSE PrintT(<<"REJECT", tid, l, Ev.a[1], v>>) /\ Reset(tid + 1)
TSpec == TInit /\ [][TNext]_tvars
=============================================================================
