--------------------------- MODULE CallFrameTrace ---------------------------
\* Judges the programs executed against the library (obs_c20.json, one record per program).
EXTENDS CallFrame, Json
Obs == JsonDeserialize("obs_c20.json")
VARIABLE pos
TInit == pos = 1 /\ pc = "idle" /\ prog = NoProg /\ heap = [b_ \in 0..8 |-> 0] /\ obs = "none"
TNext == /\ pos <= Len(Obs)
         /\ IF Verdict(Obs[pos]) = "ok" THEN TRUE
            ELSE PrintT(<<"REJECT", pos, Api[Obs[pos].k].op, Verdict(Obs[pos])>>)
         /\ pos' = pos + 1
         /\ UNCHANGED <<pc, prog, heap, obs>>
TSpec == TInit /\ [][TNext]_<<vars, pos>>
Finished == pos = Len(Obs) + 1 => PrintT(<<"JUDGED", Len(Obs)>>)
=============================================================================
