------------------------------- MODULE AtomGridX -------------------------------
(***************************************************************************)
(* Property C05, second layer (audit round): the dimensions of the         *)
(* quantifier that AtomGrid.tla's configurations do not reach.             *)
(*                                                                         *)
(*  * radial grids in ANY order (unsorted, descending, duplicate radii,    *)
(*    r = 0 not first) for every kind of request, and radial grids scaled  *)
(*    by 2^k (very small / very large radii; the pruning radius scales     *)
(*    with them, so ties stay ties);                                       *)
(*  * rotation seeds over the whole admissible range 0 <= s < 2^32 - N     *)
(*    (seeds are <<sign, hi, lo>> = sign (65536 hi + lo): 2^32 does not    *)
(*    fit TLC's integers), and just outside it;                            *)
(*  * the PRESENTATION of an input is not part of the input: the grid of   *)
(*    (radial grid, request, method, centre, seed) is the same whether the *)
(*    request is a list or an integer array, the centre an array / list /  *)
(*    tuple / integer array / absent (origin), the seed a Python or NumPy  *)
(*    integer, the method spelled in another case, superfluous degrees     *)
(*    passed next to sizes (sizes win), sector radii given as integers or  *)
(*    arrays, the radial grid declared on [0, inf) or without a domain;    *)
(*  * the ends of every method's degree / size table (0, largest, one      *)
(*    above the largest) and the Lebedev degrees with negative weights;    *)
(*  * the consequence for integrals as the rational data of the product    *)
(*    formula: shell factor w_i r_i^2, radial function values G_k(r_i),    *)
(*    r_i^l and the exact sphere integral of the monomial, judged against  *)
(*    AtomGrid.integrate and AtomGrid.integrate_angular_coordinates;       *)
(*  * requests for a per-shell grid: index i is served iff 0 <= i < N.     *)
(*                                                                         *)
(* ExpectedX deliberately ignores `form` and `scale`: that IS the law.     *)
(***************************************************************************)
EXTENDS AtomGrid

(***************************************************************************)
(* Seeds                                                                   *)
(***************************************************************************)
SeedOfInt(s_) == <<1, s_ \div 65536, s_ % 65536>>          \* 0 <= s_ < 2^31
\* the documented range of the constructor:  0 <= s < 2^32 - N  (every per-shell seed s + i, i < N, is then a
\* 32-bit seed).  With s = 65536 hi + lo:  hi < 65535, or hi = 65535 and lo + N <= 65535.
SeedAdmissible(sr_, n_) ==
    /\ sr_[2] \in 0..65535 /\ sr_[3] \in 0..65535
    /\ sr_[1] = 1 \/ (sr_[2] = 0 /\ sr_[3] = 0)
    /\ sr_[2] < 65535 \/ sr_[3] + n_ <= 65535
SeedMax(n_) == <<1, 65535, 65535 - n_>>
SeedAbove(n_) == <<1, 65535, 65536 - n_>>
SeedLaw ==
    /\ \A n \in 1..4 : SeedAdmissible(SeedMax(n), n) /\ ~SeedAdmissible(SeedAbove(n), n)
    /\ SeedAdmissible(SeedOfInt(0), 4) /\ SeedAdmissible(SeedOfInt(2147483647), 4)
    /\ ~SeedAdmissible(<<-1, 0, 1>>, 1)
    \* every admissible seed keeps all per-shell seeds s + i (i < N) below 2^32
    /\ \A n \in 1..4 : \A lo \in 65525..65535 :
            SeedAdmissible(<<1, 65535, lo>>, n) => lo + (n - 1) <= 65535

(***************************************************************************)
(* Scaling law (rationals, small exponents): scaling the radii by s scales *)
(* the shell factor by s^2 and leaves the sector of every node unchanged   *)
(* when the pruning radius is scaled too.  The harness applies 2^k in      *)
(* floating point (exact) for k far outside TLC's integers.                *)
(***************************************************************************)
ScaleLaw ==
    \A s \in {<<1, 8>>, <<1, 2>>, <<4, 1>>} : \A r \in SectorLattice : \A w \in {<<1, 4>>, <<3, 2>>} :
        /\ QMul(w, QMul(QMul(s, r), QMul(s, r))) = QMul(QMul(s, s), QMul(w, QMul(r, r)))
        /\ \A bs \in SortedSeqs(PrunedBounds, 2) :
              SectorDef(QMul(s, r), [k \in 1..2 |-> QMul(s, bs[k])]) = SectorDef(r, bs)

(***************************************************************************)
(* Radial functions of the integral consequence (rational on rationals)    *)
(***************************************************************************)
NG == 2
GVal(k_, r_) == IF k_ = 1 THEN QInv(QMul(QAdd(QOne, r_), QAdd(QOne, r_)))      \* 1 / (1 + r)^2
                ELSE QAdd(QOne, QMul(<<1, 2>>, r_))                            \* 1 + r / 2

(***************************************************************************)
(* Cases                                                                   *)
(***************************************************************************)
XGrids ==
    << [p |-> <<<<3, 2>>, <<1, 2>>, <<3, 1>>, <<1, 1>>>>, w |-> <<<<1, 1>>, <<1, 4>>, <<3, 2>>, <<1, 2>>>>],   \* unsorted
       [p |-> <<<<1, 1>>, <<0, 1>>, <<1, 1>>, <<5, 2>>>>, w |-> <<<<1, 2>>, <<1, 2>>, <<1, 4>>, <<1, 1>>>>],   \* duplicate radii, r = 0 inside
       [p |-> <<<<3, 1>>, <<3, 2>>, <<1, 1>>, <<1, 2>>>>, w |-> <<<<3, 2>>, <<1, 1>>, <<1, 2>>, <<1, 4>>>>],   \* descending
       [p |-> <<<<2, 1>>, <<1, 2>>, <<0, 1>>, <<3, 4>>>>, w |-> <<<<2, 1>>, <<1, 4>>, <<1, 2>>, <<1, 1>>>>] >> \* r = 0 late
IntCentre == <<<<1, 1>>, <<-2, 1>>, <<3, 1>>>>
DefForm == [req |-> "list", centre |-> "array", seed |-> "int", decoy |-> 0, spelling |-> "lower",
            sectors |-> "list", domain |-> "halfline"]
XConfig(n_, grid_, kind_, req_, radius_, sectors_, method_, centre_) ==
    [n |-> n_, rgp |-> SubSeq(grid_.p, 1, n_), rgw |-> SubSeq(grid_.w, 1, n_),
     kind |-> kind_, req |-> req_, radius |-> radius_, sectors |-> sectors_, method |-> method_,
     centre |-> centre_, seed |-> 0]
XCase(fam_, c_, scale_, seedx_, form_) == [fam |-> fam_, c |-> c_, scale |-> scale_, seedx |-> seedx_, form |-> form_]
Cen(k_) == Centres[(k_ % 2) + 1]
Sd(k_) == SeedOfInt(Seeds[(k_ % 3) + 1])

\* --- any order of the radial nodes, every kind of request -----------------------------------
PerShellDegrees == <<1, 4, 15, 4>>
PerShellSizes == <<6, 26, 7, 6>>
OrderPlain(n_, g_, m_) ==
    {XCase("order", XConfig(n_, XGrids[g_], "degrees", r, QOne, <<>>, m_, Cen(n_ + g_)), 0, Sd(ISum(r) + g_), DefForm) :
        r \in {<<15>>, SubSeq(PerShellDegrees, 1, n_)}}
    \cup {XCase("order", XConfig(n_, XGrids[g_], "sizes", r, QOne, <<>>, m_, Cen(n_ + g_ + 1)), 0, Sd(ISum(r) + g_), DefForm) :
        r \in {<<7>>, SubSeq(PerShellSizes, 1, n_)}}
OrderPrunedReqs(q_) == IF q_ = 1 THEN {<<3, 7>>, <<7, 3>>} ELSE {<<3, 7, 3>>, <<7, 3, 7>>, <<3, 3, 7>>}
OrderPruned(n_, g_, m_) ==
    UNION {UNION {
        {XCase("order", XConfig(n_, XGrids[g_], "pruned_d", r, rad, bs, m_, Cen(n_ + q)), 0, Sd(ISum(r) + g_ + q), DefForm)
            : r \in OrderPrunedReqs(q)}
        \cup (IF q = 1 THEN {XCase("order", XConfig(n_, XGrids[g_], "pruned_s", r, rad, bs, m_, Cen(n_)), 0, Sd(ISum(r) + g_), DefForm)
                                : r \in {<<6, 40>>, <<40, 6>>}}
              ELSE {})
        : bs \in SortedSeqs(PrunedBounds, q)} : q \in 1..2, rad \in PrunedRadii}
OrderBlocks == {<<n, g, m>> : n \in 2..4, g \in 1..4, m \in Methods}
OrderCases == UNION {OrderPlain(b[1], b[2], b[3]) \cup (IF b[3] \in PrunedMethods THEN OrderPruned(b[1], b[2], b[3]) ELSE {})
                     : b \in OrderBlocks}

\* --- radial grids scaled by 2^k --------------------------------------------------------------
Scales == {-40, -27, 30}
ScaleGrids == <<RadialGrids[1], RadialGrids[2], XGrids[1]>>
ScaleCases ==
    UNION {
        {XCase("scale", XConfig(4, ScaleGrids[g], "degrees", r, QOne, <<>>, m, Cen(g)), k, Sd(g + ISum(r)), DefForm)
            : r \in {<<4>>, PerShellDegrees}, m \in Methods}
        \cup {XCase("scale", XConfig(4, ScaleGrids[g], "pruned_d", r, rad, bs, m, Cen(g + 1)), k, Sd(g), DefForm)
            : r \in {<<3, 7, 3>>}, rad \in PrunedRadii, bs \in {<<<<1, 2>>, <<1, 1>>>>, <<<<1, 1>>, <<2, 1>>>>, <<<<1, 1>>, <<1, 1>>>>},
              m \in PrunedMethods}
        : g \in 1..3, k \in Scales}

\* --- seeds -----------------------------------------------------------------------------------
SeedReps(n_) == {SeedOfInt(0), SeedOfInt(1), SeedOfInt(37), SeedOfInt(65536), SeedOfInt(2147483647), <<1, 32768, 0>>,
                 SeedMax(n_), SeedAbove(n_), <<-1, 0, 1>>}
SeedCases ==
    UNION {
        {XCase("seed", XConfig(n, RadialGrids[1], "degrees", <<4>>, QOne, <<>>, "lebedev", Cen(n)), 0, s, DefForm) : s \in SeedReps(n)}
        \cup {XCase("seed", XConfig(n, RadialGrids[1], "sizes", <<26>>, QOne, <<>>, "spherical", Cen(n + 1)), 0, s, DefForm)
                : s \in {SeedMax(n), SeedAbove(n), <<1, 32768, 5>>}}
        \cup {XCase("seed", XConfig(n, RadialGrids[2], "degrees", <<4>>, QOne, <<>>, "lebedev", Cen(n)), 0, s,
                    [DefForm EXCEPT !.seed = "npint"]) : s \in {SeedOfInt(5), SeedOfInt(37), SeedMax(n), SeedAbove(n)}}
        \cup {XCase("seed", XConfig(n, RadialGrids[2], "degrees", <<4>>, QOne, <<>>, "lebedev", Cen(n)), 0, SeedOfInt(1),
                    [DefForm EXCEPT !.seed = "bool"])}
        : n \in {1, 3}}

\* --- presentation of the inputs --------------------------------------------------------------
FormBase(kind_, req_, m_, cen_) ==
    XConfig(3, RadialGrids[1], kind_, req_, <<3, 2>>,
            IF kind_ \in {"pruned_d", "pruned_s"} THEN <<<<1, 2>>, <<1, 1>>>> ELSE <<>>, m_, cen_)
FormReqs == {<<"degrees", <<4>>>>, <<"degrees", <<1, 4, 15>>>>, <<"sizes", <<7>>>>, <<"sizes", <<6, 26, 7>>>>,
             <<"pruned_d", <<3, 7, 3>>>>, <<"pruned_s", <<6, 40, 6>>>>}
FormCases ==
    UNION {
        {XCase("form", FormBase(kr[1], kr[2], m, Cen(1)), 0, SeedOfInt(37), [DefForm EXCEPT !.req = f]) : f \in {"ndarray", "int32"}}
        \cup {XCase("form", FormBase(kr[1], kr[2], m, IntCentre), 0, SeedOfInt(1), [DefForm EXCEPT !.centre = f])
                : f \in {"list", "tuple", "intarray"}}
        \cup {XCase("form", FormBase(kr[1], kr[2], m, Centres[1]), 0, SeedOfInt(1), [DefForm EXCEPT !.centre = "none"])}
        \cup {XCase("form", FormBase(kr[1], kr[2], m, Cen(0)), 0, SeedOfInt(37), [DefForm EXCEPT !.domain = "none"])}
        \cup (IF kr[1] \in {"sizes", "pruned_s"}
              THEN {XCase("form", FormBase(kr[1], kr[2], m, Cen(1)), 0, SeedOfInt(1), [DefForm EXCEPT !.decoy = 15])} ELSE {})
        \cup (IF kr[1] \in {"pruned_d", "pruned_s"}
              THEN {XCase("form", FormBase(kr[1], kr[2], m, Cen(0)), 0, SeedOfInt(1), [DefForm EXCEPT !.sectors = "ndarray"])}
                   \cup {XCase("form", XConfig(4, RadialGrids[1], kr[1], kr[2], <<1, 1>>, <<<<1, 1>>, <<3, 1>>>>, m, Cen(1)), 0,
                               SeedOfInt(1), [DefForm EXCEPT !.sectors = "int"])}
              ELSE {})
        : kr \in FormReqs, m \in PrunedMethods}

\* --- spelling of the method ------------------------------------------------------------------
SpellCases ==
    {XCase("spelling", FormBase(kr[1], kr[2], m, Cen(0)), 0, SeedOfInt(1), [DefForm EXCEPT !.spelling = sp])
        : kr \in {<<"degrees", <<4>>>>, <<"sizes", <<26>>>>, <<"pruned_d", <<3, 7, 3>>>>, <<"pruned_s", <<6, 40, 6>>>>},
          m \in Methods, sp \in {"upper", "title"}}

\* --- ends of the degree / size tables --------------------------------------------------------
MaxOf(S_) == CHOOSE v \in S_ : \A w \in S_ : w <= v
DegMax(m_) == MaxOf(DegKeys[m_])
SizeMax(m_) == MaxOf(SizeKeys[m_])
BoundCases ==
    UNION {
        {XCase("bounds", XConfig(1, XGrids[1], "degrees", <<d>>, QOne, <<>>, m, Cen(1)), 0, SeedOfInt(1), DefForm)
            : d \in {0, DegMax(m), DegMax(m) + 1}}
        \cup {XCase("bounds", XConfig(1, XGrids[1], "sizes", <<s>>, QOne, <<>>, m, Cen(0)), 0, SeedOfInt(37), DefForm)
            : s \in {0, 1, SizeMax(m), SizeMax(m) + 1}}
        : m \in Methods}
    \cup {XCase("bounds", XConfig(3, XGrids[1], "degrees", <<13, 25, 27>>, QOne, <<>>, "lebedev", Cen(1)), 0, SeedOfInt(1), DefForm),
          XCase("bounds", XConfig(2, XGrids[2], "pruned_d", <<13, 27>>, QOne, <<<<1, 2>>>>, "lebedev", Cen(0)), 0, SeedOfInt(0), DefForm)}

XCases == OrderCases \cup ScaleCases \cup SeedCases \cup FormCases \cup SpellCases \cup BoundCases

(***************************************************************************)
(* What the specification expects of a case                                *)
(***************************************************************************)
ExpectedX(x_) == IF SeedAdmissible(x_.seedx, x_.c.n) THEN Expected(x_.c) ELSE Rejected
\* a per-shell grid is served for index i iff 0 <= i < N
ShellRequests(n_) == [j \in 1..n_ + 2 |-> [i |-> j - 2, ok |-> (0 <= j - 2 /\ j - 2 < n_)]]
NumericX(x_) ==
    [factor |-> Numeric(x_.c).factor, factor_nosq |-> x_.c.rgw, radius |-> x_.c.rgp,
     gvals |-> [k \in 1..NG |-> [i \in 1..x_.c.n |-> GVal(k, x_.c.rgp[i])]],
     shellreq |-> ShellRequests(x_.c.n)]
\* the same data for the configurations of AtomGrid.tla (integrals through AtomGrid.integrate): one entry per radial grid
NumericG(rgp_) == [gvals |-> [k \in 1..NG |-> [i \in 1..Len(rgp_) |-> GVal(k, rgp_[i])]]]

\* the order of the nodes is no input of the degree of a node (pruned kinds): a permuted grid gets permuted degrees
Perms(n_) == {f \in [1..n_ -> 1..n_] : \A i, j \in 1..n_ : f[i] = f[j] => i = j}
PermuteLaw ==
    \A x \in {y \in OrderCases : y.c.kind \in {"pruned_d", "pruned_s"} /\ y.c.n = 3 /\ y.c.method = "lebedev"} :
        \A f \in Perms(3) :
            LET c2 == [x.c EXCEPT !.rgp = [i \in 1..3 |-> x.c.rgp[f[i]]], !.rgw = [i \in 1..3 |-> x.c.rgw[f[i]]]]
            IN Expected(c2).ok = Expected(x.c).ok
               /\ (Expected(x.c).ok => Expected(c2).degrees = [i \in 1..3 |-> Expected(x.c).degrees[f[i]]])
ShellRequestLaw == \A n \in 1..4 : Cardinality({j \in 1..n + 2 : ShellRequests(n)[j].ok}) = n
XLaws ==
    /\ Law("SeedLaw", SeedLaw)
    /\ Law("ScaleLaw", ScaleLaw)
    /\ Law("PermuteLaw", PermuteLaw)
    /\ Law("ShellRequestLaw", ShellRequestLaw)
    /\ Law("GVal", GVal(1, <<1, 1>>) = <<1, 4>> /\ GVal(2, <<3, 1>>) = <<5, 2>> /\ GVal(1, QZero) = QOne)

EmitX ==
    /\ JsonSerialize("atomgrid_xcases.json", SetToSeq({[x |-> x, num |-> NumericX(x)] : x \in XCases}))
    /\ JsonSerialize("atomgrid_gvals.json",
            SetToSeq({[rgp |-> SubSeq(RadialGrids[g].p, 1, n), num |-> NumericG(SubSeq(RadialGrids[g].p, 1, n))] : g \in 1..2, n \in 1..4}))

(***************************************************************************)
(* Machines (variables of AtomGrid.tla)                                    *)
(***************************************************************************)
\* run 1: everything MC_AtomGridIdx does, plus the laws and emission of this module
XLawsHold == pc = "idle" => XLaws
XEmitted == pc = "idle" => EmitX

\* run 2: everything MC_AtomGridCfg does, plus judging the observations of the X cases
\* XObs: sequence of [x |-> case, o |-> observation]
XPickBlock ==
    /\ pc = "idle"
    /\ \E b \in 0..(Len(XObs) \div BlockSize) : step' = b
    /\ pc' = "xblock" /\ UNCHANGED <<cs, acc>>
XPick ==
    /\ pc = "xblock"
    /\ \E j \in 1..BlockSize :
         LET k == step * BlockSize + j IN
         /\ k <= Len(XObs)
         /\ cs' = XObs[k].x /\ acc' = XObs[k].o
    /\ pc' = "xjudge" /\ UNCHANGED step
NextCfgX == NextCfg \/ XPickBlock \/ XPick
XCaseSet == XCases
XIsCase == pc = "xjudge" => cs \in XCaseSet
XConforms == pc = "xjudge" => (acc = ExpectedX(cs) \/ PrintT(<<"XMISMATCH", cs, ExpectedX(cs), acc>>))
XExpectedWellFormed ==
    pc = "xjudge" => LET e == ExpectedX(cs) IN
        e.ok => /\ Len(e.indices) = cs.c.n + 1 /\ e.indices[1] = 0
                /\ \A i \in 1..cs.c.n : e.indices[i + 1] - e.indices[i] = e.sizes[i] /\ e.sizes[i] > 0
=============================================================================
