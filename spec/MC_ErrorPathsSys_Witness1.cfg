SPECIFICATION SSpec
CONSTANTS
  Kinds = {"Scaled"}
  Validate = TRUE
INVARIANT WitnessStateDependent
