-------------------------------- MODULE Cubic --------------------------------
(***************************************************************************)
(* Rectilinear grids (property C13): definitions only, no state.           *)
(*                                                                         *)
(*  1. lexicographic layout, strides, the two index maps - declaratively   *)
(*     (the inverse map is DEFINED as the inverse, by CHOOSE) and as the   *)
(*     algorithms of the code (stride loop, div/mod arithmetic)            *)
(*  2. the point law of uniform grids and the tuple / product law of       *)
(*     tensor grids; a model of the NumPy constructions used by the code   *)
(*     (meshgrid "xy"/"ij", swapaxes, vstack, reshape C/F, kron)           *)
(*  3. the documented weighting schemes and the weight-sum bound           *)
(*  4. the box of UniformGrid.from_molecule (rotate=False) in exact        *)
(*     rationals and the enclosure law                                     *)
(*  5. nearest node / lower corner for axis-parallel grids                 *)
(*  6. the cube-file writer and reader loops (line chunking) and layout    *)
(*  7. polynomial test functions for interpolation, their derivatives      *)
(*                                                                         *)
(* The state machines that enumerate cases and judge the observations      *)
(* recorded from the implementation are in MC_Cubic*.tla.                  *)
(* Parameter names carry a trailing underscore (see Expr.tla).             *)
(***************************************************************************)
EXTENDS Expr, FiniteSets, TLC

Range(f_) == {f_[x_] : x_ \in DOMAIN f_}
RECURSIVE ISumTo(_, _)      \* sum_{r=1}^{n} f[r], integers
ISumTo(f_, n_) == IF n_ = 0 THEN 0 ELSE f_[n_] + ISumTo(f_, n_ - 1)
RECURSIVE IProdTo(_, _)
IProdTo(f_, n_) == IF n_ = 0 THEN 1 ELSE f_[n_] * IProdTo(f_, n_ - 1)
RECURSIVE QSumTo(_, _)      \* sum_{r=1}^{n} f[r], rationals
QSumTo(f_, n_) == IF n_ = 0 THEN QZero ELSE QAdd(f_[n_], QSumTo(f_, n_ - 1))
RECURSIVE QProdTo(_, _)
QProdTo(f_, n_) == IF n_ = 0 THEN QOne ELSE QMul(f_[n_], QProdTo(f_, n_ - 1))
QMin2(a_, b_) == IF QLe(a_, b_) THEN a_ ELSE b_
QMax2(a_, b_) == IF QLe(a_, b_) THEN b_ ELSE a_

(***************************************************************************)
(* 1. Layout.  A shape is a sequence <<M1, M2>> or <<M1, M2, M3>>, integer  *)
(* coordinates are 0-based tuples, flat indices are 0-based.               *)
(***************************************************************************)
RECURSIVE ProdFrom(_, _)
ProdFrom(shape_, r_) == IF r_ > Len(shape_) THEN 1 ELSE shape_[r_] * ProdFrom(shape_, r_ + 1)
NPoints(shape_) == ProdFrom(shape_, 1)
\* the stride of axis r is the number of points of ONE step along r: the product of all
\* LATER extents ("the last index runs fastest")
Stride(shape_, r_) == ProdFrom(shape_, r_ + 1)
Strides(shape_) == [r_ \in 1..Len(shape_) |-> Stride(shape_, r_)]
DotI(u_, w_) == ISumTo([r_ \in 1..Len(u_) |-> u_[r_] * w_[r_]], Len(u_))
IndexOf(shape_, c_) == DotI(c_, Strides(shape_))
Coords(shape_) ==
    IF Len(shape_) = 2 THEN (0..shape_[1] - 1) \X (0..shape_[2] - 1)
    ELSE (0..shape_[1] - 1) \X (0..shape_[2] - 1) \X (0..shape_[3] - 1)
\* the inverse map is defined as THE inverse
CoordOf(shape_, idx_) == CHOOSE c_ \in Coords(shape_) : IndexOf(shape_, c_) = idx_
LexLess(c_, e_) == \E r_ \in 1..Len(c_) : c_[r_] < e_[r_] /\ \A q_ \in 1..r_ - 1 : c_[q_] = e_[q_]

\* --- the algorithms of the code ------------------------------------------------------------
\* coordinates_to_index: strides[-1] = 1; for i = ndim-2 .. 0: strides[i] = strides[i+1]*shape[i+1]
RECURSIVE StrideLoop(_, _, _)
StrideLoop(shape_, i_, acc_) ==
    IF i_ < 1 THEN acc_
    ELSE StrideLoop(shape_, i_ - 1, [acc_ EXCEPT ![i_] = acc_[i_ + 1] * shape_[i_ + 1]])
StridesCode(shape_) == StrideLoop(shape_, Len(shape_) - 1, [r_ \in 1..Len(shape_) |-> 1])
C2ICode(shape_, c_) == DotI(c_, StridesCode(shape_))
\* index_to_coordinates
I2CCode(shape_, idx_) ==
    IF Len(shape_) = 3
    THEN LET n1 == shape_[3]
             n2 == shape_[2] * shape_[3]
             ci == idx_ \div n2
             cj == (idx_ - n2 * ci) \div n1
             ck == idx_ - n2 * ci - n1 * cj
         IN <<ci, cj, ck>>
    ELSE LET ci == idx_ \div shape_[2] IN <<ci, idx_ - shape_[2] * ci>>

(***************************************************************************)
(* 2. Point laws.                                                          *)
(***************************************************************************)
\* uniform grid: origin + sum_r c[r] * axes[r]   (axes[r] = r-th axis VECTOR = r-th row)
PointOf(origin_, axes_, c_) ==
    [d_ \in 1..Len(origin_) |->
        origin_[d_] + ISumTo([r_ \in 1..Len(c_) |-> c_[r_] * axes_[r_][d_]], Len(c_))]
\* tensor grid: the tuple of 1D nodes, and the product of 1D weights
TensorPoint(nodes_, c_) == [d_ \in 1..Len(c_) |-> nodes_[d_][c_[d_] + 1]]
TensorWeight(w1d_, c_) == IProdTo([d_ \in 1..Len(c_) |-> w1d_[d_][c_[d_] + 1]], Len(c_))
Det2(a_) == a_[1][1] * a_[2][2] - a_[1][2] * a_[2][1]
Det3(a_) == a_[1][1] * (a_[2][2] * a_[3][3] - a_[2][3] * a_[3][2])
          - a_[1][2] * (a_[2][1] * a_[3][3] - a_[2][3] * a_[3][1])
          + a_[1][3] * (a_[2][1] * a_[3][2] - a_[2][2] * a_[3][1])
Det(a_) == IF Len(a_) = 2 THEN Det2(a_) ELSE Det3(a_)
\* volume of the box spanned by the vectors M_r * a_r (what the weights must sum to)
BoxVolume(axes_, shape_) ==
    Abs(Det([r_ \in 1..Len(shape_) |-> [d_ \in 1..Len(shape_) |-> shape_[r_] * axes_[r_][d_]]]))

\* --- NumPy model -----------------------------------------------------------------------------
\* index tuples of an array of shape s_ (any rank), 0-based
MaxOfSeq(s_) == CHOOSE x_ \in Range(s_) : \A y_ \in Range(s_) : y_ <= x_
IdxSet(s_) == {t_ \in [1..Len(s_) -> 0..MaxOfSeq(s_) - 1] : \A r_ \in 1..Len(s_) : t_[r_] < s_[r_]}
\* position in memory order "C" (last index fastest; Horner from the left) and "F" (first fastest)
RECURSIVE CFlatH(_, _, _, _)
CFlatH(s_, t_, r_, acc_) == IF r_ > Len(s_) THEN acc_ ELSE CFlatH(s_, t_, r_ + 1, acc_ * s_[r_] + t_[r_])
CFlat(s_, t_) == CFlatH(s_, t_, 1, 0)
RECURSIVE FFlatH(_, _, _, _)
FFlatH(s_, t_, r_, acc_) == IF r_ < 1 THEN acc_ ELSE FFlatH(s_, t_, r_ - 1, acc_ * s_[r_] + t_[r_])
FFlat(s_, t_) == FFlatH(s_, t_, Len(s_), 0)
\* np.reshape(arr, new, order): same memory order position
ReshapeAt(arr_, old_, new_, order_, tnew_) ==
    LET pos == IF order_ = "C" THEN CFlat(new_, tnew_) ELSE FFlat(new_, tnew_)
        told == CHOOSE t_ \in IdxSet(old_) :
                    (IF order_ = "C" THEN CFlat(old_, t_) ELSE FFlat(old_, t_)) = pos
    IN arr_[told]
\* UniformGrid.__init__, 3D: coords = array(meshgrid(arange(M1), arange(M2), arange(M3)))  ["xy":
\* every output has shape (M2, M1, M3) and out_d[j,i,k] = arange_d[(i,j,k)[d]]], swapaxes(1,2),
\* reshape(3,-1); 2D: meshgrid(arange(M1), arange(M2)) [shape (M2, M1)], reshape(2,-1,order="F")
UniformCoordsCode(shape_) ==
    IF Len(shape_) = 3
    THEN LET m1 == shape_[1] m2 == shape_[2] m3 == shape_[3]
             mesh == [t_ \in IdxSet(<<3, m2, m1, m3>>) |->
                        IF t_[1] = 0 THEN t_[3] ELSE IF t_[1] = 1 THEN t_[2] ELSE t_[4]]
             swapped == [t_ \in IdxSet(<<3, m1, m2, m3>>) |-> mesh[<<t_[1], t_[3], t_[2], t_[4]>>]]
         IN [idx_ \in 0..m1 * m2 * m3 - 1 |->
                [d_ \in 1..3 |-> ReshapeAt(swapped, <<3, m1, m2, m3>>, <<3, m1 * m2 * m3>>, "C", <<d_ - 1, idx_>>)]]
    ELSE LET m1 == shape_[1] m2 == shape_[2]
             mesh == [t_ \in IdxSet(<<2, m2, m1>>) |-> IF t_[1] = 0 THEN t_[3] ELSE t_[2]]
         IN [idx_ \in 0..m1 * m2 - 1 |->
                [d_ \in 1..2 |-> ReshapeAt(mesh, <<2, m2, m1>>, <<2, m1 * m2>>, "F", <<d_ - 1, idx_>>)]]
\* coords.T.dot(axes) + origin
UniformPointCode(origin_, axes_, shape_, idx_) ==
    LET c == UniformCoordsCode(shape_)[idx_]
    IN [d_ \in 1..Len(origin_) |->
           ISumTo([r_ \in 1..Len(shape_) |-> c[r_] * axes_[r_][d_]], Len(shape_)) + origin_[d_]]
\* Tensor1DGrids.__init__: vstack(meshgrid(x, y[, z], indexing="ij")).reshape(D, -1).T
TensorPointCode(nodes_, shape_, idx_) ==
    LET dd == Len(shape_)
        stacked == IF dd = 3 THEN <<3 * shape_[1], shape_[2], shape_[3]>> ELSE <<2 * shape_[1], shape_[2]>>
        arr == [t_ \in IdxSet(stacked) |->
                   LET blk == t_[1] \div shape_[1]          \* which meshgrid output
                       ii == t_[1] % shape_[1]
                       cc == IF dd = 3 THEN <<ii, t_[2], t_[3]>> ELSE <<ii, t_[2]>>
                   IN nodes_[blk + 1][cc[blk + 1] + 1]]
    IN [d_ \in 1..dd |-> ReshapeAt(arr, stacked, <<dd, NPoints(shape_)>>, "C", <<d_ - 1, idx_>>)]
\* np.kron of two vectors (0-based positions p*len(b)+q)
Kron(a_, b_) == [x_ \in 1..Len(a_) * Len(b_) |-> a_[(x_ - 1) \div Len(b_) + 1] * b_[((x_ - 1) % Len(b_)) + 1]]
TensorWeightsCode(w1d_) ==
    IF Len(w1d_) = 3 THEN Kron(Kron(w1d_[1], w1d_[2]), w1d_[3]) ELSE Kron(w1d_[1], w1d_[2])

(***************************************************************************)
(* 3. Weighting schemes of a uniform grid (as documented), relative to the *)
(* box volume V: every weight of a rational scheme is V * SchemeW.         *)
(***************************************************************************)
RationalSchemes == {"Rectangle", "Trapezoid", "Alternative"}
AllSchemes == RationalSchemes \cup {"Fourier1", "Fourier2"}
SchemeW(name_, shape_) ==
    LET dd == Len(shape_)
        nn == QI(NPoints(shape_))
    IN CASE name_ = "Rectangle" -> QInv(nn)
         [] name_ = "Trapezoid" -> QInv(QProdTo([r_ \in 1..dd |-> QI(shape_[r_] + 1)], dd))
         [] name_ = "Alternative" ->
                QDiv(QProdTo([r_ \in 1..dd |-> Q(shape_[r_] - 1, shape_[r_])], dd), nn)
\* relative deviation of the weight sum from the box volume, and the bound of the property
SchemeDeviation(name_, shape_) == QAbs(QSub(QMul(QI(NPoints(shape_)), SchemeW(name_, shape_)), QOne))
DeviationBound(shape_) == QSumTo([r_ \in 1..Len(shape_) |-> Q(1, shape_[r_])], Len(shape_))
\* Fourier1: w_{ijk} = 2^D V / prod(M+1) * prod_d ( sum_{p=1}^{M_d} sin(i_d p pi/(M_d+1)) (1-cos(p pi)) / (p pi) ),
\* i_d = 1..M_d.  The one-dimensional factor as an expression in the variable nm_:
Fourier1Factor(mm_, nm_) ==
    SumE("p", 1, mm_,
         Div(Mul(Sin(Div(Mul(Mul(V(nm_), V("p")), Pi), CI(mm_ + 1))), Sub(CI(1), Cos(Mul(V("p"), Pi)))),
             Mul(V("p"), Pi)))
CoordNames == <<"i", "j", "k">>
RECURSIVE Fourier1Prod(_, _)
Fourier1Prod(shape_, r_) ==
    IF r_ = 0 THEN CI(1) ELSE Mul(Fourier1Prod(shape_, r_ - 1), Fourier1Factor(shape_[r_], CoordNames[r_]))
\* weight / V at 1-based coordinates (i, j, k)
Fourier1W(shape_) ==
    Mul(CQ(QDiv(QPow(QI(2), Len(shape_)), QProdTo([r_ \in 1..Len(shape_) |-> QI(shape_[r_] + 1)], Len(shape_)))),
        Fourier1Prod(shape_, Len(shape_)))

(***************************************************************************)
(* 4. UniformGrid.from_molecule, rotate=False, in exact rationals.          *)
(* A molecule is a sequence of atoms [z |-> charge, r |-> <<Q, Q, Q>>].     *)
(***************************************************************************)
TotZ(mol_) == ISumTo([a_ \in 1..Len(mol_) |-> mol_[a_].z], Len(mol_))
CentreOfCharge(mol_) ==
    [d_ \in 1..3 |-> QDiv(QSumTo([a_ \in 1..Len(mol_) |-> QMul(QI(mol_[a_].z), mol_[a_].r[d_])], Len(mol_)),
                          QI(TotZ(mol_)))]
RECURSIVE QMinTo(_, _)
QMinTo(f_, n_) == IF n_ = 1 THEN f_[1] ELSE QMin2(f_[n_], QMinTo(f_, n_ - 1))
RECURSIVE QMaxTo(_, _)
QMaxTo(f_, n_) == IF n_ = 1 THEN f_[1] ELSE QMax2(f_[n_], QMaxTo(f_, n_ - 1))
MolMin(mol_) == [d_ \in 1..3 |-> QMinTo([a_ \in 1..Len(mol_) |-> mol_[a_].r[d_]], Len(mol_))]
MolMax(mol_) == [d_ \in 1..3 |-> QMaxTo([a_ \in 1..Len(mol_) |-> mol_[a_].r[d_]], Len(mol_))]
MolMid(mol_) == [d_ \in 1..3 |-> QDiv(QAdd(MolMin(mol_)[d_], MolMax(mol_)[d_]), QI(2))]
\* number of points: ceil((extent + 2 extension) / spacing)
BoxShape(mol_, sp_, ext_) ==
    [d_ \in 1..3 |-> QCeil(QDiv(QAdd(QSub(MolMax(mol_)[d_], MolMin(mol_)[d_]), QMul(QI(2), ext_)), sp_))]
\* origin = centre - (shape/2) * spacing ; the code takes centre = centre of nuclear charge
BoxOrigin(mol_, sp_, ext_, centre_) ==
    [d_ \in 1..3 |-> QSub(centre_[d_], QMul(Q(BoxShape(mol_, sp_, ext_)[d_], 2), sp_))]
BoxOriginShipped(mol_, sp_, ext_) == BoxOrigin(mol_, sp_, ext_, CentreOfCharge(mol_))
BoxOriginMid(mol_, sp_, ext_) == BoxOrigin(mol_, sp_, ext_, MolMid(mol_))
\* smallest distance of a nucleus to a face of the box [origin, origin + (shape-1) spacing]
BoxMargin(mol_, sp_, ext_, origin_) ==
    LET shp == BoxShape(mol_, sp_, ext_)
        per == [d_ \in 1..3 |->
                  QMin2(QSub(MolMin(mol_)[d_], origin_[d_]),
                        QSub(QAdd(origin_[d_], QMul(QI(shp[d_] - 1), sp_)), MolMax(mol_)[d_]))]
    IN QMinTo(per, 3)
\* the property: every nucleus inside with margin >= extension - spacing
Encloses(mol_, sp_, ext_, origin_) == QLe(QSub(ext_, sp_), BoxMargin(mol_, sp_, ext_, origin_))
ChargeCentred(mol_) == \A d_ \in 1..3 : QEq(CentreOfCharge(mol_)[d_], MolMid(mol_)[d_])

(***************************************************************************)
(* 5. Nearest node of an axis-parallel uniform grid: origin (integers),    *)
(* signed steps (non-zero integers), query point (rationals).              *)
(***************************************************************************)
NodeQ(origin_, step_, c_) == [d_ \in 1..Len(c_) |-> QI(origin_[d_] + c_[d_] * step_[d_])]
Dist2Q(p_, n_) == QSumTo([d_ \in 1..Len(p_) |-> QMul(QSub(p_[d_], n_[d_]), QSub(p_[d_], n_[d_]))], Len(p_))
IsNearestNode(shape_, origin_, step_, p_, idx_) ==
    /\ idx_ \in 0..NPoints(shape_) - 1
    /\ LET mine == Dist2Q(p_, NodeQ(origin_, step_, CoordOf(shape_, idx_)))
       IN \A c_ \in Coords(shape_) : QLe(mine, Dist2Q(p_, NodeQ(origin_, step_, c_)))
FracCoord(origin_, step_, p_) == [d_ \in 1..Len(p_) |-> QDiv(QSub(p_[d_], QI(origin_[d_])), QI(step_[d_]))]
InsideBox(shape_, origin_, step_, p_) ==
    \A d_ \in 1..Len(p_) : LET t == FracCoord(origin_, step_, p_)[d_]
                          IN QLe(QZero, t) /\ QLe(t, QI(shape_[d_] - 1))
\* round half to even (np.rint)
QRint(a_) == LET fl == QFloor(a_)
                 rest == QSub(a_, QI(fl))
             IN IF QLt(rest, <<1, 2>>) THEN fl
                ELSE IF QLt(<<1, 2>>, rest) THEN fl + 1
                ELSE IF fl % 2 = 0 THEN fl ELSE fl + 1
ClosestAlgo(shape_, origin_, step_, p_) ==
    IndexOf(shape_, [d_ \in 1..Len(p_) |-> QRint(FracCoord(origin_, step_, p_)[d_])])
\* "origin" corner of the cell that contains p: the node c with c <= frac < c + 1 in every direction
LowerCornerAlgo(shape_, origin_, step_, p_) ==
    IndexOf(shape_, [d_ \in 1..Len(p_) |-> QFloor(FracCoord(origin_, step_, p_)[d_])])
IsLowerCorner(shape_, origin_, step_, p_, idx_) ==
    /\ idx_ \in 0..NPoints(shape_) - 1
    /\ LET c == CoordOf(shape_, idx_) t == FracCoord(origin_, step_, p_)
       IN \A d_ \in 1..Len(p_) : QLe(QI(c[d_]), t[d_]) /\ QLt(t[d_], QI(c[d_] + 1))

(***************************************************************************)
(* 6. Cube files.  Data positions are 1..n; a file is a sequence of lines, *)
(* a line a sequence of tokens.                                            *)
(***************************************************************************)
PerLine == 6
\* writer: for i in range(0, n, 6): write data[i : i+6]
RECURSIVE WriteFrom(_, _)
WriteFrom(i_, n_) ==
    IF i_ >= n_ THEN <<>>
    ELSE <<[q_ \in 1..Min2(i_ + PerLine, n_) - i_ |-> i_ + q_]>> \o WriteFrom(i_ + PerLine, n_)
WriteData(n_) == WriteFrom(0, n_)
\* reader: counter = 0; for every line: data[counter : counter+len(words)] = words; counter += len(words)
RECURSIVE ReadFrom(_, _, _)
ReadFrom(lines_, counter_, data_) ==
    IF lines_ = <<>> THEN data_
    ELSE LET words == Head(lines_)
         IN ReadFrom(Tail(lines_), counter_ + Len(words),
                     [x_ \in DOMAIN data_ |-> IF x_ > counter_ /\ x_ <= counter_ + Len(words)
                                              THEN words[x_ - counter_] ELSE data_[x_]])
ReadData(lines_, n_) == ReadFrom(lines_, 0, [x_ \in 1..n_ |-> 0])
\* declarative layout of the data block
DataLineCount(n_) == CeilDiv(n_, PerLine)
DataLineLengths(n_) == [l_ \in 1..DataLineCount(n_) |-> IF l_ < DataLineCount(n_) THEN PerLine ELSE n_ - PerLine * (DataLineCount(n_) - 1)]
\* tokens per line of a whole file after the two title lines: natom+origin, three axis lines,
\* one line of five tokens per atom, the data block
FileTokenCounts(natom_, n_) ==
    <<4, 4, 4, 4>> \o [a_ \in 1..natom_ |-> 5] \o DataLineLengths(n_)
\* unit convention: a negative first point count announces angstrom; 1 bohr = 0.52917721 angstrom
\* (CODATA, truncated to 8 digits: relative truncation error 2e-10)
BohrInAngstrom == C(52917721, 100000000)
AngstromToBohr == Div(CI(1), BohrInAngstrom)

(***************************************************************************)
(* 7. Polynomial test functions p(x,y,z) = sum c x^i y^j z^k given as a    *)
(* sequence of terms <<i, j, k, c>>.                                       *)
(***************************************************************************)
TermTree(t_) == Mul(CI(t_[4]), Mul(Pow(V("x"), t_[1]), Mul(Pow(V("y"), t_[2]), Pow(V("z"), t_[3]))))
RECURSIVE PolyTreeTo(_, _)
PolyTreeTo(terms_, n_) == IF n_ = 0 THEN CI(0) ELSE Add(PolyTreeTo(terms_, n_ - 1), TermTree(terms_[n_]))
PolyTree(terms_) == PolyTreeTo(terms_, Len(terms_))
\* derived partial derivative d^(a+b+c) / dx^a dy^b dz^c of any tree (a, b, c <= 3)
Partial(e_, nu_) == Dn(Dn(Dn(e_, "x", nu_[1]), "y", nu_[2]), "z", nu_[3])
\* elementary calculus, term by term (falling factorials), for cross-checking the symbolic D
RECURSIVE Falling(_, _)
Falling(n_, k_) == IF k_ = 0 THEN 1 ELSE n_ * Falling(n_ - 1, k_ - 1)
TermPartial(t_, nu_) ==
    IF t_[1] < nu_[1] \/ t_[2] < nu_[2] \/ t_[3] < nu_[3] THEN <<0, 0, 0, 0>>
    ELSE <<t_[1] - nu_[1], t_[2] - nu_[2], t_[3] - nu_[3],
           t_[4] * Falling(t_[1], nu_[1]) * Falling(t_[2], nu_[2]) * Falling(t_[3], nu_[3])>>
PolyPartialTerms(terms_, nu_) == [n_ \in 1..Len(terms_) |-> TermPartial(terms_[n_], nu_)]
MaxDegreeOK(terms_) == \A n_ \in 1..Len(terms_) : \A r_ \in 1..3 : terms_[n_][r_] \in 0..3
Trilinear(terms_) == \A n_ \in 1..Len(terms_) : \A r_ \in 1..3 : terms_[n_][r_] \in 0..1
\* derivative orders of the property: total order <= 3
NuSet == {nu_ \in (0..3) \X (0..3) \X (0..3) : nu_[1] + nu_[2] + nu_[3] <= 3}
SingleNu == {nu_ \in NuSet : Cardinality({r_ \in 1..3 : nu_[r_] > 0}) <= 1}
=============================================================================
