SPECIFICATION TSpec
CONSTANTS
  PAlts = {}
  WAlts = {}
  Centers = {}
  Radii = {}
  Sels = {}
  InvalidateOnSet = TRUE
  CanSetPoints = TRUE
INVARIANT QueryCorrect
INVARIANT TreeFresh
PROPERTY RejectIsAtomic
