SPECIFICATION Spec
INVARIANT Finished
