SPECIFICATION GSpec
CONSTANTS
  Fitted = {1, 17}
  Spell = {"int", "lower"}
  RefusedKinds = {"unknown-symbol", "not-fitted"}
  MaxObjs = 2
  Handout = "fresh"
  MaxLen = 4
INVARIANT Emit
INVARIANT EveryCallEqual
INVARIANT TableClean
