-------------------------------- MODULE NGrid --------------------------------
(***************************************************************************)
(* Property C18: the multi-domain integral of MultiDomainGrid equals the   *)
(* iterated product quadrature                                              *)
(*                                                                         *)
(*     sum_i1 w1[i1] ( sum_i2 w2[i2] ( ... f(p1[i1], p2[i2], ...) ) )       *)
(*                                                                         *)
(* for every evaluation route (vectorised partial application over the     *)
(* last domain; point-by-point with two chunked generators zipped in       *)
(* lock-step; the single-domain shortcut) and every chunk size; separable  *)
(* integrands give the product of the single-grid integrals; `size`,       *)
(* `points` and `weights` describe that product set in the same order.     *)
(*                                                                         *)
(* Integer model.  A grid is [pd |-> 1 | 3, w |-> weights, p |-> points]   *)
(* with integer weights and integer points (tuples of length pd); the      *)
(* catalogue Cat of grids, the number of domains and the bound on the      *)
(* total size are tier parameters (module Gen_ngrid).  A configuration is  *)
(* [rep, nd, gl]: rep = FALSE: MultiDomainGrid(grid_list = Cat[gl[1..nd]]) *)
(* rep = TRUE : MultiDomainGrid([Cat[gl[1]]], num_domains = nd).           *)
(*                                                                         *)
(* Next to the DEFINITION (NestedSum, EnumDecl, Total) stands the          *)
(* ALGORITHM of ngrid.py as a step-by-step state machine: itertools.product *)
(* as an odometer, _chunked_iterator as "take up to c items, stop at an    *)
(* empty chunk", zip as "ask the first generator, then the second, stop at *)
(* the first that is exhausted", the accumulation loop, the vectorised     *)
(* loop over all combinations of the first nd-1 domains with the last      *)
(* domain integrated by Grid.integrate, and the num_domains = 1 shortcut.  *)
(***************************************************************************)
EXTENDS Integers, Sequences, FiniteSets, TLC, Gen_ngrid

Force(f) == IF f = f THEN f ELSE f
MaxOfSet(S) == CHOOSE x \in S : \A y \in S : y <= x

(***************************************************************************)
(* Configurations.                                                         *)
(***************************************************************************)
\* the first NSmall grids of the catalogue are combined exhaustively (NSmall = Len(Cat) unless the catalogue also
\* carries the large grids of BigCfgs, see "LARGE products" below)
NCat == NSmall
GSize(g) == Len(Cat[g].w)
RECURSIVE Pow(_, _)
Pow(b, e) == IF e = 0 THEN 1 ELSE b * Pow(b, e - 1)
\* digits of x in base NCat, most significant first, len digits, each + 1
DigitsMSF(x, len) == [t \in 1..len |-> ((x \div Pow(NCat, len - t)) % NCat) + 1]
ListPart(len) == [x \in 1..Pow(NCat, len) |-> [rep |-> FALSE, nd |-> len, gl |-> DigitsMSF(x - 1, len)]]
RepPart == [x \in 1..(NCat * MaxDomains) |-> [rep |-> TRUE, nd |-> ((x - 1) \div NCat) + 1, gl |-> <<((x - 1) % NCat) + 1>>]]
RECURSIVE ListParts(_)
ListParts(len) == IF len = 0 THEN <<>> ELSE ListParts(len - 1) \o ListPart(len)
\* the grid of every domain
Dom(cf) == IF cf.rep THEN [d \in 1..cf.nd |-> cf.gl[1]] ELSE cf.gl
SizesOf(cf) == [d \in 1..cf.nd |-> GSize(Dom(cf)[d])]
RECURSIVE ProdSeq(_, _)
ProdSeq(s, j) == IF j > Len(s) THEN 1 ELSE s[j] * ProdSeq(s, j + 1)
Total(cf) == ProdSeq(SizesOf(cf), 1)          \* DEFINITION of the size: number of combinations
Configs == Force(SelectSeq(ListParts(MaxDomains) \o RepPart, LAMBDA c : Total(c) <= MaxTotal))

(***************************************************************************)
(* DEFINITION: the product set, its order, the nested sum.                 *)
(***************************************************************************)
\* multi-index number k (0-based) in "last domain fastest" order
Decode(sizes, k) == [d \in 1..Len(sizes) |-> ((k \div ProdSeq(sizes, d + 1)) % sizes[d]) + 1]
EnumDecl(cf) == [k \in 1..Total(cf) |-> Decode(SizesOf(cf), k - 1)]
WOf(cf, mi) == ProdSeq([d \in 1..cf.nd |-> Cat[Dom(cf)[d]].w[mi[d]]], 1)
POf(cf, mi) == [d \in 1..cf.nd |-> Cat[Dom(cf)[d]].p[mi[d]]]

\* the finite family of integer polynomial integrands; pts = one point per domain
\* (points of length 2 - planar grids - were added by the C18 audit; lengths 1 and 3 as before)
S(p) == IF Len(p) = 1 THEN p[1] ELSE IF Len(p) = 2 THEN p[1] + 2 * p[2] ELSE p[1] + 2 * p[2] - p[3]
Qd(p) == IF Len(p) = 1 THEN p[1] * p[1] ELSE IF Len(p) = 2 THEN p[1] * p[2] - p[2] ELSE p[1] * p[2] + p[3] * p[3]
RECURSIVE SumTo(_, _)      \* sum_{d = 1..n} term[d]
SumTo(term, n) == IF n = 0 THEN 0 ELSE SumTo(term, n - 1) + term[n]
NF == 6
Separable(fi) == fi \in {1, 2, 3}
Factor(fi, d, p) == IF fi = 1 THEN 1 ELSE IF fi = 2 THEN S(p) ELSE Qd(p) + d        \* separable ones
FOnPts(fi, pts) ==
    LET n == Len(pts) IN
    IF Separable(fi) THEN ProdSeq([d \in 1..n |-> Factor(fi, d, pts[d])], 1)
    ELSE IF fi = 4 THEN SumTo([d \in 1..n |-> d * S(pts[d])], n)
    ELSE IF fi = 5 THEN SumTo([d \in 1..n |-> ProdSeq([e \in 1..d |-> S(pts[e])], 1)], n)
    ELSE SumTo([d \in 1..n |-> S(pts[d])], n) * SumTo([d \in 1..n |-> S(pts[d])], n) - Qd(pts[n])
FVal(cf, fi, mi) == FOnPts(fi, POf(cf, mi))

\* the iterated product quadrature
RECURSIVE Nested(_, _, _)
Nested(cf, fi, prefix) ==
    IF Len(prefix) = cf.nd THEN FVal(cf, fi, prefix)
    ELSE LET g == Cat[Dom(cf)[Len(prefix) + 1]] IN
         SumTo([i \in 1..Len(g.w) |-> g.w[i] * Nested(cf, fi, prefix \o <<i>>)], Len(g.w))
NestedSum(cf, fi) == Nested(cf, fi, <<>>)
\* single-grid integral of factor d of a separable integrand
Single(cf, fi, d) == LET g == Cat[Dom(cf)[d]] IN SumTo([i \in 1..Len(g.w) |-> g.w[i] * Factor(fi, d, g.p[i])], Len(g.w))
ProductOfSingles(cf, fi) == ProdSeq([d \in 1..cf.nd |-> Single(cf, fi, d)], 1)

(***************************************************************************)
(* ALGORITHM building blocks.                                              *)
(***************************************************************************)
\* MultiDomainGrid.size as coded
SizeCode(cf) == IF Len(cf.gl) = 1 THEN Pow(GSize(cf.gl[1]), cf.nd) ELSE ProdSeq([d \in 1..Len(cf.gl) |-> GSize(cf.gl[d])], 1)
\* itertools.product as an odometer over index tuples
\* (a factor without elements - a grid of size 0 - makes the product empty from the start)
First(sizes) == [done |-> \E d \in 1..Len(sizes) : sizes[d] = 0, mi |-> [d \in 1..Len(sizes) |-> 1]]
Adv(od, sizes) ==
    LET cand == {d \in 1..Len(sizes) : od.mi[d] < sizes[d]} IN
    IF cand = {} THEN [done |-> TRUE, mi |-> od.mi]
    ELSE LET dd == MaxOfSet(cand) IN
         [done |-> FALSE,
          mi |-> [e \in 1..Len(sizes) |-> IF e < dd THEN od.mi[e] ELSE IF e = dd THEN od.mi[e] + 1 ELSE 1]]
\* list(islice(iterator, c)): up to c items and the iterator afterwards
RECURSIVE Take(_, _, _)
Take(od, sizes, c) ==
    IF c = 0 \/ od.done THEN [items |-> <<>>, od |-> od]
    ELSE LET r == Take(Adv(od, sizes), sizes, c - 1) IN [items |-> <<od.mi>> \o r.items, od |-> r.od]

(***************************************************************************)
(* State machine.                                                          *)
(***************************************************************************)
Huge == 1000000000            \* a chunk size far beyond every total (one chunk takes everything)
VARIABLES n_pc, n_k, n_fi, n_route, n_chunk, n_acc, n_odw, n_odv, n_cw, n_cv, n_cnt, n_drop, n_short
vars == <<n_pc, n_k, n_fi, n_route, n_chunk, n_acc, n_odw, n_odv, n_cw, n_cv, n_cnt, n_drop, n_short>>
CF == Configs[n_k]
NoOd == [done |-> TRUE, mi |-> <<>>]

Init == /\ n_pc = "idle" /\ n_k = 0 /\ n_fi = 0 /\ n_route = "none" /\ n_chunk = 0 /\ n_acc = 0
        /\ n_odw = NoOd /\ n_odv = NoOd /\ n_cw = <<>> /\ n_cv = <<>> /\ n_cnt = 0 /\ n_drop = FALSE /\ n_short = FALSE

PickCfg ==
    /\ n_pc = "idle"
    /\ \E k \in 1..Len(Configs) : n_k' = k
    /\ n_pc' = "cfg"
    /\ UNCHANGED <<n_fi, n_route, n_chunk, n_acc, n_odw, n_odv, n_cw, n_cv, n_cnt, n_drop, n_short>>
\* integrate(f, non_vectorized = (route = "pbp"), integration_chunk_size = chunk)
PickRun ==
    /\ n_pc = "cfg"
    /\ \E fi \in 1..NF :
         /\ n_fi' = fi
         /\ \/ n_route' = "vec" /\ n_chunk' = 0
            \/ n_route' = "pbp" /\ \E c \in (1..Total(CF) + 1) \cup {Huge} : n_chunk' = c
    /\ n_pc' = "start"
    /\ UNCHANGED <<n_k, n_acc, n_odw, n_odv, n_cw, n_cv, n_cnt, n_drop, n_short>>

PreSizes == SubSeq(SizesOf(CF), 1, CF.nd - 1)
LastGrid == Cat[CF.gl[Len(CF.gl)]]                  \* self.grid_list[-1]
Start ==
    /\ n_pc = "start"
    /\ IF n_route = "pbp"
         THEN /\ n_odw' = First(SizesOf(CF)) /\ n_odv' = First(SizesOf(CF))
              /\ n_acc' = 0 /\ n_pc' = "p_nextw" /\ UNCHANGED n_short
         ELSE IF CF.nd = 1
         THEN \* shortcut: values = f(grid.points); return grid.integrate(values)
              /\ n_acc' = LET g == Cat[CF.gl[1]] IN
                          SumTo([i \in 1..Len(g.w) |-> g.w[i] * FOnPts(n_fi, <<g.p[i]>>)], Len(g.w))
              /\ n_short' = TRUE /\ n_pc' = "done" /\ UNCHANGED <<n_odw, n_odv>>
         ELSE /\ n_odw' = First(PreSizes) /\ n_odv' = First(PreSizes)
              /\ n_acc' = 0 /\ n_pc' = "v_loop" /\ UNCHANGED n_short
    /\ UNCHANGED <<n_k, n_fi, n_route, n_chunk, n_cw, n_cv, n_cnt, n_drop>>

\* for pre_points_combination, pre_weight in zip(pre_points_combinations, pre_weights): ...
VStep ==
    /\ n_pc = "v_loop"
    /\ IF n_odv.done \/ n_odw.done
         THEN /\ n_pc' = "done" /\ n_drop' = (n_odv.done # n_odw.done)
              /\ UNCHANGED <<n_acc, n_odw, n_odv, n_cnt>>
         ELSE LET pre == n_odv.mi                       \* indices of the fixed points
                  prew == n_odw.mi                      \* indices of the fixed weights
                  prewt == ProdSeq([d \in 1..Len(prew) |-> Cat[Dom(CF)[d]].w[prew[d]]], 1)
                  \* values on the last grid, then Grid.integrate on the last grid
                  part == SumTo([j \in 1..Len(LastGrid.w) |->
                                   LastGrid.w[j] * FOnPts(n_fi, [d \in 1..CF.nd |->
                                        IF d < CF.nd THEN Cat[Dom(CF)[d]].p[pre[d]] ELSE LastGrid.p[j]])],
                                Len(LastGrid.w))
              IN /\ n_acc' = n_acc + prewt * part
                 /\ n_odv' = Adv(n_odv, PreSizes) /\ n_odw' = Adv(n_odw, PreSizes)
                 /\ n_cnt' = n_cnt + 1
                 /\ UNCHANGED <<n_pc, n_drop>>
    /\ UNCHANGED <<n_k, n_fi, n_route, n_chunk, n_cw, n_cv, n_short>>

\* zip(chunked_weights, chunked_values): the weights generator is asked first
PNextW ==
    /\ n_pc = "p_nextw"
    /\ LET r == Take(n_odw, SizesOf(CF), n_chunk) IN
         /\ n_cw' = r.items /\ n_odw' = r.od
         /\ n_pc' = IF r.items = <<>> THEN "done" ELSE "p_nextv"
    /\ UNCHANGED <<n_k, n_fi, n_route, n_chunk, n_acc, n_odv, n_cv, n_cnt, n_drop, n_short>>
PNextV ==
    /\ n_pc = "p_nextv"
    /\ LET r == Take(n_odv, SizesOf(CF), n_chunk + Skew) IN
         /\ n_cv' = r.items /\ n_odv' = r.od
         /\ IF r.items = <<>> THEN n_pc' = "done" /\ n_drop' = TRUE      \* a weights chunk is lost
            ELSE n_pc' = "p_acc" /\ UNCHANGED n_drop
    /\ UNCHANGED <<n_k, n_fi, n_route, n_chunk, n_acc, n_odw, n_cw, n_cnt, n_short>>
\* integral_value += np.sum(values_array * weights_array)   (equal lengths: see Aligned)
PAcc ==
    /\ n_pc = "p_acc"
    /\ n_acc' = n_acc + SumTo([t \in 1..Len(n_cw) |->
                                  WOf(CF, n_cw[t]) * FVal(CF, n_fi, n_cv[IF t <= Len(n_cv) THEN t ELSE Len(n_cv)])],
                              Len(n_cw))
    /\ n_cnt' = n_cnt + Len(n_cw)
    /\ n_pc' = "p_nextw"
    /\ UNCHANGED <<n_k, n_fi, n_route, n_chunk, n_odw, n_odv, n_cw, n_cv, n_drop, n_short>>

Next == PickCfg \/ PickRun \/ Start \/ VStep \/ PNextW \/ PNextV \/ PAcc
Spec == Init /\ [][Next]_vars
StaticOnly == n_pc = "idle"

(***************************************************************************)
(* Properties.                                                             *)
(***************************************************************************)
Done == n_pc = "done"
\* every route, every chunk size: the nested sum
ResultIsNestedSum == Done => n_acc = NestedSum(CF, n_fi)
SeparableIsProduct == Done /\ Separable(n_fi) => n_acc = ProductOfSingles(CF, n_fi)
\* the k-th weight chunk and the k-th value chunk cover the same index range, which is the
\* next range of the declared enumeration order
Aligned ==
    n_pc = "p_acc" =>
        /\ n_cw = n_cv
        /\ n_cw = SubSeq(EnumDecl(CF), n_cnt + 1, n_cnt + Len(n_cw))
VAligned == n_pc = "v_loop" => n_odv = n_odw
NothingDropped == Done => ~n_drop
AllConsumed ==
    Done /\ ~n_short => n_cnt = (IF n_route = "pbp" THEN Total(CF) ELSE ProdSeq(PreSizes, 1))
ShortcutOnlyForOneDomain == n_short <=> (n_pc = "done" /\ n_route = "vec" /\ CF.nd = 1)
\* size: formula of the code = number of combinations = length of the enumeration, and the
\* enumeration lists every combination exactly once
SizeLaw ==
    n_pc = "cfg" =>
        /\ SizeCode(CF) = Total(CF)
        /\ Cardinality({EnumDecl(CF)[t] : t \in 1..Total(CF)}) = Total(CF)
        /\ \A t \in 1..Total(CF) : \A d \in 1..CF.nd : EnumDecl(CF)[t][d] \in 1..SizesOf(CF)[d]
\* the odometer (itertools.product) enumerates in the declared order
OdometerOrder ==
    n_pc = "cfg" => Take(First(SizesOf(CF)), SizesOf(CF), Total(CF) + 1).items = EnumDecl(CF)

(***************************************************************************)
(* Conformance.  Obs[k] = what MultiDomainGrid did for configuration k:     *)
(*   [st, nd, size, pts, wts, vec, dflt, pbp]; results are integers (the    *)
(*   harness refuses non-integral floats), BadInt marks exception/garbage.  *)
(***************************************************************************)
HasObs == n_k >= 1 /\ n_k <= Len(Obs)
O == Obs[n_k]
ExpPts == [t \in 1..Total(CF) |-> POf(CF, EnumDecl(CF)[t])]
ExpWts == [t \in 1..Total(CF) |-> WOf(CF, EnumDecl(CF)[t])]
CfgAgrees == /\ O.st = "ok" /\ O.nd = CF.nd /\ O.size = Total(CF)
             /\ O.pts = ExpPts /\ O.wts = ExpWts
ObsCfgConforms ==
    n_pc = "cfg" /\ HasObs =>
        CfgAgrees \/ PrintT(<<"MISMATCH", "cfg", n_k, CF, O.st, O.nd, O.size, Total(CF)>>)
PbpIdx(c) == IF c = Huge THEN Total(CF) + 2 ELSE c      \* position of chunk size c in O.pbp[fi]
RunAgrees ==
    IF n_route = "vec"
      THEN O.vec[n_fi] = NestedSum(CF, n_fi) /\ O.dflt[n_fi] = NestedSum(CF, n_fi)
      ELSE O.pbp[n_fi][PbpIdx(n_chunk)] = NestedSum(CF, n_fi)
ObsRunConforms ==
    Done /\ HasObs =>
        RunAgrees \/ PrintT(<<"MISMATCH", "run", n_k, CF, n_fi, n_route, n_chunk, NestedSum(CF, n_fi),
                              IF n_route = "vec" THEN <<O.vec[n_fi], O.dflt[n_fi]>> ELSE <<O.pbp[n_fi][PbpIdx(n_chunk)]>>>>)

(***************************************************************************)
(* C18 audit: further clauses on the base observation.                     *)
(*  - enumerated a second time AFTER all the integrals (and with a         *)
(*    half-consumed generator of the first enumeration still alive) the    *)
(*    instance lists the same product set: pts2 / wts2 / size2;            *)
(*  - "separable integrands give the product of single-grid integrals":    *)
(*    single[fi][d] is what Grid.integrate of domain d returned for factor *)
(*    d of the separable integrand fi (the factor values are emitted by    *)
(*    TLC); it must be Single(cf, fi, d) and the product over the domains  *)
(*    must be the multi-domain integral that was observed.                 *)
(***************************************************************************)
ReEnumAgrees == /\ O.size2 = Total(CF) /\ O.pts2 = ExpPts /\ O.wts2 = ExpWts
ObsReEnumConforms ==
    n_pc = "cfg" /\ HasObs =>
        ReEnumAgrees \/ PrintT(<<"MISMATCH", "cfg2", n_k, CF, O.st, O.nd, O.size2, Total(CF)>>)
SepFis == {fi \in 1..NF : Separable(fi)}
SinglesAgree(fi) ==
    /\ \A d \in 1..CF.nd : O.single[fi][d] = Single(CF, fi, d)
    /\ ProdSeq(O.single[fi], 1) = O.vec[fi]
ObsSinglesConform ==
    n_pc = "cfg" /\ HasObs =>
        \A fi \in SepFis :
            SinglesAgree(fi) \/ PrintT(<<"MISMATCH", "single", n_k, CF, fi, [d \in 1..CF.nd |-> Single(CF, fi, d)], O.single[fi], O.vec[fi]>>)

(***************************************************************************)
(* C18 audit: FORMS.  The same configuration can be handed to the          *)
(* implementation in many forms that do not change the mathematical object: *)
(*   wdt / pdt   floating or integer type of the weight / point arrays      *)
(*   wsh[g]      weights of catalogue grid g are w / 2^wsh[g] (dyadic, so   *)
(*               every product and sum stays exact in binary floating point)*)
(*   psh, pof    points are p / 2^psh + pof / 8 (the tabulated integrand    *)
(*               inverts the map: its values belong to the abstract point)  *)
(*   col         1-D grids carry their points as an (n, 1) column           *)
(*   cls         class of the grid objects: Grid, LocalGrid, or a subclass  *)
(*               that - like AtomGrid - stores centred points and overrides *)
(*               the `points` property                                      *)
(*   alias       equal entries of the grid list are ONE object              *)
(*   retv, fshv  what the vectorised integrand returns (array type; values  *)
(*               v / 2^fshv);  retp, fshp the same for point-by-point       *)
(*   call        keywords, positional, numpy scalars for the options (the   *)
(*               constructor is called in the same style)                   *)
(*   first       "enum": enumeration before the integrals, "int": after     *)
(*   chunks      the chunk sizes tried (two drawn from 1..total+1 and Huge) *)
(* The law: every observation is the one of the base form, up to the known  *)
(* power of two: result * 2^(we + fsh) = NestedSum, weights * 2^we = the    *)
(* product weights (we = sum of wsh over the domains).  The form of         *)
(* configuration k is drawn here from the pools, as a function of Seed.     *)
(***************************************************************************)
WDt == <<"f8", "i8", "f4", "f16", "i4", "f8">>
PDt == <<"f8", "i8", "f4", "f8">>
ClsPool == <<"Grid", "Local", "Shift", "Shift">>
RetV == <<"f8", "i8", "f4", "strided", "f16", "readonly">>
RetP == <<"float", "int", "f8", "f4", "0d", "f16">>
CallPool == <<"kw", "pos", "np">>
\* a small hash of (k, Seed, salt) into 1..n (all intermediate values stay below 2^31)
MixH(k) == ((k + 101 * (Seed % 97)) % 9973) + 1
Mix(k, salt, n) == ((((((MixH(k) * MixH(k)) % 100003) * (2 * salt + 1) + MixH(k) * 7919 + salt * 104729) % 100003) \div 7) % n) + 1
FormOf(k) ==
    LET cf == Configs[k]
        wdt == WDt[Mix(k, 1, Len(WDt))]
        pdt == PDt[Mix(k, 2, Len(PDt))]
        intw == wdt \in {"i8", "i4"}
        rv0 == RetV[Mix(k, 3, Len(RetV))]
        rp0 == RetP[Mix(k, 4, Len(RetP))]
        \* binary32 weights AND binary32 values would make the whole computation binary32, which cannot hold the sums
        rv == IF wdt = "f4" /\ rv0 = "f4" THEN "f8" ELSE rv0
        rp == IF wdt = "f4" /\ rp0 = "f4" THEN "float" ELSE rp0
        wa == Mix(k, 6, 3) - 1
        c1 == Mix(k, 11, Total(cf) + 1)
        c2 == Mix(k, 12, Total(cf) + 1)
    IN [wdt |-> wdt, pdt |-> pdt,
        wsh |-> [g \in 1..Len(Cat) |-> IF intw THEN 0 ELSE (g + wa) % 3],
        psh |-> IF pdt = "i8" THEN 0 ELSE Mix(k, 7, 3) - 1,
        pof |-> IF pdt = "i8" THEN 0 ELSE <<0, 1, 3>>[Mix(k, 8, 3)],
        col |-> Mix(k, 9, 4) = 1,
        cls |-> ClsPool[Mix(k, 13, Len(ClsPool))],
        alias |-> Mix(k, 10, 2) = 1,
        retv |-> rv, fshv |-> IF rv = "i8" THEN 0 ELSE Mix(k, 5, 3) - 1,
        retp |-> rp, fshp |-> IF rp = "int" THEN 0 ELSE Mix(k, 14, 3) - 1,
        call |-> CallPool[Mix(k, 15, Len(CallPool))],
        first |-> IF Mix(k, 16, 2) = 1 THEN "enum" ELSE "int",
        chunks |-> <<c1, c2, Huge>>]
WE(cf, form) == SumTo([d \in 1..cf.nd |-> form.wsh[Dom(cf)[d]]], cf.nd)
FormWellFormed(k) ==
    LET f == FormOf(k) IN
    /\ f.wdt \in {"i8", "i4"} => \A g \in 1..Len(Cat) : f.wsh[g] = 0
    /\ f.pdt = "i8" => f.psh = 0 /\ f.pof = 0
    /\ f.retv = "i8" => f.fshv = 0
    /\ f.retp = "int" => f.fshp = 0
    /\ ~(f.wdt = "f4" /\ (f.retv = "f4" \/ f.retp = "f4"))
    /\ \A i \in 1..2 : f.chunks[i] \in 1..Total(Configs[k]) + 1
FormsWellFormed == n_pc = "cfg" => FormWellFormed(n_k)

HasObsF == n_k >= 1 /\ n_k <= Len(ObsF)
OF == ObsF[n_k]
FormCfgAgrees == /\ OF.st = "ok" /\ OF.nd = CF.nd /\ OF.size = Total(CF)
                 /\ OF.pts = ExpPts /\ OF.wts = ExpWts
ObsFormCfgConforms ==
    n_pc = "cfg" /\ HasObsF =>
        FormCfgAgrees \/ PrintT(<<"MISMATCH", "fcfg", n_k, CF, OF.st, OF.nd, OF.size, Total(CF)>>)
FormChunkIdx == {i \in 1..3 : FormOf(n_k).chunks[i] = n_chunk}
FormRunAgrees ==
    IF n_route = "vec"
      THEN OF.vec[n_fi] = NestedSum(CF, n_fi) /\ OF.vecx[n_fi] = NestedSum(CF, n_fi)
      ELSE \A i \in FormChunkIdx : OF.pbp[n_fi][i] = NestedSum(CF, n_fi)
ObsFormRunConforms ==
    Done /\ HasObsF =>
        FormRunAgrees \/ PrintT(<<"MISMATCH", "frun", n_k, CF, n_fi, n_route, n_chunk, NestedSum(CF, n_fi),
                                  IF n_route = "vec" THEN <<OF.vec[n_fi], OF.vecx[n_fi]>>
                                  ELSE [i \in 1..3 |-> OF.pbp[n_fi][i]]>>)

(***************************************************************************)
(* C18 audit: LARGE products.  BigCfgs are configurations with more points  *)
(* than the default integration_chunk_size, so that the default            *)
(* point-by-point call really works in several chunks (the last one        *)
(* partial), next to chunk sizes that do not divide the total.  They are   *)
(* judged against the DEFINITION (NestedSum, EnumDecl, ProductOfSingles);  *)
(* the step-by-step algorithm is model checked for every chunk size on the *)
(* exhaustive list of small configurations above.                          *)
(***************************************************************************)
DefaultChunk == 6000
BigChunks(cf) == <<1000, 4096, DefaultChunk, Total(cf) - 1, Total(cf), Huge>>
BigWellFormed ==
    n_pc = "idle" =>
        \A b \in 1..Len(BigCfgs) :
            /\ Total(BigCfgs[b]) > DefaultChunk /\ Total(BigCfgs[b]) % DefaultChunk # 0
            /\ Total(BigCfgs[b]) % 1000 # 0 \/ Total(BigCfgs[b]) % 4096 # 0
            /\ SizeCode(BigCfgs[b]) = Total(BigCfgs[b])
BigCfgAgrees(b) ==
    LET cf == BigCfgs[b]
        o == ObsBig[b]
    IN /\ o.st = "ok" /\ o.nd = cf.nd /\ o.size = Total(cf)
       /\ o.pts = [t \in 1..Total(cf) |-> POf(cf, EnumDecl(cf)[t])]
       /\ o.wts = [t \in 1..Total(cf) |-> WOf(cf, EnumDecl(cf)[t])]
BigRunAgrees(b, fi, ns) ==
    LET cf == BigCfgs[b]
        o == ObsBig[b]
    IN /\ o.vec[fi] = ns /\ o.dflt[fi] = ns
       /\ \A i \in 1..Len(BigChunks(cf)) : o.pbp[fi][i] = ns
       /\ Separable(fi) => ns = ProductOfSingles(cf, fi)
ObsBigConforms ==
    n_pc = "idle" =>
        \A b \in 1..Len(ObsBig) :
            /\ BigCfgAgrees(b) \/ PrintT(<<"MISMATCH", "bigcfg", b>>)
            /\ \A fi \in 1..NF :
                  LET ns == NestedSum(BigCfgs[b], fi) IN
                  BigRunAgrees(b, fi, ns) \/ PrintT(<<"MISMATCH", "bigrun", b, fi, ns>>)
=============================================================================
