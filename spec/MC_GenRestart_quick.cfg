SPECIFICATION GRSpec
CONSTANTS
  Sizes <- MC_Sizes
  Wts <- MC_Wts
  MaxGens = 2
  Fresh = TRUE
INVARIANT NewGenFresh
INVARIANT YieldsExactlySize
INVARIANT ItemInOrder
INVARIANT SizeIsTotal
INVARIANT StaticLaws
PROPERTY StepIndependent
