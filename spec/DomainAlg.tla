------------------------------ MODULE DomainAlg ------------------------------
(***************************************************************************)
(* X02 (b): the domain of a one-dimensional grid as a little algebra over  *)
(* interval end points (DESIGN.md section 11, item 3).                     *)
(*                                                                         *)
(* An end point is an extended rational <<kind, n, d>>:                    *)
(*   <<"-inf",0,1>>  <<"q",n,d>> (n/d in lowest terms)  <<"big",0,1>> (the *)
(*   library's trimmed infinity 1e16)  <<"inf",0,1>>                       *)
(*                                                                         *)
(*  "new"      OneDGrid(points, weights, domain): None is accepted; a      *)
(*             domain must be an ascending pair and hold every point up to *)
(*             a slack of 1e-7 (else ValueError); the domain is kept       *)
(*  "getitem"  grid[sel] is a OneDGrid with the same domain                *)
(*  "tf"       tf.transform_1d_grid(grid): ValueError unless the grid      *)
(*             domain lies inside tf's domain; the new domain is the       *)
(*             ORDERED image of the old one                                *)
(*  "inv"      the same for InverseRTransform(tf): domain and codomain     *)
(*             swap roles, the map is the inverse relation of tf's map     *)
(*  "round"    InverseRTransform(tf) applied to tf's result gives back the *)
(*             original domain, points and weights                         *)
(*  "comp"     tf2 applied to tf1's result: domains compose                *)
(*                                                                         *)
(* Only end points whose images are rational (or infinite) are in the      *)
(* model; the harness snaps the floats it observes to rationals with       *)
(* denominator <= 4096 (threshold 1e-11) and TLC compares exactly.         *)
(* Left out on purpose (the library evaluates inf/inf or inf*0 = nan       *)
(* there, or loses 8 digits): HyperbolicRTransform at an infinite end      *)
(* (known finding of C04), the inverse of Becke / Handy / Hyperbolic at an *)
(* untrimmed infinity, the inverse of Handy (m >= 2) at 1e16, a grid       *)
(* without domain handed to transform_1d_grid (TypeError).                 *)
(***************************************************************************)
EXTENDS Integers, Sequences, FiniteSets, TLC, Json, Exact

Obs == JsonDeserialize("x02_dobs.json")
Force(f_) == IF f_ = f_ THEN f_ ELSE f_
ToSet(q_) == {q_[j_] : j_ \in 1..Len(q_)}

\* ---- extended rationals --------------------------------------------------------------------
NInf == <<"-inf", 0, 1>>
PInf == <<"inf", 0, 1>>
Big == <<"big", 0, 1>>
Undef == <<"undef", 0, 1>>
Fin(q_) == <<"q", q_[1], q_[2]>>
FI(v_) == <<"q", v_, 1>>
FQ(n_, d_) == Fin(Q(n_, d_))
QOf(e_) == <<e_[2], e_[3]>>
IsQ(e_) == e_[1] = "q"
Rank(e_) == CASE e_[1] = "-inf" -> 0 [] e_[1] = "q" -> 1 [] e_[1] = "big" -> 2 [] e_[1] = "inf" -> 3
XLt(x_, y_) == Rank(x_) < Rank(y_) \/ (IsQ(x_) /\ IsQ(y_) /\ QLt(QOf(x_), QOf(y_)))
XLe(x_, y_) == ~XLt(y_, x_)
Sort2(x_, y_) == IF XLe(x_, y_) THEN <<x_, y_>> ELSE <<y_, x_>>

\* ---- the catalogue of transformations ------------------------------------------------------
\* [cls, r0, r1, kk, bn, bd, trim]: r0 = rmin (a for Hyperbolic), r1 = rmax or R, kk = m / k / power, bn/bd = b
TF(cls_, r0_, r1_, kk_, bn_, bd_, trim_) == [cls |-> cls_, r0 |-> r0_, r1 |-> r1_, kk |-> kk_, bn |-> bn_, bd |-> bd_, trim |-> trim_]
NoTF == TF("none", 0, 0, 0, 0, 1, FALSE)
TFSeq == << TF("Identity", 0, 0, 0, 0, 1, FALSE),
            TF("LinearFinite", 0, 4, 0, 0, 1, FALSE), TF("LinearFinite", 1, 3, 0, 0, 1, FALSE), TF("LinearFinite", -2, 2, 0, 0, 1, FALSE),
            TF("Becke", 0, 1, 0, 0, 1, TRUE), TF("Becke", 1, 2, 0, 0, 1, TRUE), TF("Becke", 0, 3, 0, 0, 1, FALSE),
            TF("Handy", 0, 1, 1, 0, 1, TRUE), TF("Handy", 1, 2, 2, 0, 1, TRUE), TF("Handy", 0, 1, 2, 0, 1, FALSE),
            TF("HandyMod", 0, 8, 1, 0, 1, TRUE), TF("HandyMod", 1, 9, 2, 0, 1, TRUE),
            TF("LinearInfinite", 0, 4, 0, 2, 1, FALSE), TF("LinearInfinite", 1, 5, 0, 4, 1, FALSE),
            TF("Exp", 1, 4, 0, 2, 1, FALSE), TF("Exp", 2, 6, 0, 1, 1, FALSE),
            TF("Power", 1, 9, 2, 2, 1, FALSE), TF("Power", 1, 8, 3, 1, 1, FALSE),
            TF("Hyperbolic", 2, 0, 0, 1, 4, FALSE), TF("Hyperbolic", 1, 0, 0, 1, 8, FALSE),
            TF("MultiExp", 0, 1, 0, 0, 1, TRUE), TF("MultiExp", 1, 2, 0, 0, 1, FALSE),
            TF("Knowles", 0, 1, 2, 0, 1, TRUE), TF("Knowles", 1, 2, 3, 0, 1, FALSE) >>
TFs == ToSet(TFSeq)
OnUnit(t_) == t_.cls \in {"LinearFinite", "Becke", "Handy", "HandyMod", "MultiExp", "Knowles"}    \* declared domain [-1, 1], else [0, inf)
TDom(t_) == IF OnUnit(t_) THEN <<FI(-1), FI(1)>> ELSE <<FI(0), PInf>>
TCod(t_) == CASE t_.cls \in {"Becke", "Handy", "MultiExp", "Knowles"} -> <<FI(t_.r0), PInf>>
              [] t_.cls \in {"LinearFinite", "HandyMod", "LinearInfinite", "Exp", "Power"} -> <<FI(t_.r0), FI(t_.r1)>>
              [] OTHER -> <<FI(0), PInf>>
\* where the map is meant to be used (the b-parameter maps send [0, b] onto [rmin, rmax])
TUse(t_) == IF t_.cls \in {"LinearInfinite", "Exp", "Power"} THEN <<FI(0), FQ(t_.bn, t_.bd)>> ELSE TDom(t_)
Decreasing(t_) == t_.cls = "MultiExp"
AtPole(t_) == IF t_.trim THEN Big ELSE PInf          \* what the library returns where the map is infinite

\* the forward map on the rational fragment (Undef = not in the model)
FwdQ(t_, x_) ==
    LET r0_ == QI(t_.r0) r1_ == QI(t_.r1) b_ == Q(t_.bn, t_.bd) IN
    CASE t_.cls = "Identity" -> Fin(x_)
      [] t_.cls = "LinearFinite" -> Fin(QAdd(QDiv(QMul(QAdd(QOne, x_), QSub(r1_, r0_)), QI(2)), r0_))
      [] t_.cls = "Becke" -> IF x_ = QOne THEN AtPole(t_)
                             ELSE Fin(QAdd(QMul(r1_, QDiv(QAdd(QOne, x_), QSub(QOne, x_))), r0_))
      [] t_.cls = "Handy" -> IF x_ = QOne THEN AtPole(t_)
                             ELSE Fin(QAdd(QMul(r1_, QPow(QDiv(QAdd(QOne, x_), QSub(QOne, x_)), t_.kk)), r0_))
      [] t_.cls = "HandyMod" -> LET tm_ == QPow(QI(2), t_.kk) sz_ == QSub(r1_, r0_) qi_ == QPow(QAdd(QOne, x_), t_.kk) IN
                                Fin(QAdd(QDiv(QMul(qi_, sz_), QSub(QMul(tm_, QAdd(QSub(QOne, tm_), sz_)), QMul(qi_, QSub(sz_, tm_)))), r0_))
      [] t_.cls = "LinearInfinite" -> Fin(QAdd(QMul(QDiv(QSub(r1_, r0_), b_), x_), r0_))
      [] t_.cls = "Exp" -> IF QIsInt(QDiv(x_, b_)) /\ QSgn(x_) >= 0 /\ QLe(QDiv(x_, b_), QI(6)) THEN Fin(QMul(r0_, QPow(QDiv(r1_, r0_), QDiv(x_, b_)[1]))) ELSE Undef
      [] t_.cls = "Power" -> IF QLe(x_, QI(8)) THEN Fin(QMul(r0_, QPow(QAdd(x_, QOne), t_.kk))) ELSE Undef
      [] t_.cls = "Hyperbolic" -> IF QLt(QMul(b_, x_), QOne) THEN Fin(QDiv(QMul(r0_, x_), QSub(QOne, QMul(b_, x_)))) ELSE Undef
      [] t_.cls = "MultiExp" -> IF x_ = QOne THEN Fin(r0_) ELSE IF x_ = QI(-1) THEN AtPole(t_) ELSE Undef
      [] t_.cls = "Knowles" -> IF x_ = QI(-1) THEN Fin(r0_) ELSE IF x_ = QOne THEN AtPole(t_) ELSE Undef
\* the harness snaps observed floats to rationals with denominator <= 4096 and magnitude <= 1000: other values are outside the model
InModel(e_) == IF IsQ(e_) /\ (e_[3] > 4096 \/ Abs(e_[2]) > 1000 * e_[3]) THEN Undef ELSE e_
Fwd(t_, e_) ==
    IF IsQ(e_) THEN InModel(FwdQ(t_, QOf(e_)))
    ELSE IF e_ = PInf THEN (IF t_.cls \in {"Identity", "LinearInfinite", "Exp", "Power"} THEN PInf ELSE Undef)
    ELSE IF e_ = Big THEN (IF t_.cls = "Identity" THEN Big ELSE Undef)
    ELSE Undef

\* end points of the model
Ends == {FI(-2), FI(-1), FQ(-1, 2), FI(0), FQ(1, 3), FQ(1, 2), FI(1), FI(2), FI(3), FI(4), NInf, PInf}
\* the inverse map is the inverse RELATION of the forward map (no second formula): the end point whose image is y
HasPre(t_, y_) == \E x_ \in Ends : XLe(TDom(t_)[1], x_) /\ XLe(x_, TDom(t_)[2]) /\ Fwd(t_, x_) = y_
Pre(t_, y_) == CHOOSE x_ \in Ends : XLe(TDom(t_)[1], x_) /\ XLe(x_, TDom(t_)[2]) /\ Fwd(t_, x_) = y_
InvLeftOut(t_, y_) == \/ y_ = PInf /\ t_.cls \in {"Becke", "Handy", "Hyperbolic"}
                      \/ y_ = Big /\ t_.cls = "Handy" /\ t_.kk >= 2
Inv(t_, y_) == IF y_ # Undef /\ ~InvLeftOut(t_, y_) /\ HasPre(t_, y_) THEN Pre(t_, y_) ELSE Undef

\* ---- transform_1d_grid on domains ----------------------------------------------------------
Rejected(td_, dom_) == XLt(dom_[1], td_[1]) \/ XLt(td_[2], dom_[2])
Reject == <<Undef, Undef, "reject">>
Unknown == <<Undef, Undef, "unknown">>
Dom3(p_) == <<p_[1], p_[2], "dom">>
\* result of tf.transform_1d_grid on a grid with domain dom_: Reject, Unknown (outside the model) or the new domain
ApplyF(t_, dom_) == IF Rejected(TDom(t_), dom_) THEN Reject
                    ELSE IF Fwd(t_, dom_[1]) = Undef \/ Fwd(t_, dom_[2]) = Undef THEN Unknown
                    ELSE Dom3(Sort2(Fwd(t_, dom_[1]), Fwd(t_, dom_[2])))
ApplyI(t_, dom_) == IF Rejected(TCod(t_), dom_) THEN Reject
                    ELSE IF Inv(t_, dom_[1]) = Undef \/ Inv(t_, dom_[2]) = Undef THEN Unknown
                    ELSE Dom3(Sort2(Inv(t_, dom_[1]), Inv(t_, dom_[2])))

\* ---- cases ---------------------------------------------------------------------------------
\* [kind, t1, t2, lo, hi, sel, aux]
MkCase(kind_, t1_, t2_, lo_, hi_, sel_, aux_) == [kind |-> kind_, t1 |-> t1_, t2 |-> t2_, lo |-> lo_, hi |-> hi_, sel |-> sel_, aux |-> aux_]
NoCase == MkCase("none", NoTF, NoTF, Undef, Undef, "", <<>>)
DomsUnit == {<<FI(-1), FI(1)>>, <<FQ(-1, 2), FQ(1, 2)>>, <<FI(0), FI(1)>>, <<FI(-1), FI(0)>>, <<FI(-1), FQ(1, 3)>>,
             <<FI(-2), FI(1)>>, <<FI(-1), FI(2)>>}
DomsHalf == {<<FI(0), PInf>>, <<FI(0), FI(4)>>, <<FI(0), FI(2)>>, <<FI(1), FI(3)>>, <<FI(2), FI(4)>>, <<FI(0), FI(1)>>,
             <<FI(-1), FI(1)>>, <<NInf, PInf>>}
Doms == DomsUnit \cup DomsHalf
TfCases(t_) == {MkCase("tf", t_, NoTF, p_[1], p_[2], "", <<>>) : p_ \in {x_ \in Doms : ApplyF(t_, x_) # Unknown}}
\* domains offered to the inverse: images of the model domains, and three that do not fit
ImageDoms(t_) == {<<ApplyF(t_, p_)[1], ApplyF(t_, p_)[2]>> : p_ \in {x_ \in Doms : ApplyF(t_, x_)[3] = "dom"}}
InvDoms(t_) == ImageDoms(t_) \cup {<<FI(t_.r0 - 1), FI(t_.r0 + 1)>>, <<NInf, PInf>>, <<FI(t_.r0), FI(t_.r0 + 100)>>}
InvCases(t_) == {MkCase("inv", t_, NoTF, p_[1], p_[2], "", <<>>) : p_ \in {x_ \in InvDoms(t_) : ApplyI(t_, x_) # Unknown}}
RoundResult(t_, dom_) == IF ApplyF(t_, dom_)[3] # "dom" THEN ApplyF(t_, dom_)
                         ELSE ApplyI(t_, <<ApplyF(t_, dom_)[1], ApplyF(t_, dom_)[2]>>)
\* left out: Exp / Power reach rmax through exp(log(.)); the computed image of b can exceed rmax by an ulp and the inverse then
\* rejects the grid (reported as an oddity, not judged)
RoundLeftOut(t_, dom_) == t_.cls \in {"Exp", "Power"} /\ Fwd(t_, dom_[2]) = FI(t_.r1)
RoundCases(t_) == {MkCase("round", t_, NoTF, p_[1], p_[2], "", <<>>) :
                      p_ \in {x_ \in Doms : ApplyF(t_, x_)[3] = "dom" /\ RoundResult(t_, x_) # Unknown /\ ~RoundLeftOut(t_, x_)}}
CompResult(t1_, t2_, dom_) == IF ApplyF(t1_, dom_)[3] # "dom" THEN ApplyF(t1_, dom_)
                              ELSE ApplyF(t2_, <<ApplyF(t1_, dom_)[1], ApplyF(t1_, dom_)[2]>>)
CompDoms == {<<FI(-1), FI(1)>>, <<FI(0), FI(1)>>, <<FQ(-1, 2), FQ(1, 2)>>, <<FI(0), FI(2)>>, <<FI(0), PInf>>}
CompCases(t1_) == {c_ \in {MkCase("comp", t1_, t2_, p_[1], p_[2], "", <<>>) :
                                t2_ \in TFs, p_ \in {x_ \in CompDoms : ApplyF(t1_, x_)[3] = "dom"}} :
                      CompResult(c_.t1, c_.t2, <<c_.lo, c_.hi>>) # Unknown}

\* "new": positions in ticks of 5e-8 (a unit is 2*10^7 ticks); aux = <<lo, hi, base of min, offset of min, base of max, offset of max>>
\* sel = "none" (domain None), "pair", "triple", "single";  lo / hi = 1000 / -1000 stand for +inf / -inf
Tick == 20000000
InfT == 2000000000
EndT(v_) == IF v_ >= 1000 THEN InfT ELSE IF v_ <= -1000 THEN -InfT ELSE v_ * Tick
Slack == 2                        \* 1e-7
NewPairs == {<<-1, 2>>, <<0, 2>>, <<0, 0>>, <<2, 0>>, <<-1000, 2>>, <<0, 1000>>, <<-1000, 1000>>, <<1, -1>>}
OffLo == {-4, -3, -1, 0, 7}
OffHi == {-7, 0, 1, 3, 4}
BaseLo(v_) == IF v_ <= -1000 THEN -3 ELSE IF v_ >= 1000 THEN 3 ELSE v_
NewCases == {c_ \in {MkCase("new", NoTF, NoTF, Undef, Undef, s_, <<p_[1], p_[2], BaseLo(p_[1]), a_, BaseLo(p_[2]), b_>>) :
                         s_ \in {"none", "pair", "triple", "single"}, p_ \in NewPairs, a_ \in OffLo, b_ \in OffHi} :
                c_.aux[3] * Tick + c_.aux[4] <= c_.aux[5] * Tick + c_.aux[6]}
NewRejects(c_) ==
    LET lo_ == EndT(c_.aux[1]) hi_ == EndT(c_.aux[2])
        mn_ == c_.aux[3] * Tick + c_.aux[4] mx_ == c_.aux[5] * Tick + c_.aux[6] IN
    /\ c_.sel # "none"
    /\ \/ c_.sel \in {"triple", "single"}
       \/ lo_ > hi_
       \/ lo_ - Slack > mn_
       \/ hi_ + Slack < mx_
\* the domain an accepted grid reports (ends as extended rationals; None is <<Undef, Undef, "none">>)
ExtOf(v_) == IF v_ >= 1000 THEN PInf ELSE IF v_ <= -1000 THEN NInf ELSE FI(v_)
NewDomain(c_) == IF c_.sel = "none" THEN <<Undef, Undef, "none">> ELSE <<ExtOf(c_.aux[1]), ExtOf(c_.aux[2]), "dom">>

SelKinds == {"int", "negint", "npint", "slice", "step", "array", "mask"}
GetCases == {MkCase("getitem", NoTF, NoTF, p_[1], p_[2], s_, <<>>) : s_ \in SelKinds,
                p_ \in {<<FI(-1), FI(1)>>, <<FI(0), PInf>>, <<NInf, PInf>>, <<Undef, Undef>>}}

Blocks == <<"new", "getitem">> \o [j_ \in 1..Len(TFSeq) |-> "tf"] \o [j_ \in 1..Len(TFSeq) |-> "inv"]
          \o [j_ \in 1..Len(TFSeq) |-> "round"] \o [j_ \in 1..Len(TFSeq) |-> "comp"]
TfOfBlock(j_) == TFSeq[((j_ - 3) % Len(TFSeq)) + 1]
CasesOf(j_) == CASE Blocks[j_] = "new" -> NewCases
                 [] Blocks[j_] = "getitem" -> GetCases
                 [] Blocks[j_] = "tf" -> TfCases(TfOfBlock(j_))
                 [] Blocks[j_] = "inv" -> InvCases(TfOfBlock(j_))
                 [] Blocks[j_] = "round" -> RoundCases(TfOfBlock(j_))
                 [] Blocks[j_] = "comp" -> CompCases(TfOfBlock(j_))

\* ---- expected outcome of a case: <<lo, hi, "dom" | "reject" | "reject2" | "none">> ------------------------------
Expected(c_) ==
    CASE c_.kind = "new" -> IF NewRejects(c_) THEN Reject ELSE NewDomain(c_)
      [] c_.kind = "getitem" -> IF c_.lo = Undef THEN <<Undef, Undef, "none">> ELSE <<c_.lo, c_.hi, "dom">>
      [] c_.kind = "tf" -> ApplyF(c_.t1, <<c_.lo, c_.hi>>)
      [] c_.kind = "inv" -> ApplyI(c_.t1, <<c_.lo, c_.hi>>)
      [] c_.kind = "round" -> IF RoundResult(c_.t1, <<c_.lo, c_.hi>>) = Reject THEN <<Undef, Undef, "reject2">>
                              ELSE RoundResult(c_.t1, <<c_.lo, c_.hi>>)
      [] c_.kind = "comp" -> IF ApplyF(c_.t1, <<c_.lo, c_.hi>>)[3] = "dom" /\ CompResult(c_.t1, c_.t2, <<c_.lo, c_.hi>>) = Reject
                               THEN <<Undef, Undef, "reject2">> ELSE CompResult(c_.t1, c_.t2, <<c_.lo, c_.hi>>)

\* ---- laws of the algebra (checked on every case of the enumeration) ------------------------
Inside(p_, q_) == XLe(q_[1], p_[1]) /\ XLe(p_[2], q_[2])
CaseLaws(c_) ==
    /\ Expected(c_)[3] = "dom" => XLe(Expected(c_)[1], Expected(c_)[2])                      \* a reported domain is ascending
    /\ (c_.kind = "tf" /\ Expected(c_)[3] = "dom" /\ Inside(<<c_.lo, c_.hi>>, TUse(c_.t1)))
          => Inside(<<Expected(c_)[1], Expected(c_)[2]>>, TCod(c_.t1))                          \* images stay inside the codomain
    /\ (c_.kind = "tf" /\ Expected(c_)[3] = "dom" /\ XLt(c_.lo, c_.hi))
          => (Decreasing(c_.t1) <=> XLt(Fwd(c_.t1, c_.hi), Fwd(c_.t1, c_.lo)))                  \* only the decreasing map needs the sort
    /\ (c_.kind = "round" /\ Expected(c_)[3] = "dom") => Expected(c_) = <<c_.lo, c_.hi, "dom">>  \* round trip = identity
    /\ (c_.kind = "inv" /\ Expected(c_)[3] = "dom") => Inside(<<Expected(c_)[1], Expected(c_)[2]>>, TDom(c_.t1))
    /\ (c_.kind = "new" /\ c_.sel = "pair" /\ ~NewRejects(c_)) => c_.aux[1] <= c_.aux[2]
\* every map of the catalogue is injective on the end points of its domain (so the inverse relation is a function)
CatalogueLaws == \A t_ \in TFs :
    LET in_ == {x_ \in Ends : XLe(TDom(t_)[1], x_) /\ XLe(x_, TDom(t_)[2]) /\ Fwd(t_, x_) # Undef} IN
    /\ Cardinality({Fwd(t_, x_) : x_ \in in_}) = Cardinality(in_)
    /\ Fwd(t_, TDom(t_)[1]) # Undef                                                           \* the lower reference end is in the model
    /\ (t_.cls \in {"Power"}) => QMul(QI(t_.r0), QPow(QAdd(Q(t_.bn, t_.bd), QOne), t_.kk)) = QI(t_.r1)   \* r(b) = rmax
    /\ (t_.cls \in {"LinearInfinite", "Exp", "Power"}) => Fwd(t_, FQ(t_.bn, t_.bd)) = FI(t_.r1)

\* ---- enumeration (GSpec) and judging (JSpec) ---------------------------------------------------
VARIABLES da_blk, da_cur, da_idx
davars == <<da_blk, da_cur, da_idx>>
GInit == da_blk = 0 /\ da_cur = NoCase /\ da_idx = 0
GNext == \/ /\ da_blk = 0
            /\ \E j_ \in 1..Len(Blocks) : da_blk' = j_
            /\ UNCHANGED <<da_cur, da_idx>>
         \/ /\ da_blk # 0 /\ da_cur = NoCase
            /\ \E c_ \in CasesOf(da_blk) : da_cur' = c_
            /\ UNCHANGED <<da_blk, da_idx>>
GSpec == GInit /\ [][GNext]_davars
Emit == da_cur # NoCase => PrintT(<<"CASE", da_cur>>)

JInit == GInit
JNext == /\ da_idx < Len(Obs)
         /\ da_idx' = da_idx + 1
         /\ da_cur' = Obs[da_idx + 1].case
         /\ UNCHANGED da_blk
JSpec == JInit /\ [][JNext]_davars

LawsHold == IF da_cur = NoCase THEN (da_blk = 0 => CatalogueLaws) ELSE CaseLaws(da_cur)
\* a case reported by the harness is one of the enumeration
AllCases == Force(UNION {CasesOf(j_) : j_ \in 1..Len(Blocks)})
CaseKnown == da_cur # NoCase /\ da_idx > 0 => da_cur \in AllCases

\* o_ = [exc1, exc2, dom (pair of observed end points, <<>> for None), typ, ptsok, wtsok]
ClauseOf(c_, o_) ==
    LET e_ == Expected(c_) IN
    IF e_[3] = "reject" THEN (IF o_.exc1 = "ValueError" THEN "ok" ELSE IF o_.exc1 = "" THEN "accepted-what-the-rule-rejects" ELSE "raised:" \o o_.exc1)
    ELSE IF o_.exc1 # "" THEN "raised:" \o o_.exc1
    ELSE IF e_[3] = "reject2" THEN (IF o_.exc2 = "ValueError" THEN "ok" ELSE IF o_.exc2 = "" THEN "second-step-accepted-what-the-rule-rejects"
                                    ELSE "second-step-raised:" \o o_.exc2)
    ELSE IF o_.exc2 # "" THEN "second-step-raised:" \o o_.exc2
    ELSE IF o_.typ # "OneDGrid" THEN "result-is-not-a-OneDGrid"
    ELSE IF e_[3] = "none" THEN (IF o_.dom = <<>> THEN "ok" ELSE "domain-appeared")
    ELSE IF o_.dom = <<>> THEN "domain-lost"
    ELSE IF o_.dom # <<e_[1], e_[2]>> THEN "wrong-domain"
    ELSE IF ~o_.ptsok THEN "points-not-restored"
    ELSE IF ~o_.wtsok THEN "weights-not-restored"
    ELSE "ok"
ClassOf(c_) == c_.kind \o ":" \o (IF c_.kind \in {"new", "getitem"} THEN c_.sel ELSE c_.t1.cls) \o ":" \o Expected(c_)[3]
Judge == da_idx > 0 =>
    /\ PrintT(<<"COV", da_cur.kind, ClassOf(da_cur)>>)
    /\ (ClauseOf(da_cur, Obs[da_idx].out) = "ok" \/ PrintT(<<"MISMATCH", da_idx, da_cur.kind, ClauseOf(da_cur, Obs[da_idx].out)>>))
=============================================================================
