SPECIFICATION SSpec
CONSTANTS
  Kinds = {"Grid", "OneDGrid", "PeriodicGrid"}
  Validate = FALSE
INVARIANT SizeConsistent
