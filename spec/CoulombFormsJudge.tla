-------------------------- MODULE CoulombFormsJudge --------------------------
(***************************************************************************)
(* TLC judges what the harness observed when it realised the requests of   *)
(* CoulombForms on the implementation (coulomb_forms_obs.json):            *)
(*   single[i]  one Part A request: its five coordinates, the exponent     *)
(*     used <<n, d>>, status ("ok" / exception class), shape and dtype of  *)
(*     the answer, ncmp = elements compared with the specification's       *)
(*     potential (tree of Coulomb.tla, 50 digits) at the exact value of    *)
(*     the radius, nbad = of these outside the tolerance class `tol`,      *)
(*     nknown = p-type elements that equal the DOCUMENTED p formula (the   *)
(*     recorded finding; reported by the harness under its own key), fac = *)
(*     which oracle the harness applied ("one" normalised / "N" times the  *)
(*     derived constant), unchanged / repeat / fresh = arguments left as   *)
(*     they were, same answer for the same objects, answer shares no       *)
(*     memory with the arguments.                                          *)
(*   sys[i]     one Part B request, see BAgrees.                           *)
(*   lattice    the value lattice that was evaluated.                      *)
(* All mismatches are printed; the invariants stay TRUE.                   *)
(***************************************************************************)
EXTENDS CoulombForms, Json, Tables_coulomb
CONSTANT Tier

Obs == JsonDeserialize("coulomb_forms_obs.json")
AObs == Obs.single
BObs == Obs.sys
LObs == Obs.lattice

VARIABLES part, ix
jvars == <<part, ix>>
JInit == part = "static" /\ ix = 0
JNext == \/ part = "static" /\ part' = "single" /\ ix' = 0
         \/ part = "single" /\ ix < Len(AObs) /\ ix' = ix + 1 /\ part' = part
         \/ part = "single" /\ ix = Len(AObs) /\ part' = "sys" /\ ix' = 0
         \/ part = "sys" /\ ix < Len(BObs) /\ ix' = ix + 1 /\ part' = part
JSpec == JInit /\ [][JNext]_jvars

\* ---- Part A ------------------------------------------------------------------------------------
Coord(o_) == [kind |-> o_.kind, rform |-> o_.rform, comp |-> o_.comp, aform |-> o_.aform, nform |-> o_.nform]
AAgrees(o_) ==
    /\ ValidA(Coord(o_))
    /\ <<o_.alpha[1], o_.alpha[2]>> \in Range(APool(ADom(o_.aform)))
    /\ o_.tol = ATol(o_.aform) /\ o_.fac = NormFac(o_.nform)
    /\ o_.status = "ok"
    /\ o_.shape = ExpShape(o_.rform, o_.comp)
    /\ o_.dtype = "float64"
    /\ o_.ncmp = Len(Slots(o_.rform, o_.comp))           \* no element skipped
    /\ o_.nbad = 0
    /\ o_.nknown >= 0 /\ (o_.kind = "s" => o_.nknown = 0)
    /\ o_.unchanged /\ o_.repeat /\ o_.fresh
AField(o_) ==          \* first clause that fails, for the violation key
    IF ~ValidA(Coord(o_)) THEN "not-a-request"
    ELSE IF <<o_.alpha[1], o_.alpha[2]>> \notin Range(APool(ADom(o_.aform))) \/ o_.tol # ATol(o_.aform)
            \/ o_.fac # NormFac(o_.nform) THEN "harness"
    ELSE IF o_.status # "ok" THEN "raises"
    ELSE IF o_.shape # ExpShape(o_.rform, o_.comp) THEN "shape"
    ELSE IF o_.dtype # "float64" THEN "dtype"
    ELSE IF o_.ncmp # Len(Slots(o_.rform, o_.comp)) THEN "harness"
    ELSE IF o_.nbad # 0 THEN "value"
    ELSE IF ~o_.unchanged THEN "argument-modified"
    ELSE IF ~o_.repeat THEN "second-call-differs"
    ELSE IF ~o_.fresh THEN "answer-aliases-argument"
    ELSE "other"
FormsConform ==
    (part = "single" /\ ix \in 1..Len(AObs)) =>
        \/ AAgrees(AObs[ix])
        \/ PrintT(<<"AMISMATCH", ix, AField(AObs[ix])>>)

ACoords == {Coord(AObs[i_]) : i_ \in 1..Len(AObs)}
\* nothing left out: thorough = every request exactly once; quick = every (kind, r form, composition)
\* and every (kind, alpha form, flag form) at least once, every exponent of every pool
FormsComplete ==
    part = "static" =>
        /\ Cardinality(ACoords) = Len(AObs)
        /\ \/ Tier = "thorough" /\ ACoords = ACases
           \/ /\ Tier = "quick"
              /\ \A k_ \in Range(Kinds), p_ \in RCPairs :
                    \E c_ \in ACoords : c_.kind = k_ /\ c_.rform = p_[1] /\ c_.comp = p_[2]
              /\ \A k_ \in Range(Kinds), a_ \in Range(AFormSeq), n_ \in Range(NFormSeq) :
                    \E c_ \in ACoords : c_.kind = k_ /\ c_.aform = a_ /\ c_.nform = n_
        /\ \A a_ \in Range(AFormSeq) : \A q_ \in Range(APool(ADom(a_))) :
              \E i_ \in 1..Len(AObs) : AObs[i_].aform = a_ /\ <<AObs[i_].alpha[1], AObs[i_].alpha[2]>> = q_

\* ---- Part B ------------------------------------------------------------------------------------
KeySet == Range(ParamKeys)
LenOf(key_) == ParamLen[IndexIn(ParamKeys, key_)]
RECURSIVE SumLen(_)
SumLen(es_) == IF es_ = <<>> THEN 0 ELSE LenOf(Head(es_)) + SumLen(Tail(es_))
ExpKs(o_) == CASE o_.sset = "element" -> SumLen(o_.elems)
               [] o_.sset = "molecule" -> SumLen(o_.elems)
               [] OTHER -> KFixed(o_.sset)
ExpKp(o_) == IF ~PPresent(o_.pset) THEN 0
             ELSE IF o_.layout = "p-alias-s" THEN ExpKs(o_)
             ELSE KFixed(o_.pset)
ExpN(o_) == IF o_.layout = "points-are-centres" THEN ExpKs(o_) ELSE o_.npts
\* the last point of a request with >= 2 free points lies 1e6 bohr away: r V = sum of c_k N_k there
ExpFar(o_) == IF o_.layout # "points-are-centres" /\ o_.npts >= 2 THEN "ok" ELSE "none"
Min(a_, b_) == IF a_ <= b_ THEN a_ ELSE b_
BValid(o_) ==
    /\ o_.sset \in Range(SSetSeq) /\ o_.pset \in Range(PSetSeq) /\ o_.layout \in Range(LayoutSeq)
    /\ o_.npts \in Range(NPtsSeq) /\ o_.dform \in Range(DFormSeq) /\ o_.nform \in Range(BNFormSeq)
    /\ o_.style \in Range(StyleSeq)
    /\ Range(o_.elems) \subseteq KeySet
    /\ Len(o_.elems) = (CASE o_.sset = "element" -> 1 [] o_.sset = "molecule" -> 3 [] OTHER -> 0)
BAgrees(o_) ==
    /\ BValid(o_)
    /\ o_.ks = ExpKs(o_) /\ o_.kp = ExpKp(o_)
    /\ o_.truth = BTruth(o_.nform)
    /\ o_.status = "ok"
    /\ o_.shape = <<ExpN(o_)>> /\ o_.dtype = "float64"
    /\ o_.njudged = Min(ExpN(o_), JudgedMax) /\ o_.nbadspec = 0      \* against the specification's superposition
    /\ o_.nlaw = ExpN(o_) /\ o_.nbadlaw = 0                          \* against the sum of the single-centre functions
    /\ o_.nknown >= 0 /\ (o_.kp = 0 => o_.nknown = 0)
    /\ o_.far = ExpFar(o_)                                           \* r V -> total charge
    /\ o_.unchanged /\ o_.repeat /\ o_.fresh
BField(o_) ==
    IF ~BValid(o_) THEN "not-a-request"
    ELSE IF o_.ks # ExpKs(o_) \/ o_.kp # ExpKp(o_) \/ o_.truth # BTruth(o_.nform) THEN "harness"
    ELSE IF o_.status # "ok" THEN "raises"
    ELSE IF o_.shape # <<ExpN(o_)>> THEN "shape"
    ELSE IF o_.dtype # "float64" THEN "dtype"
    ELSE IF o_.njudged # Min(ExpN(o_), JudgedMax) \/ o_.nlaw # ExpN(o_) THEN "harness"
    ELSE IF o_.nbadlaw # 0 THEN "superposition"
    ELSE IF o_.nbadspec # 0 THEN "value"
    ELSE IF o_.far # ExpFar(o_) THEN "far-field"
    ELSE IF ~o_.unchanged THEN "argument-modified"
    ELSE IF ~o_.repeat THEN "second-call-differs"
    ELSE IF ~o_.fresh THEN "answer-aliases-argument"
    ELSE "other"
SysConform ==
    (part = "sys" /\ ix \in 1..Len(BObs)) =>
        \/ BAgrees(BObs[ix])
        \/ PrintT(<<"BMISMATCH", ix, BField(BObs[ix])>>)
BVal(o_, d_) == CASE d_ = "sset" -> o_.sset [] d_ = "pset" -> o_.pset [] d_ = "layout" -> o_.layout
                  [] d_ = "npts" -> o_.npts [] d_ = "dform" -> o_.dform [] d_ = "nform" -> o_.nform
                  [] d_ = "style" -> o_.style
\* every value of every dimension; thorough: every PAIR of values of two different dimensions;
\* every shipped element set went through the routine
SysComplete ==
    part = "static" =>
        /\ \A d_ \in Range(BDims) : \A v_ \in Range(BPool(d_)) : \E i_ \in 1..Len(BObs) : BVal(BObs[i_], d_) = v_
        /\ Tier = "thorough" =>
             \A d1_ \in Range(BDims), d2_ \in Range(BDims) :
                d1_ # d2_ => \A v1_ \in Range(BPool(d1_)), v2_ \in Range(BPool(d2_)) :
                                \E i_ \in 1..Len(BObs) : BVal(BObs[i_], d1_) = v1_ /\ BVal(BObs[i_], d2_) = v2_
        /\ \A e_ \in KeySet : \E i_ \in 1..Len(BObs) : e_ \in Range(BObs[i_].elems)

\* ---- Part C ------------------------------------------------------------------------------------
\* lattice: decades evaluated (integers k of 10^k), huge radii 10^k evaluated, number of shipped
\* exponents evaluated per element (thorough: all of them; quick: the smallest, the largest, and more)
RECURSIVE SumSeq(_)
SumSeq(s_) == IF s_ = <<>> THEN 0 ELSE Head(s_) + SumSeq(Tail(s_))
LatticeComplete ==
    part = "static" =>
        /\ AlphaDecades \subseteq Range(LObs.decades)
        /\ HugeRadiiExp \subseteq Range(LObs.huge)
        /\ LObs.infinity
        /\ Len(LObs.shipped) = Len(ParamKeys)
        /\ \A i_ \in 1..Len(ParamKeys) :
              /\ LObs.shipped[i_].key = ParamKeys[i_] /\ LObs.shipped[i_].extremes
              /\ (Tier = "thorough" => LObs.shipped[i_].n = ParamLen[i_])
              /\ LObs.shipped[i_].n >= 2 /\ LObs.shipped[i_].n <= ParamLen[i_]
=============================================================================
