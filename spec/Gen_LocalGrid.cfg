SPECIFICATION GSpec
CONSTANTS
  PAlts <- MC_PAlts
  WAlts <- MC_WAlts
  Centers <- MC_Centers
  Radii <- MC_Radii
  Sels <- MC_Sels
  PSeq <- MC_PSeq
  WSeq <- MC_WSeq
  CSeq <- MC_CSeq
  RSeq <- MC_RSeq
  SSeq <- MC_SSeq
  MaxLen <- GenLen
  InvalidateOnSet = TRUE
  CanSetPoints = TRUE
INVARIANT Emit
INVARIANT QueryCorrect
INVARIANT TreeFresh
PROPERTY RejectIsAtomic
