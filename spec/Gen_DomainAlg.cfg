SPECIFICATION GSpec
INVARIANT Emit
INVARIANT LawsHold
