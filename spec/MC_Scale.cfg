SPECIFICATION Spec
CONSTANTS
  Ops = {"transform", "deriv", "inverse"}
  XMaxs = {3, 7}
  BInit = {0, 5}
PROPERTY ScaleStable
PROPERTY ScaleFromFirstGrid
