SPECIFICATION Spec
CONSTANTS
  Methods = {"lebedev", "maxdet"}
  Scaled = {"lebedev"}
  Degrees = {3, 5}
  MaxObjs = 3
  Aliasing = "copying"
INVARIANT FreshIsShipped
INVARIANT CacheClean
INVARIANT NoAliasCacheUser
PROPERTY CacheMonotone
