---------------------------- MODULE MC_CubicWeights ----------------------------
(***************************************************************************)
(* C13, weighting schemes of UniformGrid.  TLC decides the weight-sum      *)
(* bound  |sum(w)/V - 1| <= sum_i 1/M_i  for the three rational schemes on  *)
(* every shape in {2..MaxW}^2 \cup {2..MaxW}^3, and emits, for the shapes   *)
(* replayed into the implementation, the volume, the exact weight of every *)
(* rational scheme, the bound, and the Fourier1 weight as an expression.   *)
(* Each case also carries a denominator (axes / 2^k: VolumeHomogeneous), a *)
(* non-zero origin, and a flag for the replay through from_cube(weight=).  *)
(***************************************************************************)
EXTENDS Cubic, SequencesExt, Json

CONSTANTS MaxW,        \* bound of the exhaustively checked shapes
          CaseMax,     \* shapes {2..CaseMax}^D are replayed into the implementation
          Emit

AxesW(shape_) ==
    IF Len(shape_) = 2
    THEN (IF (shape_[1] + shape_[2]) % 2 = 0 THEN <<<<2, 1>>, <<-1, 1>>>> ELSE <<<<1, 0>>, <<1, -2>>>>)
    ELSE (IF (shape_[1] + shape_[3]) % 2 = 0 THEN <<<<1, 1, 0>>, <<0, 2, 1>>, <<1, 0, -1>>>>
          ELSE <<<<0, 2, 0>>, <<1, 0, 0>>, <<1, 1, -1>>>>)
CaseShapes ==
    {<<a_, b_>> : a_ \in 2..CaseMax, b_ \in 2..CaseMax}
    \cup {<<a_, b_, c_>> : a_ \in 2..CaseMax, b_ \in 2..CaseMax, c_ \in 2..CaseMax}
    \cup {<<5, 6, 7>>, <<8, 7, 9>>, <<12, 11, 10>>, <<6, 6, 6>>, <<12, 12>>, <<7, 10>>, <<9, 4>>}
\* non-integer axes: the axes divided by den (a power of two, exact in binary floating point) scale the
\* volume - and with it every weight - by den^-D; origins do not enter the weights
DenW(s_) == 2 ^ (1 + ((s_[1] + s_[2]) % 3))
OriginW(s_) == [d_ \in 1..Len(s_) |-> ((3 * s_[d_] + d_) % 7) - 3]
\* routes: the alternative constructors that take the name of a scheme and hand it on
\* (from_cube in both return modes; three-dimensional grids only - cube files are 3D)
HasRoutes(s_) == Len(s_) = 3 /\ (NPoints(s_) <= 27 \/ s_ \in {<<5, 6, 7>>, <<4, 5, 3>>})
WeightCase(s_) ==
    [shape |-> s_, axes |-> AxesW(s_), volume |-> BoxVolume(AxesW(s_), s_),
     rect |-> SchemeW("Rectangle", s_), trap |-> SchemeW("Trapezoid", s_), alt |-> SchemeW("Alternative", s_),
     bound |-> DeviationBound(s_), fourier1 |-> Fourier1W(s_),
     den |-> DenW(s_), volume_scaled |-> Q(BoxVolume(AxesW(s_), s_), DenW(s_) ^ Len(s_)),
     origin |-> OriginW(s_), routes |-> HasRoutes(s_)]
ASSUME Emit => JsonSerialize("cases_weights.json", SetToSeq({WeightCase(s_) : s_ \in CaseShapes}))

VARIABLES wpc, wshape
Init == wpc = "idle" /\ wshape = <<>>
PickFirst == /\ wpc = "idle"
             /\ \E a_ \in 2..MaxW, dd_ \in 2..3 : wshape' = IF dd_ = 2 THEN <<a_>> ELSE <<a_, 0>>
             /\ wpc' = "first"
PickRest == /\ wpc = "first"
            /\ IF Len(wshape) = 1
                 THEN \E b_ \in 2..MaxW : wshape' = <<wshape[1], b_>>
                 ELSE \E b_ \in 2..MaxW, c_ \in 2..MaxW : wshape' = <<wshape[1], b_, c_>>
            /\ wpc' = "shape"
Next == PickFirst \/ PickRest
Spec == Init /\ [][Next]_<<wpc, wshape>>

AtShape == wpc = "shape"
WeightSumBound ==
    AtShape => \A nm_ \in RationalSchemes : QLe(SchemeDeviation(nm_, wshape), DeviationBound(wshape))
\* what the three sums are (so that the bound is not satisfied by accident)
WeightSums ==
    AtShape =>
        LET dd == Len(wshape)
            total(nm_) == QMul(QI(NPoints(wshape)), SchemeW(nm_, wshape))
        IN /\ total("Rectangle") = QOne
           /\ total("Trapezoid") = QProdTo([r_ \in 1..dd |-> Q(wshape[r_], wshape[r_] + 1)], dd)
           /\ total("Alternative") = QProdTo([r_ \in 1..dd |-> Q(wshape[r_] - 1, wshape[r_])], dd)
           /\ \A nm_ \in RationalSchemes : QLt(QZero, SchemeW(nm_, wshape))
\* the volume is the absolute determinant of the scaled axes = number of cells^* times |det axes|
VolumeLaw == AtShape => BoxVolume(AxesW(wshape), wshape) = NPoints(wshape) * Abs(Det(AxesW(wshape)))
\* ... and it is homogeneous of degree D in the axes: scaling every axis by k scales it by k^D
ScaledAxes(a_, k_) == [r_ \in 1..Len(a_) |-> [d_ \in 1..Len(a_) |-> k_ * a_[r_][d_]]]
VolumeHomogeneous ==
    AtShape => \A k_ \in {-2, 2, 3} :
        BoxVolume(ScaledAxes(AxesW(wshape), k_), wshape) = Abs(k_) ^ Len(wshape) * BoxVolume(AxesW(wshape), wshape)
=============================================================================
