SPECIFICATION GSpec
CONSTANTS
  Sizes <- GenSizes
  Wts <- GenWts
  MaxGens = 3
  MaxLen = 6
  Fresh = TRUE
INVARIANT Emit
INVARIANT NewGenFresh
INVARIANT YieldsExactlySize
INVARIANT ItemInOrder
PROPERTY StepIndependent
