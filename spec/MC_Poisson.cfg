SPECIFICATION PSpec
INVARIANT ChannelsDerived
INVARIANT ChannelLinear
INVARIANT ChanLiteral
INVARIANT HarmonicOK
INVARIANT CasesSound
INVARIANT SpecSolvesPoisson
