INIT InitFan
NEXT NextFan
INVARIANT MolLawsHold
INVARIANT MolEmitted
