INIT InitIdx
NEXT NextIdx
INVARIANT LawsHold
INVARIANT Emitted
INVARIANT XLawsHold
INVARIANT XEmitted
INVARIANT IdxLoopInvariant
INVARIANT IdxEqualsDefinition
INVARIANT IdxMonotone
INVARIANT IdxLastIsTotal
INVARIANT IdxPartition
INVARIANT IdxShellLengths
