SPECIFICATION Spec
INVARIANT SpecSolvesPoisson
INVARIANT SolutionUnique
INVARIANT SpecRegular
INVARIANT ErfCoefIsCharge
INVARIANT MomentsVerified
INVARIANT UnnormIsMultiple
INVARIANT Superposition
INVARIANT CodeSIsSpec
INVARIANT CodePRefuted
INVARIANT CodeBranchContinuous
INVARIANT DocNormIsDerived
INVARIANT FarFieldForm
INVARIANT Literal
INVARIANT NonVacuous
INVARIANT ParamsTableSane
INVARIANT ParamsConform
INVARIANT ParamsColdConform
