------------------------------- MODULE MolGrid -------------------------------
(***************************************************************************)
(* A molecular grid is the weighted concatenation of its atomic grids      *)
(* (property C07).                                                         *)
(*                                                                         *)
(*   indices = prefix sums of the atomic sizes                             *)
(*   points  = concatenation of the atomic points                          *)
(*   weights = atweights o aim   (aim: array, or callable evaluated on the *)
(*             concatenated points, the centres, the numbers, the table)   *)
(* Part 1  constructor fan-out: every admissible option combination of     *)
(*         from_size / from_preset / from_pruned is normalised into ONE    *)
(*         list of atomic constructions (emitted; the harness builds the   *)
(*         grid by hand from it and compares bit for bit).                 *)
(* Part 2  observation equivalence of store = True / False over short      *)
(*         histories of observer calls (model of the code next to the      *)
(*         specification of each observer).                                *)
(* Part 3  obligations of the end-to-end charge clause: presets x molecule *)
(*         templates x exponent patterns, with the documented precondition *)
(*         "a preset that prescribes shell counts needs a radial grid of   *)
(*         that size" decided from the preset tables.                      *)
(*                                                                         *)
(* EXTENDS AtomGrid for resolution, prefix sums and the preset tables;     *)
(* Tables_molgrid (generated): DefaultSize (Z -> number of points of the   *)
(* default radial grid, from grid.utils), GridSizes (name -> size of the   *)
(* radial grids of the replay pool), FanObs, tier bounds, Seed (VERIF_SEED  *)
(* mod 1000: rotation seed, moved templates, extra exponent patterns).     *)
(***************************************************************************)
EXTENDS AtomGrid, Expr, Tables_molgrid

DefaultZ == DOMAIN DefaultSize

(***************************************************************************)
(* Molecule templates (atomic units, rational coordinates).                *)
(***************************************************************************)
R3(x_, y_, z_) == <<Q(x_, 100), Q(y_, 100), Q(z_, 100)>>
Molecules ==
    << [name |-> "H",     z |-> <<1>>,             xyz |-> <<R3(0, 0, 0)>>],
       [name |-> "H2",    z |-> <<1, 1>>,          xyz |-> <<R3(0, 0, -70), R3(0, 0, 70)>>],
       [name |-> "HF",    z |-> <<9, 1>>,          xyz |-> <<R3(0, 0, 0), R3(0, 0, 173)>>],
       [name |-> "CO",    z |-> <<6, 8>>,          xyz |-> <<R3(0, 0, -122), R3(0, 0, 91)>>],
       [name |-> "H2O",   z |-> <<8, 1, 1>>,       xyz |-> <<R3(0, 0, 22), R3(0, 143, -89), R3(0, -143, -89)>>],
       [name |-> "HCN",   z |-> <<1, 6, 7>>,       xyz |-> <<R3(0, 0, -306), R3(0, 0, -105), R3(0, 0, 113)>>],
       [name |-> "NH3",   z |-> <<7, 1, 1, 1>>,    xyz |-> <<R3(0, 0, 22), R3(0, 177, -51), R3(153, -89, -51), R3(-153, -89, -51)>>],
       [name |-> "H2CO",  z |-> <<6, 8, 1, 1>>,    xyz |-> <<R3(0, 0, -100), R3(0, 0, 128), R3(0, 177, -210), R3(0, -177, -210)>>],
       [name |-> "CH4",   z |-> <<6, 1, 1, 1, 1>>, xyz |-> <<R3(0, 0, 0), R3(119, 119, 119), R3(-119, -119, 119), R3(-119, 119, -119), R3(119, -119, -119)>>],
       [name |-> "CH3Cl", z |-> <<6, 17, 1, 1, 1>>, xyz |-> <<R3(0, 0, 0), R3(0, 0, 337), R3(194, 0, -65), R3(-97, 168, -65), R3(-97, -168, -65)>>],
       [name |-> "CONHCl", z |-> <<6, 8, 7, 1, 17>>, xyz |-> <<R3(0, 0, 0), R3(0, 0, 228), R3(225, 0, -120), R3(380, 0, 0), R3(-290, 0, -160)>>],
       [name |-> "crowd", z |-> <<1, 1, 8, 6, 1>>, xyz |-> <<R3(0, 0, 0), R3(120, 0, 0), R3(0, 125, 0), R3(0, 0, 130), R3(90, 90, 90)>>],
       \* elements without a tabulated Bragg-Slater radius (the atom-in-molecule weights fall back to a neighbour's)
       [name |-> "HeH",   z |-> <<2, 1>>,          xyz |-> <<R3(0, 0, 0), R3(0, 0, 146)>>],
       [name |-> "ArOH",  z |-> <<18, 8, 1>>,      xyz |-> <<R3(0, 0, 0), R3(0, 0, 420), R3(0, 170, 500)>>],
       \* elements of the later rows (their default radial grids have other extents and sizes; SG-1 prescribes shell
       \* counts beyond argon) and the lightest metal
       [name |-> "HBr",   z |-> <<35, 1>>,         xyz |-> <<R3(0, 0, 0), R3(0, 0, 267)>>],
       [name |-> "FeO",   z |-> <<26, 8>>,         xyz |-> <<R3(0, 0, 0), R3(0, 0, 306)>>],
       [name |-> "LiF",   z |-> <<3, 9>>,          xyz |-> <<R3(0, 0, 0), R3(0, 0, 296)>>] >>
Dist2(a_, b_) == QSum([k \in 1..3 |-> QMul(QSub(a_[k], b_[k]), QSub(a_[k], b_[k]))])
\* admissibility of the templates for the end-to-end clause: at least 1.2 bohr apart, at most 5 atoms
MoleculesAdmissible ==
    \A i \in 1..Len(Molecules) :
        LET m == Molecules[i] IN
        /\ Len(m.z) = Len(m.xyz) /\ Len(m.z) \in 1..5
        /\ \A a \in 1..Len(m.z) : \A b \in 1..Len(m.z) : a < b => QLe(<<36, 25>>, Dist2(m.xyz[a], m.xyz[b]))
\* the tightest template really is close to the bound (the clause is exercised near its edge)
MoleculesTight == \E i \in 1..Len(Molecules) : \E a, b \in 1..Len(Molecules[i].z) :
                     a < b /\ QLe(Dist2(Molecules[i].xyz[a], Molecules[i].xyz[b]), <<9, 4>>)

(***************************************************************************)
(* Further molecules (audit round).                                        *)
(* XMolecules: fan-out only - more than five atoms, repeated elements      *)
(* interleaved with others (a per-atom list and a per-element dictionary   *)
(* then disagree about who gets what unless they are read correctly).      *)
(* MovedMolecules: every template moved rigidly (axis permutation, sign    *)
(* flips, translation - all derived from Seed, exact in the rationals) and *)
(* its atoms listed in reverse order; used by the end-to-end clause, which *)
(* is quantified over all molecules, not over the templates as typed.      *)
(* All molecules are addressed by their index in AllMolecules.             *)
(***************************************************************************)
XMolecules ==
    << [name |-> "C2H6", z |-> <<1, 6, 1, 1, 6, 1, 1, 1>>,
        xyz |-> <<R3(193, 0, -219), R3(0, 0, -145), R3(-97, 167, -219), R3(-97, -167, -219),
                  R3(0, 0, 145), R3(-193, 0, 219), R3(97, 167, 219), R3(97, -167, 219)>>] >>
AxisPerms == << <<1, 2, 3>>, <<2, 3, 1>>, <<3, 1, 2>>, <<2, 1, 3>>, <<1, 3, 2>>, <<3, 2, 1>> >>
MoveShift == <<Q(((Seed * 37) % 61) - 30, 10), Q(((Seed * 91 + 17) % 61) - 30, 10), Q(((Seed * 53 + 5) % 61) - 30, 10)>>
MoveSign == <<IF (Seed % 2) = 0 THEN -1 ELSE 1, IF ((Seed \div 2) % 2) = 0 THEN 1 ELSE -1, -1>>
MovePoint(p_) == LET perm == AxisPerms[(Seed % 6) + 1]
                 IN [a \in 1..3 |-> QAdd(QMul(QI(MoveSign[a]), p_[perm[a]]), MoveShift[a])]
Moved(t_) == [name |-> t_.name \o "~", z |-> Reverse(t_.z), xyz |-> Reverse([k \in 1..Len(t_.xyz) |-> MovePoint(t_.xyz[k])])]
MovedMolecules == [i \in 1..Len(Molecules) |-> Moved(Molecules[i])]
AllMolecules == Molecules \o XMolecules \o MovedMolecules
MovedIndex(i_) == Len(Molecules) + Len(XMolecules) + i_
Separated(t_) == \A a \in 1..Len(t_.z) : \A b \in 1..Len(t_.z) : a < b => QLe(<<36, 25>>, Dist2(t_.xyz[a], t_.xyz[b]))
\* a moved template is the template: same elements (reversed), same interatomic distances
MovedRigid ==
    \A i \in 1..Len(Molecules) :
        LET t == Molecules[i]  u == MovedMolecules[i]  n == Len(t.z) IN
        /\ Len(u.z) = n /\ Len(u.xyz) = n
        /\ \A a \in 1..n : u.z[a] = t.z[n + 1 - a]
        /\ \A a \in 1..n : \A b \in 1..n : QEq(Dist2(u.xyz[a], u.xyz[b]), Dist2(t.xyz[n + 1 - a], t.xyz[n + 1 - b]))
MovedAdmissible == \A i \in 1..Len(MovedMolecules) : Len(MovedMolecules[i].z) \in 1..5 /\ Separated(MovedMolecules[i])
XSeparated == \A i \in 1..Len(XMolecules) : Len(XMolecules[i].z) = Len(XMolecules[i].xyz) /\ Separated(XMolecules[i])

(***************************************************************************)
(* Part 1.  Fan-out.                                                       *)
(* Option shapes:  one | list (per atom, by position) | dict (by atomic    *)
(* number, written as a sequence of <<Z, value>>, Z increasing) | none     *)
(* (default radial grid).                                                  *)
(***************************************************************************)
One(v_) == [shape |-> "one", v |-> v_]
List(v_) == [shape |-> "list", v |-> v_]
Dict(v_) == [shape |-> "dict", v |-> v_]
None == [shape |-> "none", v |-> 0]
DictGet(d_, key_) == d_[CHOOSE i \in 1..Len(d_) : d_[i][1] = key_][2]
DictHas(d_, key_) == \E i \in 1..Len(d_) : d_[i][1] = key_
\* value of a per-atom option for atom k_ with atomic number z_
Pick(o_, k_, z_) == CASE o_.shape = "one" -> o_.v
                      [] o_.shape = "list" -> o_.v[k_]
                      [] o_.shape = "dict" -> DictGet(o_.v, z_)
Defined(o_, zs_) == CASE o_.shape = "one" -> TRUE
                      [] o_.shape = "list" -> Len(o_.v) = Len(zs_)
                      [] o_.shape = "dict" -> \A k \in 1..Len(zs_) : DictHas(o_.v, zs_[k])
                      [] o_.shape = "none" -> \A k \in 1..Len(zs_) : zs_[k] \in DefaultZ
RgridRef(o_, k_, z_) == IF o_.shape = "none" THEN <<"default", z_>> ELSE <<"given", Pick(o_, k_, z_)>>
NShell(ref_) == IF ref_[1] = "default" THEN DefaultSize[ref_[2]] ELSE GridSizes[ref_[2]]

\* the list of atomic constructions an option record stands for
DefaultDegree == 50          \* documented default of MolGrid.from_pruned(..., d_sectors=50)
\* from_pruned: which of the two sector arguments decides, and the per-sector values of atom k_
\*   "d" / "s": only that argument given;  "both": d_sectors (o_.dsect) AND s_sectors (o_.sect) given -
\*   the documentation says s_sectors is used;  "default": neither given - d_sectors defaults to DefaultDegree
PrunedKind(o_) == CASE o_.sect_kind = "both" -> "s" [] o_.sect_kind = "default" -> "d" [] OTHER -> o_.sect_kind
PrunedVals(o_, k_) ==
    LET n == Len(o_.r_sectors[k_]) + 1 IN
    CASE o_.sect_kind = "default" -> ConstSeq(n, DefaultDegree)
      [] o_.sect.shape = "one" -> ConstSeq(n, o_.sect.v)
      [] OTHER -> o_.sect.v[k_]
FanOut(o_) ==
    LET zs == AllMolecules[o_.mol].z IN
    [k \in 1..Len(zs) |->
        CASE o_.ctor = "from_size" ->
                [fn |-> "AtomGrid", rgrid |-> RgridRef(o_.rgrid, k, zs[k]), sizes |-> <<o_.size>>,
                 centre |-> k, rotate |-> o_.rotate]
          [] o_.ctor = "from_preset" ->
                [fn |-> "from_preset", atnum |-> zs[k], preset |-> Pick(o_.preset, k, zs[k]),
                 rgrid |-> RgridRef(o_.rgrid, k, zs[k]), centre |-> k, rotate |-> o_.rotate]
          [] o_.ctor = "from_pruned" ->
                LET secs == o_.r_sectors[k]
                    vals == PrunedVals(o_, k)
                IN [fn |-> "from_pruned", rgrid |-> RgridRef(o_.rgrid, k, zs[k]), radius |-> Pick(o_.radius, k, zs[k]),
                    r_sectors |-> secs, kind |-> PrunedKind(o_), sect |-> vals, centre |-> k, rotate |-> o_.rotate]
          \* the plain constructor MolGrid(atnums, atgrids, aim): the atomic grids are the arguments themselves
          \* (per-atom radial grid, per-shell degrees or one degree for all shells, per-atom rotation seed)
          [] o_.ctor = "direct" ->
                [fn |-> "AtomGridDeg", rgrid |-> <<"given", o_.atoms[k].rgrid>>, degrees |-> o_.atoms[k].degrees,
                 centre |-> k, rotate |-> o_.atoms[k].rotate]]
SectDefined(so_, rs_, zs_) ==
    so_.shape = "list" => Len(so_.v) = Len(zs_) /\ \A k \in 1..Len(zs_) : Len(so_.v[k]) = Len(rs_[k]) + 1
FanOutDefined(o_) ==
    LET zs == AllMolecules[o_.mol].z IN
    IF o_.ctor = "direct"
    THEN /\ Len(o_.atoms) = Len(zs)
         /\ \A k \in 1..Len(zs) : /\ o_.atoms[k].rgrid \in DOMAIN GridSizes
                                   /\ Len(o_.atoms[k].degrees) \in {1, GridSizes[o_.atoms[k].rgrid]}
                                   /\ \A j \in 1..Len(o_.atoms[k].degrees) : DegOk("lebedev", o_.atoms[k].degrees[j])
    ELSE
    /\ Defined(o_.rgrid, zs)
    /\ (o_.ctor = "from_preset" => Defined(o_.preset, zs))
    /\ (o_.ctor = "from_pruned" =>
            /\ Defined(o_.radius, zs) /\ Len(o_.r_sectors) = Len(zs)
            /\ (o_.sect_kind # "default" => o_.sect.shape \in {"one", "list"} /\ SectDefined(o_.sect, o_.r_sectors, zs))
            /\ (o_.sect_kind = "both" => o_.dsect.shape \in {"one", "list"} /\ SectDefined(o_.dsect, o_.r_sectors, zs)))

\* ---- the option space of the replay -------------------------------------------------------------
FanMols == {1, 2, 4, 5, 6, 9}                     \* H (a single atom: no partner, callable weights still apply),                        \* H2 (equal elements), CO, H2O (repeated element), HCN (three elements),
                                                  \* CH4 (five atoms: the whole-grid Becke call is chunked from four atoms on)
GridNames == <<"G1", "G2", "G3">>
MolZs(m_) == AllMolecules[m_].z
ZSet(m_) == {MolZs(m_)[k] : k \in 1..Len(MolZs(m_))}
\* per-atom lists / per-element dictionaries that use DIFFERENT values for different atoms / elements
ListOf(m_, vals_) == [k \in 1..Len(MolZs(m_)) |-> vals_[((k - 1) % Len(vals_)) + 1]]
SortedZs(m_) == SetToSortSeq(ZSet(m_), LAMBDA a, b : a < b)
DictOf(m_, vals_) == [i \in 1..Len(SortedZs(m_)) |-> <<SortedZs(m_)[i], vals_[(SortedZs(m_)[i] % Len(vals_)) + 1]>>]
RgridOptions(m_) == {One("G1"), One("G3"), List(ListOf(m_, GridNames)), Dict(DictOf(m_, GridNames)), None}
RotateOptions == {0, 37}
StoreOptions == BOOLEAN
AimOptions == {"becke", "callable"}
SizeOptions == {6, 20}
FanPresetNames == <<"coarse", "medium", "sg_1">>
PresetOptions(m_) == {One("coarse"), One("sg_1"), List(ListOf(m_, FanPresetNames)), Dict(DictOf(m_, FanPresetNames))}
RadiusOptions(m_) == {One(<<3, 2>>), List(ListOf(m_, <<<<1, 1>>, <<2, 1>>, <<1, 2>>>>))}
SectorOptions(m_) ==          \* per atom lists of boundaries (multiples of the radius), different lengths
    { ListOf(m_, << <<<<1, 2>>, <<1, 1>>>>, <<<<1, 1>>>>, <<>> >>),
      ListOf(m_, << <<<<1, 1>>>>, <<<<1, 2>>, <<2, 1>>>> >>) }
DegreeCycle == <<3, 7, 5, 9>>
SizeCycle == <<6, 26, 14, 38>>
SectValues(m_, rs_, cyc_) == [k \in 1..Len(MolZs(m_)) |-> [j \in 1..Len(rs_[k]) + 1 |-> cyc_[((j + k) % Len(cyc_)) + 1]]]
SectOptions(m_, rs_) ==
    { [kind |-> "d", o |-> One(7)], [kind |-> "d", o |-> List(SectValues(m_, rs_, DegreeCycle))],
      [kind |-> "s", o |-> One(26)], [kind |-> "s", o |-> List(SectValues(m_, rs_, SizeCycle))] }

FanOptionsOf(m_) ==
    {[ctor |-> "from_size", mol |-> m_, size |-> s, rgrid |-> g, rotate |-> r, store |-> st, aim |-> a] :
        s \in SizeOptions, g \in {One("G1"), One("G2"), None}, r \in RotateOptions, st \in StoreOptions, a \in AimOptions}
    \cup {[ctor |-> "from_preset", mol |-> m_, preset |-> p, rgrid |-> g, rotate |-> r, store |-> st, aim |-> a] :
        p \in PresetOptions(m_), g \in RgridOptions(m_), r \in RotateOptions, st \in StoreOptions, a \in AimOptions}
    \cup UNION {{[ctor |-> "from_pruned", mol |-> m_, radius |-> rad, r_sectors |-> rs, sect_kind |-> so.kind, sect |-> so.o,
                  rgrid |-> g, rotate |-> r, store |-> st, aim |-> a] :
        rad \in RadiusOptions(m_), so \in SectOptions(m_, rs), g \in RgridOptions(m_), r \in RotateOptions,
        st \in StoreOptions, a \in {"becke"}} : rs \in SectorOptions(m_)}

(***************************************************************************)
(* Part 1x (audit round).  Dimensions the product above leaves out; each   *)
(* is varied around three base combinations (star design, no product).     *)
(*   aim      "array": the weights are handed over as an array (to every   *)
(*            constructor); "callable" also through from_pruned            *)
(*   sect_kind "both" (d_sectors and s_sectors given: s_sectors decides),  *)
(*            "default" (neither given: DefaultDegree in every sector)     *)
(*   dicts    with entries for elements that are not in the molecule,      *)
(*            listed in decreasing Z (a dictionary is keyed, not ordered)  *)
(*   rep      how the arguments are REPRESENTED: dtype of the atomic       *)
(*            numbers, memory layout of the coordinates, Python or numpy   *)
(*            scalars / lists or arrays for sizes, radii, sectors.  The    *)
(*            fan-out does not depend on it (law RepInvisible).            *)
(*   rotate   1 (smallest seed that rotates) and a Seed-dependent value    *)
(*   direct   the plain constructor on hand-made atomic grids that differ  *)
(*            per atom in radial grid, per-shell degrees and rotation seed *)
(*   mol      the eight-atom XMolecules[1]                                 *)
(* AimSpec: what the atom-in-molecule weights are for an option.           *)
(***************************************************************************)
BaseRep == [atnums |-> "int64", coords |-> "c", scal |-> "py"]
RepsUsed == { [atnums |-> "int32", coords |-> "f", scal |-> "np"],
              [atnums |-> "uint8", coords |-> "view", scal |-> "py"],
              [atnums |-> "int64", coords |-> "c", scal |-> "np"],
              [atnums |-> "int16", coords |-> "view", scal |-> "np"] }
RotateX == 2 + ((Seed * 7919) % 99991)
XFanMols == {1, 5, 9, Len(Molecules) + 1}
XAims == {"becke", "callable", "array"}
AimSpec(o_) == CASE o_.aim = "becke" -> [kind |-> "callable", what |-> "BeckeWeights", order |-> 3]
                 [] o_.aim = "callable" -> [kind |-> "callable", what |-> "IntAim", order |-> 0]
                 [] o_.aim = "array" -> [kind |-> "array", what |-> "IntAimValues", order |-> 0]
DictXOf(m_, vals_) ==
    LET zs == SetToSortSeq(ZSet(m_) \cup {3, 99}, LAMBDA a, b : a > b)
    IN [i \in 1..Len(zs) |-> <<zs[i], vals_[(zs[i] % Len(vals_)) + 1]>>]
XSectors(m_) == ListOf(m_, << <<<<1, 2>>, <<1, 1>>>>, <<<<1, 1>>>>, <<>> >>)
XBaseSize(m_) == [ctor |-> "from_size", mol |-> m_, size |-> 6, rgrid |-> One("G1"), rotate |-> 37, store |-> FALSE,
                  aim |-> "becke", rep |-> BaseRep]
XBasePreset(m_) == [ctor |-> "from_preset", mol |-> m_, preset |-> List(ListOf(m_, FanPresetNames)),
                    rgrid |-> Dict(DictOf(m_, GridNames)), rotate |-> 37, store |-> FALSE, aim |-> "becke", rep |-> BaseRep]
XBasePruned(m_) == [ctor |-> "from_pruned", mol |-> m_, radius |-> List(ListOf(m_, <<<<1, 1>>, <<2, 1>>, <<1, 2>>>>)),
                    r_sectors |-> XSectors(m_), sect_kind |-> "d", sect |-> List(SectValues(m_, XSectors(m_), DegreeCycle)),
                    dsect |-> None, rgrid |-> List(ListOf(m_, GridNames)), rotate |-> 37, store |-> FALSE, aim |-> "becke",
                    rep |-> BaseRep]
XBases(m_) == {XBaseSize(m_), XBasePreset(m_), XBasePruned(m_)}
DirectAtoms(m_) ==
    [k \in 1..Len(MolZs(m_)) |->
        LET g == GridNames[(k % 3) + 1] IN
        [rgrid |-> g,
         degrees |-> IF (k % 2) = 1 THEN <<DegreeCycle[(k % 4) + 1]>> ELSE [j \in 1..GridSizes[g] |-> DegreeCycle[((j + k) % 4) + 1]],
         rotate |-> (k - 1) * 5]]
XAim(m_) ==
    {[b EXCEPT !.aim = "array", !.store = st] : b \in {XBaseSize(m_), XBasePreset(m_)}, st \in BOOLEAN}
    \cup {[XBasePruned(m_) EXCEPT !.aim = a, !.store = st, !.sect_kind = so.kind, !.sect = so.o] :
            a \in {"array", "callable"}, st \in BOOLEAN, so \in SectOptions(m_, XSectors(m_))}
XKinds(m_) ==
    {[XBasePruned(m_) EXCEPT !.sect_kind = "both", !.sect = so, !.dsect = d, !.rgrid = g] :
        so \in {One(26), List(SectValues(m_, XSectors(m_), SizeCycle))},
        d \in {One(7), List(SectValues(m_, XSectors(m_), DegreeCycle))}, g \in {One("G2"), None}}
    \cup {[XBasePruned(m_) EXCEPT !.sect_kind = "default", !.sect = None, !.radius = One(<<3, 2>>), !.rgrid = g] :
        g \in {One("G2")} \cup (IF Len(MolZs(m_)) <= 3 THEN {None} ELSE {})}
XDicts(m_) ==
    {[XBasePreset(m_) EXCEPT !.preset = Dict(DictXOf(m_, FanPresetNames)), !.rgrid = Dict(DictXOf(m_, GridNames)), !.aim = a] :
        a \in AimOptions}
    \cup {[XBasePruned(m_) EXCEPT !.rgrid = Dict(DictXOf(m_, GridNames)), !.radius = rad] : rad \in RadiusOptions(m_)}
XReps(m_) ==
    {[b EXCEPT !.rep = r] :
        b \in XBases(m_) \cup {[XBaseSize(m_) EXCEPT !.rgrid = None],
                               [XBasePruned(m_) EXCEPT !.radius = One(<<3, 2>>), !.sect = One(7)],
                               [XBasePruned(m_) EXCEPT !.radius = One(<<3, 2>>), !.sect_kind = "s", !.sect = One(26)]},
        r \in RepsUsed}
XRotate(m_) == {[b EXCEPT !.rotate = r] : b \in XBases(m_), r \in {1, RotateX}}
\* a radius that is a whole number, handed over as a Python int
XIntRadius(m_) == IF m_ \in {1, 5} THEN {[XBasePruned(m_) EXCEPT !.radius = One(<<2, 1>>), !.rep = [BaseRep EXCEPT !.scal = "int"]]} ELSE {}
XDirect(m_) == {[ctor |-> "direct", mol |-> m_, atoms |-> DirectAtoms(m_), store |-> st, aim |-> a, rep |-> BaseRep] :
                    st \in BOOLEAN, a \in XAims}
FanOptionsX(m_) == XAim(m_) \cup XKinds(m_) \cup XDicts(m_) \cup XReps(m_) \cup XRotate(m_) \cup XIntRadius(m_) \cup XDirect(m_)
FanOptionsAll(m_) == (IF m_ \in FanMols THEN FanOptionsOf(m_) ELSE {}) \cup (IF m_ \in XFanMols THEN FanOptionsX(m_) ELSE {})
FanOptions(dummy_) == UNION {FanOptionsAll(m) : m \in FanMols \cup XFanMols}
\* the representation of the arguments is not an argument; "both" means the sizes
RepInvisible == \A m \in XFanMols : \A o \in FanOptionsX(m) : FanOut(o) = FanOut([o EXCEPT !.rep = BaseRep])
BothMeansSizes == \A m \in XFanMols : \A o \in XKinds(m) :
                      o.sect_kind = "both" => FanOut(o) = FanOut([o EXCEPT !.sect_kind = "s"])
\* a dictionary with superfluous / reordered entries stands for the same constructions
DictXMeansDict == \A m \in XFanMols : \A k \in 1..Len(MolZs(m)) :
                      DictGet(DictXOf(m, GridNames), MolZs(m)[k]) = DictGet(DictOf(m, GridNames), MolZs(m)[k])

\* what TLC expects of the integer observables of a fan-out replay:
\* o = [ok, atom_sizes (sizes of the hand-built atomic grids), indices (of the convenience-built grid)]
FanExpectedSizes(o_) ==
    LET calls == FanOut(o_) IN
    [k \in 1..Len(calls) |->
        CASE calls[k].fn = "AtomGrid" -> NShell(calls[k].rgrid) * SizeUp("lebedev", calls[k].sizes[1])
          [] calls[k].fn = "AtomGridDeg" ->       \* one degree for all shells, or one per shell; each rounded up to a shipped degree
                LET n == NShell(calls[k].rgrid)
                    d == calls[k].degrees
                    dd == IF Len(d) = 1 THEN ConstSeq(n, d[1]) ELSE d
                IN ISum([i \in 1..n |-> SizeOfDeg("lebedev", DegUp("lebedev", dd[i]))])
          [] OTHER -> -1]

(***************************************************************************)
(* Part 2.  store flag.  Abstract values: "P" points, "A" atomic weights,  *)
(* "W" = A o aim; <<x, i>> the segment of atom i.                          *)
(***************************************************************************)
NAtomsStore == 2
\* observers of a grid with n_ atoms.  get_atomic_grid_neg i: get_atomic_grid(-i) - documented to be rejected;
\* get_atomic_grid_oob j: get_atomic_grid(n_ + j) - there is no such atom.  Whether the atomic grids are stored
\* must not decide whether such a call is answered.
ObserversOf(n_) == {<<"points", 0>>, <<"weights", 0>>, <<"tables", 0>>, <<"integrate", 0>>}
                   \cup {<<"get_atomic_grid", i>> : i \in 1..n_} \cup {<<"getitem", i>> : i \in 1..n_}
                   \cup {<<"get_atomic_grid_neg", i>> : i \in 1..n_} \cup {<<"get_atomic_grid_oob", j>> : j \in 0..1}
Observers == ObserversOf(NAtomsStore)
\* specification of each observer (independent of the flag by construction)
SpecObs(ob_) ==
    CASE ob_[1] = "points" -> <<"P">>
      [] ob_[1] = "weights" -> <<"W">>
      [] ob_[1] = "tables" -> <<"indices", "A", "aim", "centres">>
      [] ob_[1] = "integrate" -> <<"sum W f">>
      [] ob_[1] = "get_atomic_grid" -> [points |-> <<"P", ob_[2]>>, weights |-> <<"A", ob_[2]>>, centre |-> ob_[2]]
      [] ob_[1] = "getitem" -> [points |-> <<"P", ob_[2]>>, weights |-> <<"W", ob_[2]>>, centre |-> ob_[2]]
      [] ob_[1] \in {"get_atomic_grid_neg", "get_atomic_grid_oob"} -> <<"raises">>
\* model of the code
CodeObs(store_, ob_) ==
    CASE ob_[1] = "getitem" ->
            IF store_ THEN [points |-> <<"P", ob_[2]>>, weights |-> <<"A", ob_[2]>>, centre |-> ob_[2]]   \* the stored AtomGrid itself
            ELSE [points |-> <<"P", ob_[2]>>, weights |-> <<"W", ob_[2]>>, centre |-> ob_[2]]            \* LocalGrid(points, weights)
      [] OTHER -> SpecObs(ob_)

InitStore == pc = "store" /\ cs = <<>> /\ step = 0 /\ acc = <<>>
Observe ==
    /\ pc = "store" /\ Len(cs) < MaxHist
    /\ \E ob \in Observers :
         /\ cs' = Append(cs, ob)
         /\ acc' = <<CodeObs(TRUE, ob), CodeObs(FALSE, ob), SpecObs(ob)>>
    /\ step' = step + 1 /\ UNCHANGED pc
NextStore == Observe
\* the flag is not observable; every observer returns what its specification says
StoreInvisible ==
    (pc = "store" /\ cs # <<>>) =>
        (acc[1] = acc[2] /\ acc[1] = acc[3]) \/ PrintT(<<"STOREDIFF", cs[Len(cs)], acc>>)
Behaviours(dummy_) == UNION {Tuples(Observers, n) : n \in 1..MaxHist}
\* a second subject for the replay: three atoms with a repeated element, built by from_preset with per-atom
\* presets, a per-element dictionary of radial grids, a Seed-dependent rotation and callable weights
StoreSubject2 == [XBasePreset(5) EXCEPT !.aim = "callable", !.rotate = RotateX]
Behaviours2(dummy_) == UNION {Tuples(ObserversOf(Len(MolZs(StoreSubject2.mol))), n) : n \in 1..2}

(***************************************************************************)
(* Part 3.  End-to-end obligations.                                        *)
(***************************************************************************)
\* normalised s-type Gaussian (alpha/pi)^(3/2) exp(-alpha r^2); its integral over space is 1, so a sum of
\* M of them carries the total charge M
GaussE == Mul(PowR(Div(V("alpha"), Pi), C(3, 2)), Exp(Neg(Mul(V("alpha"), V("r2")))))
ExponentValues == <<<<3, 10>>, <<1, 1>>, <<3, 1>>, <<10, 1>>, <<30, 1>>>>
\* pattern j: 1..5 all atoms the same exponent; 6..10 atom k gets exponent ((k + j) mod 5)
Pattern(j_, natoms_) == [k \in 1..natoms_ |-> IF j_ <= 5 THEN ExponentValues[j_] ELSE ExponentValues[((k + j_) % 5) + 1]]
\* patterns 11..NPatterns: exponents anywhere on the lattice 0.3, 0.4, ..., 30.0 (Seed-dependent, different per atom)
NPatterns == 14
SeedExponent(j_, k_) == Q(3 + ((Seed * 7919 + 104729 * j_ + 31337 * k_) % 298), 10)
PatternX(j_, natoms_) == IF j_ <= 10 THEN Pattern(j_, natoms_) ELSE [k \in 1..natoms_ |-> SeedExponent(j_, k)]
\* "any sum" includes the sums that populate ONE centre only: the single normalised Gaussian on atom k.
\* Its exponent runs over the whole lattice 0.3, 0.4, ..., 30.0 (every tenth value on the three finest presets,
\* whose grids are large); judged on the templates as typed (not on the moved copies: Seed-independent verdicts).
SingleLattice(stride_) == [i \in 1..((297 \div stride_) + 1) |-> Q(3 + (i - 1) * stride_, 10)]
SingleStride(preset_) == IF preset_ \in {"veryfine", "ultrafine", "insane"} THEN 10 ELSE 1
SingleInRange == \A st \in {1, 10} : \A i \in DOMAIN SingleLattice(st) :
                    QLe(<<3, 10>>, SingleLattice(st)[i]) /\ QLe(SingleLattice(st)[i], <<30, 1>>)
ExponentsInRange == \A n \in 1..5 : \A j \in 1..NPatterns : \A k \in 1..n :
                        QLe(<<3, 10>>, PatternX(j, n)[k]) /\ QLe(PatternX(j, n)[k], <<30, 1>>)
PresetIndex(name_) == CHOOSE i \in 1..Len(Presets) : Presets[i].name = name_
HasEntry(name_, z_) == \E j \in 1..Len(Presets[PresetIndex(name_)].entries) : Presets[PresetIndex(name_)].entries[j].z = z_
EntryOf(name_, z_) == LET es == Presets[PresetIndex(name_)].entries IN es[CHOOSE j \in 1..Len(es) : es[j].z = z_]
\* can AtomGrid.from_preset(z, name, rgrid=None) be built?  radii tables: any radial grid; counts
\* tables: only if the default radial grid happens to have the prescribed number of shells
ConstructibleWithDefault(name_, z_) ==
    /\ z_ \in DefaultZ /\ HasEntry(name_, z_)
    /\ LET e == EntryOf(name_, z_) IN
         /\ ShapeFits(e) /\ CodeBranch(name_, z_) = e.kind
         /\ (e.kind = "counts" => ISum(e.rad) = DefaultSize[z_])
E2EObligations(dummy_) ==
    {[preset |-> Presets[p].name, mol |-> m,
      constructible |-> \A k \in 1..Len(Molecules[m].z) : ConstructibleWithDefault(Presets[p].name, Molecules[m].z[k])] :
        p \in 1..Len(Presets), m \in 1..Len(Molecules)}
\* the same obligations for the rigidly moved, reversed templates (mol = index in AllMolecules)
E2EObligationsMoved(dummy_) ==
    {[preset |-> Presets[p].name, mol |-> MovedIndex(m),
      constructible |-> \A k \in 1..Len(Molecules[m].z) : ConstructibleWithDefault(Presets[p].name, Molecules[m].z[k])] :
        p \in 1..Len(Presets), m \in 1..Len(Molecules)}
\* at least the presets without prescribed radial size are constructible for every template (non-vacuity)
E2ENonVacuous ==
    \A name \in {"coarse", "medium", "fine", "veryfine", "ultrafine", "insane"} :
        \A m \in 1..Len(Molecules) : \A k \in 1..Len(Molecules[m].z) : ConstructibleWithDefault(name, Molecules[m].z[k])

MolLaws ==
    /\ Law("MoleculesAdmissible", MoleculesAdmissible)
    /\ Law("MoleculesTight", MoleculesTight)
    /\ Law("FanOutTotal", \A o \in FanOptions(0) : FanOutDefined(o))
    /\ Law("MovedRigid", MovedRigid)
    /\ Law("MovedAdmissible", MovedAdmissible)
    /\ Law("XSeparated", XSeparated)
    /\ Law("RepInvisible", RepInvisible)
    /\ Law("BothMeansSizes", BothMeansSizes)
    /\ Law("DictXMeansDict", DictXMeansDict)
    /\ Law("ExponentsInRange", ExponentsInRange)
    /\ Law("SingleInRange", SingleInRange)
    /\ Law("StoreSubject2Defined", FanOutDefined(StoreSubject2))
    /\ Law("E2ENonVacuous", E2ENonVacuous)
MolLawsHold == pc = "idle" => MolLaws
MolEmitted ==
    pc = "idle" =>
        /\ JsonSerialize("molgrid_fanout.json", SetToSeq({[opt |-> o, calls |-> FanOut(o), aim |-> AimSpec(o)] : o \in FanOptions(0)}))
        /\ JsonSerialize("molgrid_molecules.json", AllMolecules)
        /\ JsonSerialize("molgrid_behaviours.json", SetToSeq(Behaviours(0)))
        /\ JsonSerialize("molgrid_behaviours2.json",
                [subject |-> [opt |-> StoreSubject2, calls |-> FanOut(StoreSubject2), aim |-> AimSpec(StoreSubject2)],
                 behaviours |-> SetToSeq(Behaviours2(0))])
        /\ JsonSerialize("molgrid_e2e.json",
                [obligations |-> SetToSeq(E2EObligations(0) \cup E2EObligationsMoved(0)),
                 patterns |-> [n \in 1..5 |-> [j \in 1..NPatterns |-> PatternX(j, n)]],
                 single |-> [templates |-> Len(Molecules),
                             lattice |-> [p \in 1..Len(Presets) |-> [preset |-> Presets[p].name,
                                                                     exponents |-> SingleLattice(SingleStride(Presets[p].name))]]],
                 density |-> GaussE])

(***************************************************************************)
(* Machine: judge the integer observables of the fan-out replays.          *)
(* FanObs: sequence of [opt, o]; o = [ok |-> FALSE, err] or                *)
(* [ok, atom_sizes, indices, size].                                        *)
(***************************************************************************)
InitFan == Idle
FanPickBlock ==
    /\ pc = "idle"
    /\ \E b \in 0..(Len(FanObs) \div BlockSize) : step' = b
    /\ pc' = "block" /\ UNCHANGED <<cs, acc>>
FanPick ==
    /\ pc = "block"
    /\ \E j \in 1..BlockSize :
         LET k == step * BlockSize + j IN
         /\ k <= Len(FanObs)
         /\ cs' = FanObs[k].opt /\ acc' = FanObs[k].o
    /\ pc' = "judge" /\ UNCHANGED step
NextFan == FanPickBlock \/ FanPick
FanIsOption == pc = "judge" => cs \in FanOptionsAll(cs.mol)
FanConforms ==
    pc = "judge" =>
        \/ /\ acc.ok
           /\ Len(acc.atom_sizes) = Len(AllMolecules[cs.mol].z)
           /\ acc.indices = PrefixSums(acc.atom_sizes)                     \* the index table
           /\ acc.size = ISum(acc.atom_sizes)
           /\ \A k \in 1..Len(acc.atom_sizes) :
                 FanExpectedSizes(cs)[k] = -1 \/ FanExpectedSizes(cs)[k] = acc.atom_sizes[k]
        \/ PrintT(<<"FANMISMATCH", cs, acc, FanExpectedSizes(cs)>>)
=============================================================================
