------------------------------- MODULE MolGrid -------------------------------
(***************************************************************************)
(* A molecular grid is the weighted concatenation of its atomic grids      *)
(* (property C07).                                                         *)
(*                                                                         *)
(*   indices = prefix sums of the atomic sizes                             *)
(*   points  = concatenation of the atomic points                          *)
(*   weights = atweights o aim   (aim: array, or callable evaluated on the *)
(*             concatenated points, the centres, the numbers, the table)   *)
(* Part 1  constructor fan-out: every admissible option combination of     *)
(*         from_size / from_preset / from_pruned is normalised into ONE    *)
(*         list of atomic constructions (emitted; the harness builds the   *)
(*         grid by hand from it and compares bit for bit).                 *)
(* Part 2  observation equivalence of store = True / False over short      *)
(*         histories of observer calls (model of the code next to the      *)
(*         specification of each observer).                                *)
(* Part 3  obligations of the end-to-end charge clause: presets x molecule *)
(*         templates x exponent patterns, with the documented precondition *)
(*         "a preset that prescribes shell counts needs a radial grid of   *)
(*         that size" decided from the preset tables.                      *)
(*                                                                         *)
(* EXTENDS AtomGrid for resolution, prefix sums and the preset tables;     *)
(* Tables_molgrid (generated): DefaultSize (Z -> number of points of the   *)
(* default radial grid, from grid.utils), GridSizes (name -> size of the   *)
(* radial grids of the replay pool), FanObs, tier bounds.                  *)
(***************************************************************************)
EXTENDS AtomGrid, Expr, Tables_molgrid

DefaultZ == DOMAIN DefaultSize

(***************************************************************************)
(* Molecule templates (atomic units, rational coordinates).                *)
(***************************************************************************)
R3(x_, y_, z_) == <<Q(x_, 100), Q(y_, 100), Q(z_, 100)>>
Molecules ==
    << [name |-> "H",     z |-> <<1>>,             xyz |-> <<R3(0, 0, 0)>>],
       [name |-> "H2",    z |-> <<1, 1>>,          xyz |-> <<R3(0, 0, -70), R3(0, 0, 70)>>],
       [name |-> "HF",    z |-> <<9, 1>>,          xyz |-> <<R3(0, 0, 0), R3(0, 0, 173)>>],
       [name |-> "CO",    z |-> <<6, 8>>,          xyz |-> <<R3(0, 0, -122), R3(0, 0, 91)>>],
       [name |-> "H2O",   z |-> <<8, 1, 1>>,       xyz |-> <<R3(0, 0, 22), R3(0, 143, -89), R3(0, -143, -89)>>],
       [name |-> "HCN",   z |-> <<1, 6, 7>>,       xyz |-> <<R3(0, 0, -306), R3(0, 0, -105), R3(0, 0, 113)>>],
       [name |-> "NH3",   z |-> <<7, 1, 1, 1>>,    xyz |-> <<R3(0, 0, 22), R3(0, 177, -51), R3(153, -89, -51), R3(-153, -89, -51)>>],
       [name |-> "H2CO",  z |-> <<6, 8, 1, 1>>,    xyz |-> <<R3(0, 0, -100), R3(0, 0, 128), R3(0, 177, -210), R3(0, -177, -210)>>],
       [name |-> "CH4",   z |-> <<6, 1, 1, 1, 1>>, xyz |-> <<R3(0, 0, 0), R3(119, 119, 119), R3(-119, -119, 119), R3(-119, 119, -119), R3(119, -119, -119)>>],
       [name |-> "CH3Cl", z |-> <<6, 17, 1, 1, 1>>, xyz |-> <<R3(0, 0, 0), R3(0, 0, 337), R3(194, 0, -65), R3(-97, 168, -65), R3(-97, -168, -65)>>],
       [name |-> "CONHCl", z |-> <<6, 8, 7, 1, 17>>, xyz |-> <<R3(0, 0, 0), R3(0, 0, 228), R3(225, 0, -120), R3(380, 0, 0), R3(-290, 0, -160)>>],
       [name |-> "crowd", z |-> <<1, 1, 8, 6, 1>>, xyz |-> <<R3(0, 0, 0), R3(120, 0, 0), R3(0, 125, 0), R3(0, 0, 130), R3(90, 90, 90)>>],
       \* elements without a tabulated Bragg-Slater radius (the atom-in-molecule weights fall back to a neighbour's)
       [name |-> "HeH",   z |-> <<2, 1>>,          xyz |-> <<R3(0, 0, 0), R3(0, 0, 146)>>],
       [name |-> "ArOH",  z |-> <<18, 8, 1>>,      xyz |-> <<R3(0, 0, 0), R3(0, 0, 420), R3(0, 170, 500)>>] >>
Dist2(a_, b_) == QSum([k \in 1..3 |-> QMul(QSub(a_[k], b_[k]), QSub(a_[k], b_[k]))])
\* admissibility of the templates for the end-to-end clause: at least 1.2 bohr apart, at most 5 atoms
MoleculesAdmissible ==
    \A i \in 1..Len(Molecules) :
        LET m == Molecules[i] IN
        /\ Len(m.z) = Len(m.xyz) /\ Len(m.z) \in 1..5
        /\ \A a \in 1..Len(m.z) : \A b \in 1..Len(m.z) : a < b => QLe(<<36, 25>>, Dist2(m.xyz[a], m.xyz[b]))
\* the tightest template really is close to the bound (the clause is exercised near its edge)
MoleculesTight == \E i \in 1..Len(Molecules) : \E a, b \in 1..Len(Molecules[i].z) :
                     a < b /\ QLe(Dist2(Molecules[i].xyz[a], Molecules[i].xyz[b]), <<9, 4>>)

(***************************************************************************)
(* Part 1.  Fan-out.                                                       *)
(* Option shapes:  one | list (per atom, by position) | dict (by atomic    *)
(* number, written as a sequence of <<Z, value>>, Z increasing) | none     *)
(* (default radial grid).                                                  *)
(***************************************************************************)
One(v_) == [shape |-> "one", v |-> v_]
List(v_) == [shape |-> "list", v |-> v_]
Dict(v_) == [shape |-> "dict", v |-> v_]
None == [shape |-> "none", v |-> 0]
DictGet(d_, key_) == d_[CHOOSE i \in 1..Len(d_) : d_[i][1] = key_][2]
DictHas(d_, key_) == \E i \in 1..Len(d_) : d_[i][1] = key_
\* value of a per-atom option for atom k_ with atomic number z_
Pick(o_, k_, z_) == CASE o_.shape = "one" -> o_.v
                      [] o_.shape = "list" -> o_.v[k_]
                      [] o_.shape = "dict" -> DictGet(o_.v, z_)
Defined(o_, zs_) == CASE o_.shape = "one" -> TRUE
                      [] o_.shape = "list" -> Len(o_.v) = Len(zs_)
                      [] o_.shape = "dict" -> \A k \in 1..Len(zs_) : DictHas(o_.v, zs_[k])
                      [] o_.shape = "none" -> \A k \in 1..Len(zs_) : zs_[k] \in DefaultZ
RgridRef(o_, k_, z_) == IF o_.shape = "none" THEN <<"default", z_>> ELSE <<"given", Pick(o_, k_, z_)>>
NShell(ref_) == IF ref_[1] = "default" THEN DefaultSize[ref_[2]] ELSE GridSizes[ref_[2]]

\* the list of atomic constructions an option record stands for
FanOut(o_) ==
    LET zs == Molecules[o_.mol].z IN
    [k \in 1..Len(zs) |->
        CASE o_.ctor = "from_size" ->
                [fn |-> "AtomGrid", rgrid |-> RgridRef(o_.rgrid, k, zs[k]), sizes |-> <<o_.size>>,
                 centre |-> k, rotate |-> o_.rotate]
          [] o_.ctor = "from_preset" ->
                [fn |-> "from_preset", atnum |-> zs[k], preset |-> Pick(o_.preset, k, zs[k]),
                 rgrid |-> RgridRef(o_.rgrid, k, zs[k]), centre |-> k, rotate |-> o_.rotate]
          [] o_.ctor = "from_pruned" ->
                LET secs == o_.r_sectors[k]
                    vals == IF o_.sect.shape = "one" THEN ConstSeq(Len(secs) + 1, o_.sect.v) ELSE o_.sect.v[k]
                IN [fn |-> "from_pruned", rgrid |-> RgridRef(o_.rgrid, k, zs[k]), radius |-> Pick(o_.radius, k, zs[k]),
                    r_sectors |-> secs, kind |-> o_.sect_kind, sect |-> vals, centre |-> k, rotate |-> o_.rotate]]
FanOutDefined(o_) ==
    LET zs == Molecules[o_.mol].z IN
    /\ Defined(o_.rgrid, zs)
    /\ (o_.ctor = "from_preset" => Defined(o_.preset, zs))
    /\ (o_.ctor = "from_pruned" =>
            /\ Defined(o_.radius, zs) /\ Len(o_.r_sectors) = Len(zs)
            /\ (o_.sect.shape = "list" => Len(o_.sect.v) = Len(zs) /\ \A k \in 1..Len(zs) : Len(o_.sect.v[k]) = Len(o_.r_sectors[k]) + 1))

\* ---- the option space of the replay -------------------------------------------------------------
FanMols == {1, 2, 4, 5, 6, 9}                     \* H (a single atom: no partner, callable weights still apply),                        \* H2 (equal elements), CO, H2O (repeated element), HCN (three elements),
                                                  \* CH4 (five atoms: the whole-grid Becke call is chunked from four atoms on)
GridNames == <<"G1", "G2", "G3">>
MolZs(m_) == Molecules[m_].z
ZSet(m_) == {MolZs(m_)[k] : k \in 1..Len(MolZs(m_))}
\* per-atom lists / per-element dictionaries that use DIFFERENT values for different atoms / elements
ListOf(m_, vals_) == [k \in 1..Len(MolZs(m_)) |-> vals_[((k - 1) % Len(vals_)) + 1]]
SortedZs(m_) == SetToSortSeq(ZSet(m_), LAMBDA a, b : a < b)
DictOf(m_, vals_) == [i \in 1..Len(SortedZs(m_)) |-> <<SortedZs(m_)[i], vals_[(SortedZs(m_)[i] % Len(vals_)) + 1]>>]
RgridOptions(m_) == {One("G1"), One("G3"), List(ListOf(m_, GridNames)), Dict(DictOf(m_, GridNames)), None}
RotateOptions == {0, 37}
StoreOptions == BOOLEAN
AimOptions == {"becke", "callable"}
SizeOptions == {6, 20}
FanPresetNames == <<"coarse", "medium", "sg_1">>
PresetOptions(m_) == {One("coarse"), One("sg_1"), List(ListOf(m_, FanPresetNames)), Dict(DictOf(m_, FanPresetNames))}
RadiusOptions(m_) == {One(<<3, 2>>), List(ListOf(m_, <<<<1, 1>>, <<2, 1>>, <<1, 2>>>>))}
SectorOptions(m_) ==          \* per atom lists of boundaries (multiples of the radius), different lengths
    { ListOf(m_, << <<<<1, 2>>, <<1, 1>>>>, <<<<1, 1>>>>, <<>> >>),
      ListOf(m_, << <<<<1, 1>>>>, <<<<1, 2>>, <<2, 1>>>> >>) }
DegreeCycle == <<3, 7, 5, 9>>
SizeCycle == <<6, 26, 14, 38>>
SectValues(m_, rs_, cyc_) == [k \in 1..Len(MolZs(m_)) |-> [j \in 1..Len(rs_[k]) + 1 |-> cyc_[((j + k) % Len(cyc_)) + 1]]]
SectOptions(m_, rs_) ==
    { [kind |-> "d", o |-> One(7)], [kind |-> "d", o |-> List(SectValues(m_, rs_, DegreeCycle))],
      [kind |-> "s", o |-> One(26)], [kind |-> "s", o |-> List(SectValues(m_, rs_, SizeCycle))] }

FanOptionsOf(m_) ==
    {[ctor |-> "from_size", mol |-> m_, size |-> s, rgrid |-> g, rotate |-> r, store |-> st, aim |-> a] :
        s \in SizeOptions, g \in {One("G1"), One("G2"), None}, r \in RotateOptions, st \in StoreOptions, a \in AimOptions}
    \cup {[ctor |-> "from_preset", mol |-> m_, preset |-> p, rgrid |-> g, rotate |-> r, store |-> st, aim |-> a] :
        p \in PresetOptions(m_), g \in RgridOptions(m_), r \in RotateOptions, st \in StoreOptions, a \in AimOptions}
    \cup UNION {{[ctor |-> "from_pruned", mol |-> m_, radius |-> rad, r_sectors |-> rs, sect_kind |-> so.kind, sect |-> so.o,
                  rgrid |-> g, rotate |-> r, store |-> st, aim |-> a] :
        rad \in RadiusOptions(m_), so \in SectOptions(m_, rs), g \in RgridOptions(m_), r \in RotateOptions,
        st \in StoreOptions, a \in {"becke"}} : rs \in SectorOptions(m_)}
FanOptions(dummy_) == UNION {FanOptionsOf(m) : m \in FanMols}

\* what TLC expects of the integer observables of a fan-out replay:
\* o = [ok, atom_sizes (sizes of the hand-built atomic grids), indices (of the convenience-built grid)]
FanExpectedSizes(o_) ==
    LET calls == FanOut(o_) IN
    [k \in 1..Len(calls) |-> IF calls[k].fn = "AtomGrid"
                              THEN NShell(calls[k].rgrid) * SizeUp("lebedev", calls[k].sizes[1]) ELSE -1]

(***************************************************************************)
(* Part 2.  store flag.  Abstract values: "P" points, "A" atomic weights,  *)
(* "W" = A o aim; <<x, i>> the segment of atom i.                          *)
(***************************************************************************)
NAtomsStore == 2
Observers == {<<"points", 0>>, <<"weights", 0>>, <<"tables", 0>>, <<"integrate", 0>>}
             \cup {<<"get_atomic_grid", i>> : i \in 1..NAtomsStore} \cup {<<"getitem", i>> : i \in 1..NAtomsStore}
\* specification of each observer (independent of the flag by construction)
SpecObs(ob_) ==
    CASE ob_[1] = "points" -> <<"P">>
      [] ob_[1] = "weights" -> <<"W">>
      [] ob_[1] = "tables" -> <<"indices", "A", "aim", "centres">>
      [] ob_[1] = "integrate" -> <<"sum W f">>
      [] ob_[1] = "get_atomic_grid" -> [points |-> <<"P", ob_[2]>>, weights |-> <<"A", ob_[2]>>, centre |-> ob_[2]]
      [] ob_[1] = "getitem" -> [points |-> <<"P", ob_[2]>>, weights |-> <<"W", ob_[2]>>, centre |-> ob_[2]]
\* model of the code
CodeObs(store_, ob_) ==
    CASE ob_[1] = "getitem" ->
            IF store_ THEN [points |-> <<"P", ob_[2]>>, weights |-> <<"A", ob_[2]>>, centre |-> ob_[2]]   \* the stored AtomGrid itself
            ELSE [points |-> <<"P", ob_[2]>>, weights |-> <<"W", ob_[2]>>, centre |-> ob_[2]]            \* LocalGrid(points, weights)
      [] OTHER -> SpecObs(ob_)

InitStore == pc = "store" /\ cs = <<>> /\ step = 0 /\ acc = <<>>
Observe ==
    /\ pc = "store" /\ Len(cs) < MaxHist
    /\ \E ob \in Observers :
         /\ cs' = Append(cs, ob)
         /\ acc' = <<CodeObs(TRUE, ob), CodeObs(FALSE, ob), SpecObs(ob)>>
    /\ step' = step + 1 /\ UNCHANGED pc
NextStore == Observe
\* the flag is not observable; every observer returns what its specification says
StoreInvisible ==
    (pc = "store" /\ cs # <<>>) =>
        (acc[1] = acc[2] /\ acc[1] = acc[3]) \/ PrintT(<<"STOREDIFF", cs[Len(cs)], acc>>)
Behaviours(dummy_) == UNION {Tuples(Observers, n) : n \in 1..MaxHist}

(***************************************************************************)
(* Part 3.  End-to-end obligations.                                        *)
(***************************************************************************)
\* normalised s-type Gaussian (alpha/pi)^(3/2) exp(-alpha r^2); its integral over space is 1, so a sum of
\* M of them carries the total charge M
GaussE == Mul(PowR(Div(V("alpha"), Pi), C(3, 2)), Exp(Neg(Mul(V("alpha"), V("r2")))))
ExponentValues == <<<<3, 10>>, <<1, 1>>, <<3, 1>>, <<10, 1>>, <<30, 1>>>>
\* pattern j: 1..5 all atoms the same exponent; 6..10 atom k gets exponent ((k + j) mod 5)
Pattern(j_, natoms_) == [k \in 1..natoms_ |-> IF j_ <= 5 THEN ExponentValues[j_] ELSE ExponentValues[((k + j_) % 5) + 1]]
PresetIndex(name_) == CHOOSE i \in 1..Len(Presets) : Presets[i].name = name_
HasEntry(name_, z_) == \E j \in 1..Len(Presets[PresetIndex(name_)].entries) : Presets[PresetIndex(name_)].entries[j].z = z_
EntryOf(name_, z_) == LET es == Presets[PresetIndex(name_)].entries IN es[CHOOSE j \in 1..Len(es) : es[j].z = z_]
\* can AtomGrid.from_preset(z, name, rgrid=None) be built?  radii tables: any radial grid; counts
\* tables: only if the default radial grid happens to have the prescribed number of shells
ConstructibleWithDefault(name_, z_) ==
    /\ z_ \in DefaultZ /\ HasEntry(name_, z_)
    /\ LET e == EntryOf(name_, z_) IN
         /\ ShapeFits(e) /\ CodeBranch(name_, z_) = e.kind
         /\ (e.kind = "counts" => ISum(e.rad) = DefaultSize[z_])
E2EObligations(dummy_) ==
    {[preset |-> Presets[p].name, mol |-> m,
      constructible |-> \A k \in 1..Len(Molecules[m].z) : ConstructibleWithDefault(Presets[p].name, Molecules[m].z[k])] :
        p \in 1..Len(Presets), m \in 1..Len(Molecules)}
\* at least the presets without prescribed radial size are constructible for every template (non-vacuity)
E2ENonVacuous ==
    \A name \in {"coarse", "medium", "fine", "veryfine", "ultrafine", "insane"} :
        \A m \in 1..Len(Molecules) : \A k \in 1..Len(Molecules[m].z) : ConstructibleWithDefault(name, Molecules[m].z[k])

MolLaws ==
    /\ Law("MoleculesAdmissible", MoleculesAdmissible)
    /\ Law("MoleculesTight", MoleculesTight)
    /\ Law("FanOutTotal", \A o \in FanOptions(0) : FanOutDefined(o))
    /\ Law("E2ENonVacuous", E2ENonVacuous)
MolLawsHold == pc = "idle" => MolLaws
MolEmitted ==
    pc = "idle" =>
        /\ JsonSerialize("molgrid_fanout.json", SetToSeq({[opt |-> o, calls |-> FanOut(o)] : o \in FanOptions(0)}))
        /\ JsonSerialize("molgrid_molecules.json", Molecules)
        /\ JsonSerialize("molgrid_behaviours.json", SetToSeq(Behaviours(0)))
        /\ JsonSerialize("molgrid_e2e.json",
                [obligations |-> SetToSeq(E2EObligations(0)),
                 patterns |-> [n \in 1..5 |-> [j \in 1..10 |-> Pattern(j, n)]],
                 density |-> GaussE])

(***************************************************************************)
(* Machine: judge the integer observables of the fan-out replays.          *)
(* FanObs: sequence of [opt, o]; o = [ok |-> FALSE, err] or                *)
(* [ok, atom_sizes, indices, size].                                        *)
(***************************************************************************)
InitFan == Idle
FanPickBlock ==
    /\ pc = "idle"
    /\ \E b \in 0..(Len(FanObs) \div BlockSize) : step' = b
    /\ pc' = "block" /\ UNCHANGED <<cs, acc>>
FanPick ==
    /\ pc = "block"
    /\ \E j \in 1..BlockSize :
         LET k == step * BlockSize + j IN
         /\ k <= Len(FanObs)
         /\ cs' = FanObs[k].opt /\ acc' = FanObs[k].o
    /\ pc' = "judge" /\ UNCHANGED step
NextFan == FanPickBlock \/ FanPick
FanIsOption == pc = "judge" => cs \in FanOptionsOf(cs.mol)
FanConforms ==
    pc = "judge" =>
        \/ /\ acc.ok
           /\ Len(acc.atom_sizes) = Len(Molecules[cs.mol].z)
           /\ acc.indices = PrefixSums(acc.atom_sizes)                     \* the index table
           /\ acc.size = ISum(acc.atom_sizes)
           /\ \A k \in 1..Len(acc.atom_sizes) :
                 FanExpectedSizes(cs)[k] = -1 \/ FanExpectedSizes(cs)[k] = acc.atom_sizes[k]
        \/ PrintT(<<"FANMISMATCH", cs, acc, FanExpectedSizes(cs)>>)
=============================================================================
