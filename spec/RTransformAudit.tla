--------------------------- MODULE RTransformAudit ---------------------------
(***************************************************************************)
(* Property C03, second layer (RTransform.tla is extended, not changed).   *)
(*                                                                         *)
(* RTransform.tla states the maps and decides the analytic identities on   *)
(* a lattice of ordinary parameters and points, handed to the library in   *)
(* one way (ascending float64 array / NumPy scalar, every parameter given  *)
(* as a float).  The quantifier of C03 is wider: ALL parameter values, ALL *)
(* interior points, scalar OR array, and 12 classes of which the twelfth   *)
(* (InverseRTransform) wraps any of the others.  This module adds what the *)
(* first layer leaves out:                                                 *)
(*                                                                         *)
(*  1. InverseRTransform is an involution: the role swap applied twice is  *)
(*     the identity on trees and declarations (ASSUME), so a wrapper of a  *)
(*     wrapper must behave as the wrapped transform; and the wrapper is a  *)
(*     transform class of its own, so ITS forward map G sends ITS domain   *)
(*     ends (the codomain ends of the wrapped map) to ITS codomain ends -  *)
(*     derived from EndPoints by the role swap (InvEndImages), checked by  *)
(*     TLC wherever G has a value at the end in the extended arithmetic.   *)
(*  2. An audit lattice: extreme but admissible parameters (negative rmin, *)
(*     length scales 1/1000 and 1000, integer-valued parameter sets,       *)
(*     modified Handy sizes just above the bound 2^m - 1, large and        *)
(*     non-integer exponents for the symbolic instances) and interior      *)
(*     points at distance 2^-7 .. 2^-20 from the ends of the domain / far  *)
(*     out on the half line.  The same identities as in RTransform.tla are *)
(*     decided on it (AuditIdentities; "holds or undecided in 32 bits",    *)
(*     the harness decides everything with unbounded integers).            *)
(*  3. The catalogue of FORMS in which a point set may be handed over and  *)
(*     of constructor VARIANTS, with their applicability; the law is that  *)
(*     the value of every method at a point depends on neither (FormArg    *)
(*     gives the argument as a sequence of indexes into the ascending      *)
(*     point lattice; the k-th output must be the tree value at the k-th   *)
(*     index; an empty argument gives an empty result; a shared array      *)
(*     object is never changed by a call).                                 *)
(*  4. The b-protocol of the b-scaled maps (LinearInfinite, Exp, Power)    *)
(*     constructed WITHOUT b (the default): a state machine.  b is open    *)
(*     until the first call of a forward method whose value depends on b;  *)
(*     that call fixes b to the LARGEST point of its argument (wherever it *)
(*     stands in the array); from then on b never changes, whatever method *)
(*     is called with whatever argument, and every value is the tree value *)
(*     under that b.  TLC explores all call sequences up to BDepth over a  *)
(*     catalogue of (unsorted / scalar) arguments, checks BFrozen,         *)
(*     BFromFirstCall, BAdmissible and BScalePoint (the fixed b is sent to *)
(*     rmax) and emits every maximal behaviour; the harness replays each   *)
(*     of them on the library and compares tf.b and every value.           *)
(***************************************************************************)
EXTENDS RTransform

CONSTANT AuditFile      \* "" or the name of the JSON file the audit catalogue is written to

(***************************************************************************)
(* 1. InverseRTransform: involution, reference end points of the wrapper.  *)
(***************************************************************************)
InverseInvolution ==
    \A j_ \in 1..NInst : /\ InverseTrees(InverseTrees(Trees[j_])) = Trees[j_]
                         /\ InverseDecl(InverseDecl(Decls[j_])) = Decls[j_]
ASSUME InverseInvolution

\* the wrapper's reference end points are its domain ends exactly when those of the wrapped map
\* are (not for the b-scaled maps, whose scale point b is no domain end, nor for Hyperbolic,
\* whose pole 1/b lies inside its declared domain)
RefIsDom(j_) == Decls[j_].ref = Decls[j_].dom
\* images under G of the wrapper's domain ends <<cod[1], cod[2]>>: F is strictly monotone and
\* sends ref[1], ref[2] to the codomain ends in the order given by the direction (EndPoints),
\* so its inverse sends them back
InvEndImages(j_, env_) ==
    LET r1_ == EndVal(Decls[j_].ref[1], env_)  r2_ == EndVal(Decls[j_].ref[2], env_)
    IN IF Direction(j_, env_) = 1 THEN <<r1_, r2_>> ELSE <<r2_, r1_>>
\* G of Becke and Handy is the indeterminate form inf/inf at r = +inf (ExprX refuses it); the
\* others have a value there
GDefinedAtInf(j_) == InstSeq[j_].cls \in {"Identity", "MultiExp", "Knowles"}
InvEndPointsAt(j_, env_) ==
    LET im_ == InvEndImages(j_, env_)
        c1_ == EndVal(Decls[j_].cod[1], env_)  c2_ == EndVal(Decls[j_].cod[2], env_)
    IN /\ XEqU(AtX(Trees[j_].F, env_, im_[1]), c1_) /\ XEqU(AtX(Trees[j_].F, env_, im_[2]), c2_)
       /\ XEqU(AtR(Trees[j_].G, env_, c1_), im_[1])
       /\ (IsFin(c2_) \/ GDefinedAtInf(j_) => XEqU(AtR(Trees[j_].G, env_, c2_), im_[2]))
InvEndPoints == phase = "block" /\ RefIsDom(cinst) => InvEndPointsAt(cinst, CEnv)
EmitInvEnds == phase = "block" /\ RefIsDom(cinst) =>
    PrintT(<<"IEND", cinst, cpar, Enc(EndVal(CD.cod[1], CEnv)), Enc(EndVal(CD.cod[2], CEnv)),
             Enc(InvEndImages(cinst, CEnv)[1]), Enc(InvEndImages(cinst, CEnv)[2])>>)

(***************************************************************************)
(* 2. The audit lattice.                                                   *)
(***************************************************************************)
EdgeKs == IF Thorough THEN <<7, 10, 14, 20>> ELSE <<7, 14>>
NearOne(k_) == Q(IPow(2, k_) - 1, IPow(2, k_))                  \* 1 - 2^-k
EdgeUnit == LET n_ == Len(EdgeKs) IN
            [i_ \in 1..(2 * n_) |-> IF i_ <= n_ THEN QNeg(NearOne(EdgeKs[n_ + 1 - i_])) ELSE NearOne(EdgeKs[i_ - n_])]
AUnitPts == Merge(<<Q(-1, 2), Q(0, 1), Q(1, 2)>>, EdgeUnit)
AHalfPts == <<Q(1, IPow(2, 20)), Q(1, 1024), Q(1, 1), Q(2, 1), Q(1000, 1), Q(IPow(2, 20), 1)>>

WithExpo(nm_, es_, ps_) ==       \* symbolic instances: the exponent value is part of the parameter set
    [i_ \in 1..(Len(es_) * Len(ps_)) |->
        ps_[((i_ - 1) % Len(ps_)) + 1] @@ (nm_ :> es_[((i_ - 1) \div Len(ps_)) + 1])]
ScaleParams == <<[rmin |-> Q(-2, 1), R |-> Q(1, 1000)], [rmin |-> Q(1, 1), R |-> Q(1000, 1)],
                 [rmin |-> Q(0, 1), R |-> Q(2, 1)]>>       \* the last one integer-valued
KExpos == IF Thorough THEN <<Q(1, 2), Q(5, 2), Q(8, 1), Q(21, 2)>> ELSE <<Q(1, 2), Q(8, 1)>>
MExpos == IF Thorough THEN <<Q(1, 1), Q(5, 2), Q(8, 1), Q(21, 2)>> ELSE <<Q(5, 2), Q(8, 1)>>
\* modified Handy: size just above 2^m - 1 (negative rmin), a large size, an integer-valued set
ModParams(t_) == <<[rmin |-> Q(-1, 1), rmax |-> Q(t_ - 1, 1)], [rmin |-> Q(1, 2), rmax |-> Q(10000, 1)],
                   [rmin |-> Q(0, 1), rmax |-> Q(t_ + 1, 1)]>>
AuditParamsOf(c_) ==
    CASE c_.cls \in {"Becke", "MultiExp"} -> ScaleParams
      [] c_.cls = "Knowles" -> IF c_.ip = 0 THEN WithExpo("k", KExpos, ScaleParams) ELSE ScaleParams
      [] c_.cls = "Handy" -> IF c_.ip = 0 THEN WithExpo("m", MExpos, ScaleParams) ELSE ScaleParams
      [] c_.cls = "HandyMod" ->
            IF c_.ip = 0 THEN WithExpo("m", <<Q(5, 2)>>, ModParams(6)) \o WithExpo("m", <<Q(8, 1)>>, ModParams(256))
            ELSE ModParams(IPow(2, c_.ip))
      [] c_.cls = "LinearFinite" -> <<[rmin |-> Q(-1, 1), rmax |-> Q(1, 1)], [rmin |-> Q(-5, 1), rmax |-> Q(10000, 1)],
                                      [rmin |-> Q(0, 1), rmax |-> Q(1, 1000)]>>
      [] c_.cls = "Identity" -> <<EmptyEnv>>
      [] c_.cls = "LinearInfinite" -> <<[rmin |-> Q(-3, 1), rmax |-> Q(5, 1), b |-> Q(3, 1000)],
                                        [rmin |-> Q(0, 1), rmax |-> Q(10000, 1), b |-> Q(1000, 1)]>>
      [] c_.cls \in {"Exp", "Power"} -> <<[rmin |-> Q(1, 1000000), rmax |-> Q(50, 1), b |-> Q(100, 1)],
                                          [rmin |-> Q(1, 1), rmax |-> Q(8, 1), b |-> Q(2, 1)]>>
      [] c_.cls = "Hyperbolic" -> <<[a |-> Q(1, 1000), b |-> Q(2, 5)], [a |-> Q(1000, 1), b |-> Q(1, 1000)],
                                    [a |-> Q(1, 1), b |-> Q(1, 1)]>>
\* admissibility of a parameter set that may carry the exponent (evaluated with the X-arithmetic:
\* 2^m for a rational m is a value or "not representable"; the harness decides those in 50 digits)
AdmissibleX(j_, env_) == \A i_ \in 1..Len(Decls[j_].adm) :
    LET v_ == EvalX(Decls[j_].adm[i_], XEnv(env_)) IN IsOvf(v_) \/ XSgn(v_) > 0
AuditParams == Force([j_ \in 1..NInst |->
                    LET T_(e_) == AdmissibleX(j_, e_) IN SelectSeq(AuditParamsOf(InstSeq[j_]), T_)])
AuditPointsOf(c_, env_) ==
    CASE c_.cls \in {"Becke", "LinearFinite", "MultiExp", "Knowles", "Handy", "HandyMod"} -> AUnitPts
      [] c_.cls \in {"Identity", "LinearInfinite", "Power"} -> AHalfPts
      \* Exp: the image grows like (rmax/rmin)^(x/b); stay below 3 b
      [] c_.cls = "Exp" -> <<Q(1, IPow(2, 20)), Q(1, 1024)>> \o [i_ \in 1..3 |-> QMul(env_["b"], Q(i_, 1))]
      [] c_.cls = "Hyperbolic" -> <<QDiv(Q(1, IPow(2, 20)), env_["b"]), QDiv(Q(1, 2), env_["b"])>>
                                  \o [i_ \in 1..Len(EdgeKs) |-> QDiv(NearOne(EdgeKs[i_]), env_["b"])]
AuditPoints == Force([j_ \in 1..NInst |-> [p_ \in 1..Len(AuditParams[j_]) |-> AuditPointsOf(InstSeq[j_], AuditParams[j_][p_])]])

\* TLC evaluates the instances with an instantiated exponent and the classes without one, except
\* Exp and Power (their logarithms combine only for the hand-picked sets of RTransform.tla)
AEvaluable(j_) == (InstSeq[j_].ip > 0 \/ Decls[j_].ename = "") /\ InstSeq[j_].cls \notin {"Exp", "Power"}
                  /\ (Thorough \/ InstSeq[j_].ip <= 3)

\* ValuesAt of RTransform.tla for an arbitrary parameter set and point sequence
ValuesOn(j_, e_, pts_, q_) ==
    LET x_ == XQ(pts_[q_])
        t_ == Trees[j_]
        fx_ == AtX(t_.F, e_, x_)
        nx_ == IF q_ < Len(pts_) THEN AtX(t_.F, e_, XQ(pts_[q_ + 1])) ELSE XOvf
    IN [fx |-> fx_, nxt |-> nx_, gf |-> AtR(t_.G, e_, fx_),
        d1 |-> AtX(t_.d1, e_, x_), d2 |-> AtX(t_.d2, e_, x_), d3 |-> AtX(t_.d3, e_, x_),
        g1 |-> AtR(t_.g1, e_, fx_), g2 |-> AtR(t_.g2, e_, fx_), g3 |-> AtR(t_.g3, e_, fx_),
        a1 |-> AtX(t_.a1, e_, x_), a2 |-> AtX(t_.a2, e_, x_), a3 |-> AtX(t_.a3, e_, x_),
        b1 |-> AtR(t_.b1, e_, fx_), b2 |-> AtR(t_.b2, e_, fx_), b3 |-> AtR(t_.b3, e_, fx_)]

(***************************************************************************)
(* 4. The b-protocol (state machine).                                      *)
(***************************************************************************)
BClasses == <<"LinearInfinite", "Exp", "Power">>
BInst(c_) == CHOOSE j_ \in 1..NInst : InstSeq[j_].cls = c_
BParams(c_) == IF c_ = "LinearInfinite" THEN [rmin |-> Q(1, 2), rmax |-> Q(5, 1)]
               ELSE [rmin |-> Q(1, 4), rmax |-> Q(4, 1)]
\* arguments as handed over: deliberately not ascending (the largest point first / in the middle);
\* a one-point argument is handed over as a NumPy scalar
BArgs == IF Thorough THEN << <<Q(1, 1), Q(4, 1), Q(2, 1)>>, <<Q(6, 1), Q(1, 2), Q(3, 1)>>, <<Q(8, 1)>>, <<Q(3, 2), Q(1, 4)>> >>
         ELSE << <<Q(1, 1), Q(4, 1), Q(2, 1)>>, <<Q(6, 1), Q(1, 2), Q(3, 1)>>, <<Q(8, 1)>> >>
BDepth == IF Thorough THEN 3 ELSE 2
RECURSIVE QMaxSeq(_)
QMaxSeq(s_) == IF Len(s_) = 1 THEN s_[1]
               ELSE LET t_ == QMaxSeq(Tail(s_)) IN IF QLt(t_, s_[1]) THEN s_[1] ELSE t_
FwdMethods == {"transform", "deriv", "deriv2", "deriv3"}
InvMethods == {"inverse", "deriv_inverse", "deriv2_inverse", "deriv3_inverse"}
\* the methods of LinearInfinite that are identically zero say nothing about b
DependsOnB(c_, me_) == ~(c_ = "LinearInfinite" /\ me_ \in {"deriv2", "deriv3", "deriv2_inverse", "deriv3_inverse"})

VARIABLES aphase, ainst, apar, apt, aval,     \* audit lattice: like phase, cinst, cpar, cpt, cval
          bcls,      \* 0, or the index into BClasses of the transform under the protocol
          bb,        \* <<>> while b is open, <<q>> once it is fixed
          bhist      \* the calls made so far: <<method, argument index, b after the call>>
avars == <<aphase, ainst, apar, apt, aval, bcls, bb, bhist>>

InitA == Init /\ aphase = "idle" /\ ainst = 0 /\ apar = 0 /\ apt = 0 /\ aval = <<>>
              /\ bcls = 0 /\ bb = <<>> /\ bhist = <<>>

APickBlock ==
    /\ aphase = "idle" /\ bcls = 0
    /\ \E j_ \in 1..NInst : \E p_ \in 1..Len(AuditParams[j_]) : AEvaluable(j_) /\ ainst' = j_ /\ apar' = p_
    /\ aphase' = "block" /\ UNCHANGED <<apt, aval, bcls, bb, bhist>>
APickPoint ==
    /\ aphase = "block"
    /\ \E q_ \in 1..Len(AuditPoints[ainst][apar]) :
          apt' = q_ /\ aval' = ValuesOn(ainst, AuditParams[ainst][apar], AuditPoints[ainst][apar], q_)
    /\ aphase' = "check" /\ UNCHANGED <<ainst, apar, bcls, bb, bhist>>

BStart ==
    /\ aphase = "idle" /\ bcls = 0
    /\ \E c_ \in 1..Len(BClasses) : bcls' = c_
    /\ UNCHANGED <<aphase, ainst, apar, apt, aval, bb, bhist>>
BCall ==
    /\ bcls # 0 /\ Len(bhist) < BDepth
    /\ \E me_ \in FwdMethods \cup InvMethods : \E a_ \in 1..Len(BArgs) :
          \* while b is open only a forward method whose value depends on b may be called ("b is
          \* taken from the first grid that is being transformed")
          /\ (bb = <<>> => me_ \in FwdMethods /\ DependsOnB(BClasses[bcls], me_))
          /\ bb' = IF bb = <<>> THEN <<QMaxSeq(BArgs[a_])>> ELSE bb
          /\ bhist' = Append(bhist, <<me_, a_, bb'[1]>>)
    /\ UNCHANGED <<aphase, ainst, apar, apt, aval, bcls>>

NextA == \/ (aphase = "idle" /\ bcls = 0 /\ Next /\ UNCHANGED avars)
         \/ (phase = "idle" /\ (APickBlock \/ APickPoint \/ BStart \/ BCall) /\ UNCHANGED vars)
SpecA == InitA /\ [][NextA]_<<vars, avars>>

\* ---- audit lattice: the identities of RTransform.tla ----------------------------------------
AEnv == AuditParams[ainst][apar]
APts == AuditPoints[ainst][apar]
AChecking == aphase = "check"
AuditIdentities == AChecking =>
    /\ XEqU(aval.gf, XQ(APts[apt]))
    /\ XEqU(XMul(aval.g1, aval.d1), XI(1))
    /\ XEqU(aval.g1, aval.a1) /\ XEqU(aval.g2, aval.a2) /\ XEqU(aval.g3, aval.a3)
    /\ XEqU(aval.d1, aval.b1) /\ XEqU(aval.d2, aval.b2) /\ XEqU(aval.d3, aval.b3)
    /\ (IsOvf(aval.d1) \/ XSgn(aval.d1) = Direction(ainst, AEnv))
    /\ (apt < Len(APts) => IF Direction(ainst, AEnv) = 1 THEN XLtU(aval.fx, aval.nxt) ELSE XLtU(aval.nxt, aval.fx))
AuditInterior == AChecking =>
    /\ XLt(EndVal(Decls[ainst].use[1], AEnv), XQ(APts[apt])) /\ XLt(XQ(APts[apt]), EndVal(Decls[ainst].use[2], AEnv))
    /\ (XLt(EndVal(Decls[ainst].ref[1], AEnv), XQ(APts[apt])) /\ XLt(XQ(APts[apt]), EndVal(Decls[ainst].ref[2], AEnv))
          => XLtU(EndVal(Decls[ainst].cod[1], AEnv), aval.fx) /\ XLtU(aval.fx, EndVal(Decls[ainst].cod[2], AEnv)))
AuditEnds == aphase = "block" =>
    /\ Direction(ainst, AEnv) # 0
    /\ LET im_ == RefImages(ainst, AEnv)
           lo_ == EndVal(Decls[ainst].cod[1], AEnv)  hi_ == EndVal(Decls[ainst].cod[2], AEnv)
       IN IF Direction(ainst, AEnv) = 1 THEN im_ = <<lo_, hi_>> ELSE im_ = <<hi_, lo_>>
    /\ (RefIsDom(ainst) => InvEndPointsAt(ainst, AEnv))
EmitAuditValues == AChecking =>
    PrintT(<<"AVAL", ainst, apar, apt, Enc(aval.fx),
             <<Enc(aval.d1), Enc(aval.d2), Enc(aval.d3), Enc(aval.g1), Enc(aval.g2), Enc(aval.g3)>> >>)
EmitAuditEnds == aphase = "block" =>
    PrintT(<<"AEND", ainst, apar, Enc(RefImages(ainst, AEnv)[1]), Enc(RefImages(ainst, AEnv)[2]), Direction(ainst, AEnv)>>)

\* ---- b-protocol: laws ------------------------------------------------------------------------
BFrozen == [][bb # <<>> => bb' = bb]_bb
BFromFirstCall == bhist # <<>> =>
    /\ bb = <<QMaxSeq(BArgs[bhist[1][2]])>>
    /\ \A i_ \in 1..Len(bhist) : bhist[i_][3] = bb[1]
    /\ bhist[1][1] \in FwdMethods
BAdmissible == bb # <<>> => QSgn(bb[1]) > 0
\* the fixed b is the scale point: it is sent to rmax (and 0 to rmin)
BEnvNow == BParams(BClasses[bcls]) @@ ("b" :> bb[1])
BScalePoint == bb # <<>> =>
    /\ XEqU(AtX(Trees[BInst(BClasses[bcls])].F, BEnvNow, XQ(bb[1])), XQ(BEnvNow["rmax"]))
    /\ XEqU(AtX(Trees[BInst(BClasses[bcls])].F, BEnvNow, XI(0)), XQ(BEnvNow["rmin"]))
EmitBTrace == Len(bhist) = BDepth => PrintT(<<"BTRACE", bcls, bhist>>)

(***************************************************************************)
(* 3. Forms of the argument and constructor variants.                      *)
(***************************************************************************)
Forms == <<"zero-d", "int-array", "longdouble", "reversed-dup", "empty", "shared-object">>
HalfLine(j_) == Decls[j_].dom[1] = Zero
IsIntQ(q_) == q_[2] = 1
IntIdx(pts_) == SelectSeq([i_ \in 1..Len(pts_) |-> i_], LAMBDA i_ : IsIntQ(pts_[i_]))
\* integer arrays are the natural argument of the maps of [0, inf) (equally spaced integers) only
FormApplies(f_, j_, pts_) == IF f_ = "int-array" THEN HalfLine(j_) /\ IntIdx(pts_) # <<>> ELSE TRUE
\* the argument as a sequence of indexes into the ascending point lattice pts_
FormArg(f_, pts_) ==
    LET n_ == Len(pts_) IN
    CASE f_ = "reversed-dup" -> [i_ \in 1..(n_ + 2) |-> IF i_ <= n_ THEN n_ + 1 - i_ ELSE IF i_ = n_ + 1 THEN n_ ELSE 1]
      [] f_ = "int-array" -> IntIdx(pts_)
      [] f_ = "empty" -> <<>>
      [] f_ \in {"zero-d", "longdouble", "shared-object"} -> [i_ \in 1..n_ |-> i_]

Variants == <<"keywords", "int-params", "exponent-float", "exponent-npint", "trim-default", "double-inverse">>
AllInt(env_) == DOMAIN env_ # {} /\ \A nm_ \in DOMAIN env_ : IsIntQ(env_[nm_])
VariantApplies(v_, j_, env_) ==
    CASE v_ = "int-params" -> AllInt(env_)
      [] v_ \in {"exponent-float", "exponent-npint"} -> InstSeq[j_].ip > 0
      [] v_ = "trim-default" -> Decls[j_].trims
      [] v_ = "keywords" -> DOMAIN env_ # {}
      [] v_ = "double-inverse" -> TRUE

AuditEmission ==
    [instances |-> [j_ \in 1..NInst |->
        [cls |-> InstSeq[j_].cls, ip |-> InstSeq[j_].ip, evaluable |-> AEvaluable(j_), refisdom |-> RefIsDom(j_),
         params |-> AuditParams[j_], points |-> AuditPoints[j_],
         forms |-> [p_ \in 1..Len(AuditParams[j_]) |->
                      [f_ \in 1..Len(Forms) |->
                          [form |-> Forms[f_], applies |-> FormApplies(Forms[f_], j_, AuditPoints[j_][p_]),
                           arg |-> IF FormApplies(Forms[f_], j_, AuditPoints[j_][p_])
                                   THEN FormArg(Forms[f_], AuditPoints[j_][p_]) ELSE <<>>]]],
         variants |-> [p_ \in 1..Len(AuditParams[j_]) |->
                      [v_ \in 1..Len(Variants) |->
                          [variant |-> Variants[v_], applies |-> VariantApplies(Variants[v_], j_, AuditParams[j_][p_])]]]]],
     bproto |-> [classes |-> BClasses, inst |-> [c_ \in 1..Len(BClasses) |-> BInst(BClasses[c_])],
                 params |-> [c_ \in 1..Len(BClasses) |-> BParams(BClasses[c_])],
                 args |-> BArgs, depth |-> BDepth]]

ASSUME AuditFile = "" \/ JsonSerialize(AuditFile, AuditEmission)
=============================================================================
