INIT InitPre
NEXT NextPre
INVARIANT PreBranchMatchesKind
INVARIANT PreShapeFits
INVARIANT PreCountsPositive
INVARIANT PreRadiiIncreasing
INVARIANT PreSizesSupported
INVARIANT PreConforms
