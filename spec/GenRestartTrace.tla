-------------------------- MODULE GenRestartTrace --------------------------
(***************************************************************************)
(* Trace validation for X02 (d).  traces_x02d.json holds traces recorded   *)
(* from real MultiDomainGrid objects; the first event of a trace is "New"  *)
(* (per-domain sizes and integer weights), every further event is replayed *)
(* through the action of GenRestart and the logged answer must be the one  *)
(* the specification gives in its current state.  A rejected trace is      *)
(* reported (trace, position, clause) and the next one is started.         *)
(***************************************************************************)
EXTENDS GenRestart, Json
Traces == JsonDeserialize("traces_x02d.json")
VARIABLES gt_tid, gt_l
tvars == <<grvars, gt_tid, gt_l>>
Ev == Traces[gt_tid][gt_l]
NoSeq == <<>>

StepClause(e_) ==
    IF e_.g \notin 1..Len(gr_gens) THEN "harness-stepped-unknown-handle"
    ELSE LET p_ == gr_gens[e_.g].pos kd_ == gr_gens[e_.g].kind IN
         IF p_ < Total
           THEN IF e_.out = "stop" THEN "stopped-before-size-items"
                ELSE IF e_.out # "item" THEN "raised:" \o e_.out
                ELSE IF kd_ = "p" /\ e_.idx # ItemOf(CSizes, p_) THEN "wrong-point"
                ELSE IF kd_ = "w" /\ e_.val # WeightOf(CWts, ItemOf(CSizes, p_)) THEN "wrong-weight"
                ELSE "ok"
           ELSE IF e_.out = "item" THEN "yields-more-than-size-items"
                ELSE IF e_.out # "stop" THEN "raised:" \o e_.out ELSE "ok"
Clause(e_) ==
    CASE e_.ev = "NewGen" -> IF e_.out # "" THEN "raised:" \o e_.out
                             ELSE IF e_.g # Len(gr_gens) + 1 THEN "harness-handle-numbering"
                             ELSE IF ~e_.isnew THEN "same-generator-object-handed-out-again" ELSE "ok"
      [] e_.ev = "Step" -> StepClause(e_)
      [] e_.ev = "Size" -> IF e_.out # "" THEN "raised:" \o e_.out ELSE IF e_.val # Total THEN "wrong-size" ELSE "ok"
      [] e_.ev = "Integrate" -> IF e_.out # "" THEN "raised:" \o e_.out
                                ELSE IF e_.val # IntegralOfOne THEN "wrong-integral" ELSE "ok"
      [] OTHER -> "unknown-event"
Apply(e_) ==
    CASE e_.ev = "NewGen" -> NewGen(e_.kind)
      [] e_.ev = "Step" -> Step(e_.g)
      [] e_.ev = "Size" -> Size
      [] e_.ev = "Integrate" -> Integrate(e_.route)
CfgOf(t_) == IF t_ <= Len(Traces) THEN [sizes |-> Traces[t_][1].sizes, wts |-> Traces[t_][1].wts]
             ELSE [sizes |-> <<1>>, wts |-> << <<1>> >>]
StartTrace(t_) == /\ gt_tid' = t_ /\ gt_l' = 2 /\ gr_cfg' = CfgOf(t_)
                  /\ gr_gens' = <<>> /\ gr_shared' = [k_ \in Kinds |-> 0] /\ gr_obs' = NoObs
TInit == /\ gt_tid = 1 /\ gt_l = 2 /\ gr_cfg = CfgOf(1)
         /\ gr_gens = <<>> /\ gr_shared = [k_ \in Kinds |-> 0] /\ gr_obs = NoObs
TNext ==
    /\ gt_tid <= Len(Traces)
    /\ IF gt_l > Len(Traces[gt_tid])
         THEN PrintT(<<"ACCEPT", gt_tid>>) /\ StartTrace(gt_tid + 1)
         ELSE IF Clause(Ev) = "ok"
                THEN Apply(Ev) /\ gt_l' = gt_l + 1 /\ gt_tid' = gt_tid
                ELSE PrintT(<<"REJECT", gt_tid, gt_l, Ev.ev, Clause(Ev)>>) /\ StartTrace(gt_tid + 1)
TSpec == TInit /\ [][TNext]_tvars
\* the specification's own invariants (NewGenFresh, YieldsExactlySize, ItemInOrder) are evaluated in every
\* state of every trace as well
=============================================================================
