-------------------------------- MODULE Expr --------------------------------
(***************************************************************************)
(* Symbolic real expressions as trees, with a symbolic derivative.         *)
(*                                                                         *)
(* A specification states only DEFINITIONS as trees (the forward map of a  *)
(* radial transform, the node map of a variable-substitution rule, Y_lm    *)
(* from its defining formula ...).  Everything a property talks about      *)
(* (derivatives, Jacobian weights, inverse-function identities) is DERIVED *)
(* here by D, mechanically.  TLC evaluates the rational fragment exactly   *)
(* (EvalQ); trees with transcendental nodes are serialised with ToJson and *)
(* evaluated by the generic evaluator vf/expr_eval.py (Fraction / 50-digit *)
(* mpmath), which contains no knowledge of the library.                    *)
(*                                                                         *)
(* Parameter names carry a trailing underscore on purpose: a parameter     *)
(* that shares its name with a VARIABLE of an extending module makes SANY  *)
(* treat constant definitions as state-level (no caching in TLC).          *)
(***************************************************************************)
EXTENDS Exact

\* ---- constructors -------------------------------------------------------
C(n_, d_)   == [op |-> "c", n |-> Q(n_, d_)[1], d |-> Q(n_, d_)[2]]
CQ(q_)      == [op |-> "c", n |-> q_[1], d |-> q_[2]]
CI(i_)      == [op |-> "c", n |-> i_, d |-> 1]
V(name_)    == [op |-> "v", name |-> name_]
Pi          == [op |-> "pi"]
Un(op_, a_) == [op |-> op_, a |-> a_]
Bin(op_, a_, b_) == [op |-> op_, a |-> a_, b |-> b_]
PowI(a_, k_) == [op |-> "powi", a |-> a_, k |-> k_]
SumE(idx_, lo_, hi_, a_) == [op |-> "sum", idx |-> idx_, lo |-> lo_, hi |-> hi_, a |-> a_]

IsC(e_)    == e_.op = "c"
IsZero(e_) == e_.op = "c" /\ e_.n = 0
IsOne(e_)  == e_.op = "c" /\ e_.n = 1 /\ e_.d = 1
CVal(e_)   == <<e_.n, e_.d>>

\* smart constructors: fold constants and drop neutral elements (keeps derivatives small)
Neg(a_) == IF IsC(a_) THEN CQ(QNeg(CVal(a_)))
           ELSE IF a_.op = "neg" THEN a_.a ELSE Un("neg", a_)
Add(a_, b_) == IF IsZero(a_) THEN b_ ELSE IF IsZero(b_) THEN a_
               ELSE IF IsC(a_) /\ IsC(b_) THEN CQ(QAdd(CVal(a_), CVal(b_)))
               ELSE Bin("add", a_, b_)
Sub(a_, b_) == IF IsZero(b_) THEN a_ ELSE IF IsZero(a_) THEN Neg(b_)
               ELSE IF IsC(a_) /\ IsC(b_) THEN CQ(QSub(CVal(a_), CVal(b_)))
               ELSE Bin("sub", a_, b_)
Mul(a_, b_) == IF IsZero(a_) \/ IsZero(b_) THEN CI(0)
               ELSE IF IsOne(a_) THEN b_ ELSE IF IsOne(b_) THEN a_
               ELSE IF IsC(a_) /\ IsC(b_) THEN CQ(QMul(CVal(a_), CVal(b_)))
               ELSE Bin("mul", a_, b_)
Div(a_, b_) == IF IsZero(a_) THEN CI(0) ELSE IF IsOne(b_) THEN a_
               ELSE IF IsC(a_) /\ IsC(b_) THEN CQ(QDiv(CVal(a_), CVal(b_)))
               ELSE Bin("div", a_, b_)
Pow(a_, k_) == IF k_ = 0 THEN CI(1) ELSE IF k_ = 1 THEN a_ ELSE PowI(a_, k_)   \* integer exponent
PowR(a_, b_) == IF IsZero(b_) THEN CI(1) ELSE IF IsOne(b_) THEN a_ ELSE Bin("pow", a_, b_)  \* real exponent, a > 0
Sqrt(a_) == Un("sqrt", a_)
Exp(a_) == IF IsZero(a_) THEN CI(1) ELSE Un("exp", a_)
Log(a_) == Un("log", a_)
Sin(a_) == Un("sin", a_)
Cos(a_) == Un("cos", a_)
Sinh(a_) == Un("sinh", a_)
Cosh(a_) == Un("cosh", a_)
Tanh(a_) == Un("tanh", a_)
Asinh(a_) == Un("asinh", a_)
Asin(a_) == Un("asin", a_)
Acos(a_) == Un("acos", a_)
Atan(a_) == Un("atan", a_)
Erf(a_) == Un("erf", a_)
AbsE(a_) == Un("abs", a_)
Sq(a_) == Pow(a_, 2)

\* ---- symbolic derivative with respect to the variable named x_ ------------
RECURSIVE D(_, _)
D(e_, x_) ==
    CASE e_.op = "c"  -> CI(0)
      [] e_.op = "pi" -> CI(0)
      [] e_.op = "v"  -> IF e_.name = x_ THEN CI(1) ELSE CI(0)
      [] e_.op = "neg" -> Neg(D(e_.a, x_))
      [] e_.op = "add" -> Add(D(e_.a, x_), D(e_.b, x_))
      [] e_.op = "sub" -> Sub(D(e_.a, x_), D(e_.b, x_))
      [] e_.op = "mul" -> Add(Mul(D(e_.a, x_), e_.b), Mul(e_.a, D(e_.b, x_)))
      [] e_.op = "div" -> LET da == D(e_.a, x_) db == D(e_.b, x_) IN
                          IF IsZero(db) THEN Div(da, e_.b)
                          ELSE Div(Sub(Mul(da, e_.b), Mul(e_.a, db)), Sq(e_.b))
      [] e_.op = "powi" -> Mul(Mul(CI(e_.k), Pow(e_.a, e_.k - 1)), D(e_.a, x_))
      [] e_.op = "pow" -> \* a^b = exp(b log a)
            LET da == D(e_.a, x_) db == D(e_.b, x_) IN
            Add(Mul(Mul(e_.b, PowR(e_.a, Sub(e_.b, CI(1)))), da),
                Mul(Mul(e_, Log(e_.a)), db))
      [] e_.op = "sqrt" -> Div(D(e_.a, x_), Mul(CI(2), e_))
      [] e_.op = "exp"  -> Mul(e_, D(e_.a, x_))
      [] e_.op = "log"  -> Div(D(e_.a, x_), e_.a)
      [] e_.op = "sin"  -> Mul(Cos(e_.a), D(e_.a, x_))
      [] e_.op = "cos"  -> Neg(Mul(Sin(e_.a), D(e_.a, x_)))
      [] e_.op = "sinh" -> Mul(Cosh(e_.a), D(e_.a, x_))
      [] e_.op = "cosh" -> Mul(Sinh(e_.a), D(e_.a, x_))
      [] e_.op = "tanh" -> Mul(Sub(CI(1), Sq(e_)), D(e_.a, x_))
      [] e_.op = "asinh" -> Div(D(e_.a, x_), Sqrt(Add(Sq(e_.a), CI(1))))
      [] e_.op = "asin" -> Div(D(e_.a, x_), Sqrt(Sub(CI(1), Sq(e_.a))))
      [] e_.op = "acos" -> Neg(Div(D(e_.a, x_), Sqrt(Sub(CI(1), Sq(e_.a)))))
      [] e_.op = "atan" -> Div(D(e_.a, x_), Add(CI(1), Sq(e_.a)))
      [] e_.op = "erf"  -> Mul(Mul(Div(CI(2), Sqrt(Pi)), Exp(Neg(Sq(e_.a)))), D(e_.a, x_))
      [] e_.op = "sum"  -> SumE(e_.idx, e_.lo, e_.hi, D(e_.a, x_))
      \* "abs" has no derivative here on purpose: use it only around derived results

Dn(e_, x_, n_) == IF n_ = 0 THEN e_ ELSE IF n_ = 1 THEN D(e_, x_)
                  ELSE IF n_ = 2 THEN D(D(e_, x_), x_) ELSE D(D(D(e_, x_), x_), x_)

\* ---- substitution of a variable by a tree ---------------------------------
RECURSIVE Subst(_, _, _)
Subst(e_, x_, r_) ==
    CASE e_.op \in {"c", "pi"} -> e_
      [] e_.op = "v" -> IF e_.name = x_ THEN r_ ELSE e_
      [] e_.op \in {"add", "sub", "mul", "div", "pow"} ->
            [op |-> e_.op, a |-> Subst(e_.a, x_, r_), b |-> Subst(e_.b, x_, r_)]
      [] e_.op = "powi" -> [op |-> "powi", a |-> Subst(e_.a, x_, r_), k |-> e_.k]
      [] e_.op = "sum" -> [op |-> "sum", idx |-> e_.idx, lo |-> e_.lo, hi |-> e_.hi,
                           a |-> Subst(e_.a, x_, r_)]
      [] OTHER -> [op |-> e_.op, a |-> Subst(e_.a, x_, r_)]

\* ---- exact evaluation of the rational fragment -----------------------------
\* env_ is a function from variable names to rationals <<n, d>>
IsRationalOp(o_) == o_ \in {"c", "v", "neg", "add", "sub", "mul", "div", "powi", "sum", "abs"}
RECURSIVE IsRational(_)
IsRational(e_) ==
    /\ IsRationalOp(e_.op)
    /\ CASE e_.op \in {"c", "v"} -> TRUE
         [] e_.op \in {"add", "sub", "mul", "div"} -> IsRational(e_.a) /\ IsRational(e_.b)
         [] OTHER -> IsRational(e_.a)

RECURSIVE EvalQ(_, _)
EvalQ(e_, env_) ==
    CASE e_.op = "c" -> <<e_.n, e_.d>>
      [] e_.op = "v" -> env_[e_.name]
      [] e_.op = "neg" -> QNeg(EvalQ(e_.a, env_))
      [] e_.op = "abs" -> QAbs(EvalQ(e_.a, env_))
      [] e_.op = "add" -> QAdd(EvalQ(e_.a, env_), EvalQ(e_.b, env_))
      [] e_.op = "sub" -> QSub(EvalQ(e_.a, env_), EvalQ(e_.b, env_))
      [] e_.op = "mul" -> QMul(EvalQ(e_.a, env_), EvalQ(e_.b, env_))
      [] e_.op = "div" -> QDiv(EvalQ(e_.a, env_), EvalQ(e_.b, env_))
      [] e_.op = "powi" -> QPow(EvalQ(e_.a, env_), e_.k)
      [] e_.op = "sum" ->
            LET RECURSIVE S(_)
                S(i_) == IF i_ > e_.hi THEN QZero
                         ELSE QAdd(EvalQ(e_.a, [n_ \in DOMAIN env_ \cup {e_.idx} |->
                                               IF n_ = e_.idx THEN QI(i_) ELSE env_[n_]]), S(i_ + 1))
            IN S(e_.lo)
=============================================================================
